//! S->I executor for the behaviours generated from spec/MC_Tsig.tla.
//!
//! A case is one TSIG exchange: `in.cfg` (key parameters, mode, clocks),
//! `in.ops` (client / server / adversary / independent-responder steps) and
//! `in.terms` (the symbolic MAC tables: "ideal" and one per deviation).  Every
//! op is performed with the real domain::tsig API on real messages with real
//! ring keys; the observation of every op (result class, which term the
//! produced MAC equals, TSIG RR fields, octets restored) is compared with the
//! specification's expectation for that op.
#[path = "../tsig.rs"]
mod tsig;

use domain::base::{Message, MessageBuilder};
use domain::rdata::tsig::Time48;
use domain::tsig::{ClientSequence, ClientTransaction, Key, ServerError, ServerSequence, ServerTransaction};
use serde_json::{json, Value};
use std::collections::{BTreeMap, VecDeque};
use std::panic::{catch_unwind, AssertUnwindSafe};
use tsig::*;
use verif_harness::common::*;

enum Cli {
    None,
    Txn(ClientTransaction<Key>),
    Seq(ClientSequence<Key>),
    Gone,
}
enum Srv {
    None,
    Txn(ServerTransaction<Key>),
    Seq(ServerSequence<Key>),
    Err(ServerError<Key>),
}

struct Flight {
    wire: Vec<u8>,
    rep: u64,
    pre_len: usize, // where the TSIG RR starts (if signed)
    signed: bool,
    pre: Vec<u8>,
    movedup: bool,
}

struct Run<'a> {
    cfg: &'a Value,
    terms: BTreeMap<String, Terms>,
    order: Vec<String>,
    key_c: Key,
    key_s: Key,
    cli: Cli,
    srv: Srv,
    net: VecDeque<Flight>,
    req_wire: Vec<u8>,   // request as received by the server
    req_rr: Option<TsigRr>,
    req_id_verified: u16,
    s_res: String,
    req_movedup: bool,
    s_now: u64,
    last_full: Vec<u8>,
}

fn ref_full_guess(terms: &mut BTreeMap<String, Terms>, j: usize) -> Vec<u8> {
    terms.get_mut("ideal").and_then(|t| t.full(j).ok()).unwrap_or_default()
}

fn t48(v: &Value) -> Time48 {
    Time48::from_u64(v.as_u64().unwrap_or(0))
}

impl<'a> Run<'a> {
    fn which_term(&mut self, j: usize, n: usize, mac: &[u8]) -> String {
        for name in self.order.clone() {
            if let Some(t) = self.terms.get_mut(&name) {
                if let Ok(m) = t.mac(j, n) {
                    if m == mac {
                        return name;
                    }
                }
            }
        }
        "other".into()
    }

    /// checks on a freshly signed message: prefix untouched, ARCOUNT + 1, RR fields
    fn check_signed(&self, pre: &[u8], wire: &[u8], want: &TsigRr) -> (String, Option<TsigRr>) {
        if wire.len() < pre.len() || wire[12..pre.len()] != pre[12..] || wire[..10] != pre[..10] {
            return ("prefix".into(), None);
        }
        if get_ar(wire) != get_ar(pre) + 1 {
            return ("arcount".into(), None);
        }
        let (rr, end) = match TsigRr::parse_at(wire, pre.len()) {
            Some(x) => x,
            None => return ("unparseable".into(), None),
        };
        if end != wire.len() {
            return ("trailing".into(), Some(rr));
        }
        let f = if rr.name != want.name { "name" }
            else if rr.alg != want.alg { "alg" }
            else if want.time != u64::MAX && rr.time != want.time { "time" }
            else if want.time != u64::MAX && rr.fudge != want.fudge { "fudge" }
            else if rr.x.cls != want.x.cls || rr.x.ttl != want.x.ttl { "class" }
            else if rr.oid != want.oid { "oid" }
            else if rr.err != want.err { "err" }
            else if rr.other != want.other { "other" }
            else { "ok" };
        (f.into(), Some(rr))
    }

    fn signed_obs(&mut self, op: &Value, pre: &[u8], wire: &[u8], want: &TsigRr) -> Value {
        let (rrs, rr) = self.check_signed(pre, wire, want);
        let mac = match (&rr, op.get("macref")) {
            (Some(rr), Some(m)) if m["j"].as_u64().unwrap_or(0) > 0 => {
                let (j, n) = (m["j"].as_u64().unwrap() as usize, m["n"].as_u64().unwrap_or(0) as usize);
                self.last_full = ref_full_guess(&mut self.terms, j);
                if rr.mac.len() != n { "length".to_string() } else { self.which_term(j, n, &rr.mac) }
            }
            (Some(rr), _) => if rr.mac.is_empty() { "none".into() } else { "unexpected".into() },
            _ => "norr".into(),
        };
        json!({"res": "Ok", "mac": mac, "rr": rrs})
    }

    fn allow(op: &Value, res: &str) -> String {
        if let Some(a) = op.get("allow").and_then(|a| a.as_array()) {
            let names: Vec<&str> = a.iter().filter_map(|x| x.as_str()).collect();
            if names.contains(&res) {
                return names.join("|");
            }
        }
        res.to_string()
    }

    fn step(&mut self, op: &Value) -> Value {
        let mode_seq = self.cfg["mode"] == "seq";
        let alg = self.cfg["kc"]["alg"].as_str().unwrap_or("sha256").to_string();
        match op["op"].as_str().unwrap_or("") {
            "c_request" => {
                let (b, id) = (op["b"].as_u64().unwrap(), op["id"].as_u64().unwrap() as u16);
                let fudge = op["fudge"].as_u64().unwrap() as u16;
                let mut bld = match msg_builder(id, 0, 0, b) { Ok(x) => x, Err(e) => return json!({"harness": e}) };
                let pre = bld.as_slice().to_vec();
                let r = if mode_seq {
                    ClientSequence::request_with_fudge(self.key_c.clone(), &mut bld, t48(&op["now"]), fudge)
                        .map(|c| self.cli = Cli::Seq(c))
                } else {
                    ClientTransaction::request_with_fudge(self.key_c.clone(), &mut bld, t48(&op["now"]), fudge)
                        .map(|c| self.cli = Cli::Txn(c))
                };
                if r.is_err() {
                    return json!({"res": "PushError"});
                }
                let wire = bld.finish();
                let want = TsigRr { x: Shape::default(), name: name_wire(KEYNAME_C), alg: alg_wire(&alg), time: op["now"].as_u64().unwrap(),
                                    fudge, mac: vec![], oid: id, err: 0, other: vec![] };
                let obs = self.signed_obs(op, &pre, &wire, &want);
                self.net.clear();       // composed again: replaces the request in flight
                self.net.push_back(Flight { pre_len: pre.len(), wire, rep: 1, signed: true, pre, movedup: false });
                obs
            }
            "adv" => {
                let kind = op["kind"].as_str().unwrap_or("");
                if kind == "InsertUnsigned" {
                    let w = msg_octets(0x1234, 0x80, 0, 3);
                    self.net.push_front(Flight { pre_len: w.len(), pre: w.clone(), wire: w, rep: 1, signed: false, movedup: false });
                    return json!({"res": "Ok"});
                }
                let f = match self.net.front_mut() { Some(f) => f, None => return json!({"harness": "nothing in flight"}) };
                match apply_adv(&mut f.wire, f.pre_len, op, &self.last_full) {
                    Ok(still_signed) => { f.signed = f.signed && still_signed; json!({"res": "Ok"}) }
                    Err(e) => json!({"harness": e}),
                }
            }
            "s_request" => {
                let f = match self.net.pop_front() { Some(f) => f, None => return json!({"harness": "nothing in flight"}) };
                self.req_wire = f.wire.clone();
                self.req_movedup = f.movedup;
                self.req_rr = if f.signed { TsigRr::parse_at(&f.wire, f.pre_len).map(|x| x.0) } else { None };
                let mut msg = match Message::from_octets(f.wire.clone()) { Ok(m) => m, Err(_) => return json!({"res": "ShortMessage"}) };
                let now = t48(&op["now"]);
                self.s_now = op["now"].as_u64().unwrap_or(0);
                let res = if mode_seq && self.cfg["server"] == "impl" {
                    match ServerSequence::request(&self.key_s, &mut msg, now) {
                        Ok(Some(s)) => { self.srv = Srv::Seq(s); "Ok".to_string() }
                        Ok(None) => "Unsigned".to_string(),
                        Err(e) => { let n = tsig_rcode_name(e.error().to_int()).to_string(); self.srv = Srv::Err(e); n }
                    }
                } else {
                    match ServerTransaction::request(&self.key_s, &mut msg, now) {
                        Ok(Some(s)) => { self.srv = Srv::Txn(s); "Ok".to_string() }
                        Ok(None) => "Unsigned".to_string(),
                        Err(e) => { let n = tsig_rcode_name(e.error().to_int()).to_string(); self.srv = Srv::Err(e); n }
                    }
                };
                let after = msg.as_slice();
                let restored = res == "Ok" && after.len() >= f.pre.len() && after[..f.pre.len()] == f.pre[..];
                self.req_id_verified = get_id(after);
                self.s_res = res.clone();
                json!({"res": Self::allow(op, &res), "restored": restored})
            }
            "s_error" => {
                let err = match std::mem::replace(&mut self.srv, Srv::None) { Srv::Err(e) => e, _ => return json!({"diverged": true}) };
                let req = Message::from_octets(self.req_wire.clone()).unwrap();
                let r = catch_unwind(AssertUnwindSafe(|| err.build_message(&req, MessageBuilder::new_vec()).map(|b| b.finish())));
                let wire = match r {
                    Err(_) => return json!({"res": "panic"}),
                    Ok(Err(_)) => return json!({"res": "PushError"}),
                    Ok(Ok(w)) => w,
                };
                let rid = get_id(&self.req_wire);
                // start_answer copies the question of the request as received
                let mut pre = msg_octets(rid, 0x80, 9, 1);
                let qlen = pre.len() - 12;
                if self.req_wire.len() >= 12 + qlen {
                    pre[12..].copy_from_slice(&self.req_wire[12..12 + qlen]);
                }
                if wire.len() == pre.len() && get_ar(&wire) == get_ar(&pre) {
                    // the request's TSIG could not be located: nothing to mirror
                    return json!({"res": "NoPanic"});
                }
                let rq = self.req_rr.clone().unwrap_or(TsigRr { x: Shape::default(), name: vec![], alg: vec![], time: 0, fudge: 0, mac: vec![], oid: 0, err: 0, other: vec![] });
                let want = if self.s_res == "BADTIME" {
                    TsigRr { x: Shape::default(), name: name_wire(KEYNAME_S), alg: alg_wire(&alg), time: rq.time, fudge: rq.fudge, mac: vec![],
                             oid: rid, err: 18, other: u48(self.s_now).to_vec() }
                } else {
                    let code = match self.s_res.as_str() { "BADSIG" => 16, "BADKEY" => 17, "BADTRUNC" => 22, _ => 1 };
                    // RFC 8945 5.3.2 does not say which times an unsigned error carries: not compared
                    TsigRr { x: Shape { cls: rq.x.cls, ttl: rq.x.ttl, ..Shape::default() }, name: rq.name.clone(), alg: rq.alg.clone(), time: u64::MAX, fudge: 0, mac: vec![],
                             oid: rid, err: code, other: vec![] }
                };
                let obs = self.signed_obs(op, &pre, &wire, &want);
                self.net.push_back(Flight { pre_len: pre.len(), wire, rep: 1, signed: true, pre, movedup: false });
                obs
            }
            "s_answer" => {
                let b = op["b"].as_u64().unwrap();
                let fudge = op["fudge"].as_u64().unwrap() as u16;
                let id = self.req_id_verified;
                let rc = op["rc"].as_u64().unwrap_or(0) as u8;
                let mut bld = match msg_builder(id, 0x80, rc, b) { Ok(x) => x, Err(e) => return json!({"harness": e}) };
                let pre = bld.as_slice().to_vec();
                let now = t48(&op["now"]);
                let r = match std::mem::replace(&mut self.srv, Srv::None) {
                    Srv::Txn(t) => t.answer_with_fudge(&mut bld, now, fudge),
                    Srv::Seq(mut s) => { let r = s.answer_with_fudge(&mut bld, now, fudge); self.srv = Srv::Seq(s); r }
                    _ => return json!({"diverged": true}),
                };
                if r.is_err() {
                    return json!({"res": "PushError"});
                }
                let wire = bld.finish();
                let want = TsigRr { x: Shape::default(), name: name_wire(KEYNAME_S), alg: alg_wire(&alg), time: op["now"].as_u64().unwrap(),
                                    fudge, mac: vec![], oid: id, err: 0, other: vec![] };
                let obs = self.signed_obs(op, &pre, &wire, &want);
                self.net.push_back(Flight { pre_len: pre.len(), wire, rep: 1, signed: true, pre, movedup: false });
                obs
            }
            "rfc_answer" => {
                // the independent responder: MAC = eval(spec term), RR composed here
                let b = op["b"].as_u64().unwrap();
                let id = self.req_id_verified;
                let pre = msg_octets(id, 0x80, op["rc"].as_u64().unwrap_or(0) as u8, b);
                let (j, n) = (op["mac"].as_u64().unwrap() as usize, op["n"].as_u64().unwrap() as usize);
                let mac = match self.terms.get_mut("ideal").unwrap().mac(j, n) { Ok(m) => m, Err(e) => return json!({"harness": e}) };
                self.last_full = ref_full_guess(&mut self.terms, j);
                let rr = TsigRr { x: Shape::default(), name: name_wire(KEYNAME_S), alg: alg_wire(&alg), time: op["now"].as_u64().unwrap(),
                                  fudge: op["fudge"].as_u64().unwrap() as u16, mac, oid: id,
                                  err: op["err"].as_u64().unwrap_or(0) as u16, other: bytes_of(&op["other"]) };
                let mut wire = pre.clone();
                wire.extend(rr.encode());
                let ar = get_ar(&wire);
                set_ar(&mut wire, ar + 1);
                self.net.push_back(Flight { pre_len: pre.len(), wire, rep: 1, signed: true, pre, movedup: false });
                json!({"res": "Ok"})
            }
            "rfc_unsigned" => {
                let b = op["b"].as_u64().unwrap();
                let w = msg_octets(self.req_id_verified, 0x80, op["rc"].as_u64().unwrap_or(0) as u8, b);
                self.net.push_back(Flight { pre_len: w.len(), pre: w.clone(), wire: w, rep: op["n"].as_u64().unwrap_or(1), signed: false, movedup: false });
                json!({"res": "Ok"})
            }
            "c_answer" => {
                let f = match self.net.pop_front() { Some(f) => f, None => return json!({"harness": "nothing in flight"}) };
                let now = t48(&op["now"]);
                let mut left = f.rep;
                let mut res = "Ok".to_string();
                let mut restored = false;
                while left > 0 {
                    left -= 1;
                    let mut msg = match Message::from_octets(f.wire.clone()) { Ok(m) => m, Err(_) => return json!({"res": "ShortMessage"}) };
                    let r = match &mut self.cli {
                        Cli::Txn(c) => c.answer(&mut msg, now),
                        Cli::Seq(c) => c.answer(&mut msg, now),
                        _ => return json!({"harness": "client has no transaction"}),
                    };
                    match r {
                        Ok(()) => {
                            let after = msg.as_slice();
                            restored = f.signed && after.len() >= f.pre.len() && after[..f.pre.len()] == f.pre[..];
                            if !f.signed && after != &f.wire[..] {
                                return json!({"res": "UnsignedMessageModified"});
                            }
                        }
                        Err(e) => { res = verr(&e).to_string(); restored = false; break; }
                    }
                }
                json!({"res": Self::allow(op, &res), "restored": restored, "left": left})
            }
            "c_done" => {
                match std::mem::replace(&mut self.cli, Cli::Gone) {
                    Cli::Seq(c) => match c.done() { Ok(()) => json!({"res": "Ok"}), Err(e) => json!({"res": verr(&e)}) },
                    _ => json!({"harness": "done without sequence"}),
                }
            }
            other => json!({"harness": format!("unknown op {}", other)}),
        }
    }
}

fn main() {
    run_cases(|input| {
        let cfg = &input["cfg"];
        let kc = &cfg["kc"];
        let alg = kc["alg"].as_str().unwrap_or("sha256");
        let u = |k: &str| kc[k].as_u64().unwrap_or(0) as usize;
        let mut terms = BTreeMap::new();
        let mut order = vec!["ideal".to_string()];
        if let Some(t) = input["terms"].as_object() {
            for (k, v) in t {
                terms.insert(k.clone(), Terms::new(v));
                if k != "ideal" {
                    order.push(k.clone());
                }
            }
        }
        let mut run = Run {
            cfg,
            terms,
            order,
            key_c: lib_key(KEYNAME_C, alg, SECRET, u("cm"), u("cs")),
            key_s: lib_key(KEYNAME_S, alg, SECRET, u("sm"), u("ss")),
            cli: Cli::None,
            srv: Srv::None,
            net: VecDeque::new(),
            req_wire: vec![],
            req_rr: None,
            req_id_verified: 0,
            s_res: String::new(),
            req_movedup: false,
            s_now: 0,
            last_full: vec![],
        };
        let mut obs = vec![];
        for op in input["ops"].as_array().cloned().unwrap_or_default() {
            let o = match catch_unwind(AssertUnwindSafe(|| run.step(&op))) {
                Ok(v) => v,
                Err(_) => json!({"res": "panic"}),
            };
            let stop = o.get("harness").is_some() || o.get("diverged").is_some() || o["res"] == "panic";
            obs.push(o);
            if stop {
                break;
            }
        }
        Value::Array(obs)
    });
}
