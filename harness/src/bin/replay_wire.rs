//! S->I executor for Wire.tla / MsgReader.tla cases (C01) and the
//! old-vs-new codec comparison (C19).
//!   replay_wire proj     cases {"in":{"m":[..],"starts":[..]},"exp":Projection,"dev":{..}}
//!   replay_wire orders   cases {"in":{"m":[..],"ops":[..]},"exp":[result per op]}
//!   replay_wire pair     cases {"in":{"a":[..],"b":[..]},"exp":PairProj,"dev":{..}}   (MsgPair.tla)
//!   replay_wire query    cases {"in":{"m":[..],"rt":47|50,"blocks":[..],"hargs":[..],"sargs":[..]},"exp":QueryProj}   (WireQuery.tla)
//!   replay_wire codec    cases {"in":{"m":[..],"starts":[..]},"exp":CodecView,"dev":{..}}
#[path = "../wire.rs"]
mod wire;
#[path = "../wire_new.rs"]
mod wire_new;
#[path = "../wire_cursor.rs"]
mod wire_cursor;
#[path = "../wire_pair.rs"]
mod wire_pair;
#[path = "../wire_query.rs"]
mod wire_query;

use serde_json::json;
use verif_harness::common::*;
use wire::*;

fn main() {
    let mode = std::env::args().nth(1).unwrap_or_default();
    match mode.as_str() {
        "proj" => {
            let mut wd = Watchdog::new(make_proj_case, 12);
            let t = run_component_cases(|input, dev| wd.call(input, dev));
            print_summary(&t, json!({"slice_hangs_observed": SLICE_HANGS.load(std::sync::atomic::Ordering::Relaxed),
                                     "slice_predicted_hangs_not_executed": SLICE_SKIPPED.load(std::sync::atomic::Ordering::Relaxed),
                                     "battery_hangs_observed": wd.hangs}));
            // abandoned workers spin forever
            std::process::exit(0);
        }
        "orders" => {
            fn mk() -> CaseFn {
                Box::new(|input, _dev| wire_cursor::run_ops(input))
            }
            let mut wd = Watchdog::new(mk, 12);
            let t = run_component_cases(|input, dev| wd.call(input, dev));
            print_summary(&t, json!({"battery_hangs_observed": wd.hangs}));
            std::process::exit(0);
        }
        "pair" => {
            fn mk() -> CaseFn {
                Box::new(|input, _dev| wire_pair::pair_projection_twice(&bytes_of(&input["a"]), &bytes_of(&input["b"])))
            }
            let mut wd = Watchdog::new(mk, 12);
            let t = run_component_cases(|input, dev| wd.call(input, dev));
            print_summary(&t, json!({"battery_hangs_observed": wd.hangs}));
            std::process::exit(0);
        }
        "query" => {
            fn mk() -> CaseFn {
                Box::new(|input, _dev| wire_query::query_projection_twice(input))
            }
            let mut wd = Watchdog::new(mk, 12);
            let t = run_component_cases(|input, dev| wd.call(input, dev));
            print_summary(&t, json!({"battery_hangs_observed": wd.hangs}));
            std::process::exit(0);
        }
        "codec" => {
            fn mk() -> CaseFn {
                Box::new(|input, _dev| {
                    let m = bytes_of(&input["m"]);
                    let starts = usizes_of(&input["starts"]);
                    let probes: Vec<(usize, usize)> = input["probes"]
                        .as_array()
                        .map(|a| a.iter().map(|p| (p[0].as_u64().unwrap_or(0) as usize, p[1].as_u64().unwrap_or(0) as usize)).collect())
                        .unwrap_or_default();
                    // where the referee leaves the RDATA open is part of the input
                    let mask = wire_new::Mask::of(&input["und"]);
                    wire_new::codec_view(&m, &starts, &probes, &mask)
                })
            }
            let mut wd = Watchdog::new(mk, 12);
            let t = run_component_cases(|input, dev| wd.call(input, dev));
            print_summary(&t, json!({"battery_hangs_observed": wd.hangs}));
            std::process::exit(0);
        }
        _ => {
            eprintln!("usage: replay_wire proj|orders|pair|query|codec");
            std::process::exit(2);
        }
    }
}
