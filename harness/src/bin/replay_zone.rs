//! S->I executor for spec/ZoneStore.tla behaviours (properties C08, C09).
//!
//! stdin: one behaviour per line, `{"steps":[{"op":{..}, "chk":[..], "walk":{..}}, ..]}`
//! as emitted by Gen_ZoneStore.tla.  Every action is performed on a real
//! `Zone` (single-threaded: readers are held `Box<dyn ReadableZone>` values,
//! the writer a held `WritableZone` or `ZoneUpdater`).  After every step the
//! observations the step asks for are made and classified one by one:
//!   observed in `exp` (admissible per ZoneAbstract)        -> pass
//!   observed = a `dev` answer whose `blame` is all open    -> KNOWN
//!   anything else                                          -> FAIL
//! `--prop C08|C09` selects which observations are judged: C08 = fresh
//! reader after Build / commit / drop, C09 = held readers (ReaderQuery,
//! ReaderWalk), fresh readers after an abandoned session, and fresh readers
//! right after a commit (against the published version as the model has it).
#[path = "../zone.rs"]
mod zone;

use serde_json::{json, Value};
use std::collections::BTreeMap;
use std::io::{BufRead, Write};
use std::panic::{catch_unwind, AssertUnwindSafe};
use verif_harness::common::*;
use zone::*;

fn norm(a: &Value) -> String {
    // answers from TLC carry unsorted arrays (sets); sort every array of records
    fn sort(v: &Value) -> Value {
        match v {
            Value::Object(m) => Value::Object(m.iter().map(|(k, x)| (k.clone(), sort(x))).collect()),
            Value::Array(a) => {
                let mut items: Vec<Value> = a.iter().map(sort).collect();
                if items.iter().all(|x| x.is_array() && x.as_array().map(|r| r.len() == 3 && r[1].is_string()).unwrap_or(false)) {
                    items.sort_by_key(|x| x.to_string());
                }
                Value::Array(items)
            }
            x => x.clone(),
        }
    }
    sort(a).to_string()
}

struct Tally {
    n_beh: u64,
    n_obs: u64,
    pass: u64,
    fail: u64,
    panics: u64,
    known: BTreeMap<String, u64>,
    samples: Vec<Value>,
    fail_lines: u64,
}

enum Class {
    Pass,
    Known(Vec<String>),
    Fail,
}

fn classify(obs: &Value, exp: &Value, dev: &Value, open: &[String]) -> Class {
    let o = norm(obs);
    if exp.as_array().map(|a| a.iter().any(|e| norm(e) == o)).unwrap_or(false) {
        return Class::Pass;
    }
    // dev = [{"ans": <answer of today's code>, "blame": [deviations that explain it]}, ..]
    if let Some(entries) = dev.as_array() {
        for e in entries {
            if norm(&e["ans"]) == o {
                let b: Vec<String> = e["blame"].as_array().map(|a| a.iter().filter_map(|x| x.as_str().map(String::from)).collect()).unwrap_or_default();
                if !b.is_empty() && b.iter().all(|d| open.contains(d)) {
                    return Class::Known(b);
                }
            }
        }
    }
    Class::Fail
}

fn main() {
    quiet_panics();
    let open = open_devs();
    let prop = arg_value("--prop").unwrap_or_else(|| "C08".to_string());
    let perturb = has_flag("--selftest-perturb");
    let stdin = std::io::stdin();
    let stdout = std::io::stdout();
    let mut out = stdout.lock();
    let mut t = Tally { n_beh: 0, n_obs: 0, pass: 0, fail: 0, panics: 0, known: BTreeMap::new(), samples: vec![], fail_lines: 0 };

    for line in stdin.lock().lines() {
        let line = match line {
            Ok(l) => l,
            Err(_) => break,
        };
        if line.trim().is_empty() {
            continue;
        }
        let beh: Value = match serde_json::from_str(&line) {
            Ok(v) => v,
            Err(e) => {
                let _ = writeln!(out, "BADCASE {}", e);
                continue;
            }
        };
        t.n_beh += 1;
        let steps = beh["steps"].as_array().cloned().unwrap_or_default();
        let mut h = ZoneHarness::new();
        let mut ops_so_far: Vec<Value> = vec![];
        let mut perturbed = false;
        let mut beh_failed = false;
        for (si, step) in steps.iter().enumerate() {
            let op = &step["op"];
            ops_so_far.push(op.clone());
            let a = op["a"].as_str().unwrap_or("").to_string();
            let res = catch_unwind(AssertUnwindSafe(|| h.apply(op)));
            let res = match res {
                Ok(v) => v,
                Err(e) => {
                    t.panics += 1;
                    json!({"panic": panic_msg(e)})
                }
            };
            if !res.is_null() {
                // a model action the real API refused or panicked on
                t.n_obs += 1;
                t.fail += 1;
                beh_failed = true;
                if t.fail_lines < 5 {
                    t.fail_lines += 1;
                    let _ = writeln!(out, "FAIL {}", json!({"what": "action failed", "step": si, "ops": ops_so_far, "obs": res}));
                }
                break;
            }
            // which property judges this step's observations
            let fresh = matches!(a.as_str(), "Build" | "CommitPushVersion" | "DropWriter");
            let judged = match prop.as_str() {
                "C08" => matches!(a.as_str(), "Build" | "CommitPushVersion"),
                _ => matches!(a.as_str(), "ReaderQuery" | "ReaderWalk" | "DropWriter" | "Build" | "CommitPushVersion"),
            };
            // C09 at a commit: the reference is the published version as the model has it
            let chk_field = if prop != "C08" && matches!(a.as_str(), "Build" | "CommitPushVersion") { "chk9" } else { "chk" };
            if !judged || h.zone.is_none() {
                continue;
            }
            let r = op["r"].as_str().unwrap_or("").to_string();
            let mut items: Vec<(Value, Value, Value, Value)> = vec![]; // (what, obs, exp, dev)
            if let Some(chks) = step[chk_field].as_array() {
                for c in chks {
                    // the query as the model put it: spelled name `sq`, query route `rt`
                    // (zone / tree), observation route `ob` (msg / get)
                    let obs = catch_unwind(AssertUnwindSafe(|| {
                        if fresh { h.fresh_query_as(c) } else { h.reader_query_as(&r, c) }
                    }))
                    .unwrap_or_else(|e| {
                        t.panics += 1;
                        json!({"panic": panic_msg(e)})
                    });
                    items.push((json!({"q": [c["qn"], c["qt"]], "v": c["v"], "reader": if fresh { "fresh" } else { r.as_str() },
                                       "as": [c["sq"], c["rt"], c["ob"]]}),
                                obs, c["exp"].clone(), c["dev"].clone()));
                }
            }
            if step["walk"]["on"] == true {
                let wk = &step["walk"];
                let obs = catch_unwind(AssertUnwindSafe(|| if fresh { h.fresh_walk() } else { h.reader_walk(&r) }))
                    .unwrap_or_else(|e| {
                        t.panics += 1;
                        json!({"panic": panic_msg(e)})
                    });
                // the walk expectation is ONE set of records
                items.push((json!({"walk": true, "v": wk["v"], "reader": if fresh { "fresh" } else { r.as_str() }}),
                            obs, json!([wk["exp"]]), wk["dev"].clone()));
            }
            for (what, obs, mut exp, dev) in items {
                t.n_obs += 1;
                if perturb && !perturbed {
                    perturbed = true;
                    exp = json!([{"perturbed": true}]);
                }
                match classify(&obs, &exp, if perturb { &Value::Null } else { &dev }, &open) {
                    Class::Pass => {
                        t.pass += 1;
                        if t.samples.len() < 3 && si > 4 {
                            t.samples.push(json!({"after": op, "obs_of": what, "obs": obs}));
                        }
                    }
                    Class::Known(b) => {
                        for d in b {
                            let c = t.known.entry(d.clone()).or_insert(0);
                            *c += 1;
                            if *c <= 1 {
                                let _ = writeln!(out, "KNOWN {}", json!({"dev": d, "case": {"ops": ops_so_far, "obs_of": what, "exp": exp, "obs": obs}}));
                            }
                        }
                    }
                    Class::Fail => {
                        t.fail += 1;
                        beh_failed = true;
                        if t.fail_lines < 5 {
                            t.fail_lines += 1;
                            let _ = writeln!(out, "FAIL {}", json!({"ops": ops_so_far, "obs_of": what, "exp": exp, "dev": dev, "obs": obs}));
                        }
                    }
                }
            }
            if beh_failed {
                break;
            }
        }
    }
    let known: serde_json::Map<String, Value> = t.known.iter().map(|(k, v)| (k.clone(), json!(*v))).collect();
    let _ = writeln!(out, "SUMMARY {}", json!({"n": t.n_beh, "observations": t.n_obs, "pass": t.pass, "fail": t.fail,
        "panics": t.panics, "known": known, "samples": t.samples}));
}
