//! I->S recorder for Wire.tla (C01): builds valid messages with the library,
//! mutates them (header counts, pointer targets forward / self / chained /
//! into RDATA, label types, RDLENGTH +-1, truncation at every offset), adds
//! random octet strings, performs the read battery on each (twice) and logs
//! one `read` event per message with the observed projection.  Messages
//! larger than the cap only get a `total` event (no panic, repeatable).
//! After the batteries, PAIRS of messages (MsgPair.tla): a message from the
//! run and a partner derived from it (cut off at any offset, one header
//! field or body octet changed, the reply the library starts for it, whole
//! or cut off, an error reply without question, octets appended) or another message of the run; one `pair`
//! event per pair with the observed pair projection.
//!   record_wire <trace.ndjson> <seed> <n_messages> [cap]
#[path = "../wire.rs"]
mod wire;
#[path = "../wire_pair.rs"]
mod wire_pair;

use domain::base::iana::{Class, Rtype};
use domain::base::message_builder::{MessageBuilder, TreeCompressor};
use domain::base::name::Name;
use domain::base::{Question, Record, Ttl};
use domain::rdata::{Cname, Mx, Ns, Soa, Txt, A};
use serde_json::json;
use std::str::FromStr;
use verif_harness::common::*;
use wire::*;

fn name(s: &str) -> Name<Vec<u8>> {
    Name::from_str(s).unwrap()
}

/// a valid message with compressed names
fn build_valid(rng: &mut Rng) -> Vec<u8> {
    let names = ["a.", "b.a.", "www.example.com.", "example.com.", "A.", "mail.example.com.", "."];
    let pick = |rng: &mut Rng| name(names[rng.below(names.len() as u64) as usize]);
    let mb = MessageBuilder::from_target(TreeCompressor::new(Vec::new())).unwrap();
    let mut qb = mb.question();
    qb.header_mut().set_qr(rng.chance(3, 4));
    qb.header_mut().set_id(rng.next() as u16);
    let qname = pick(rng);
    let qt = *rng.pick(&[Rtype::A, Rtype::AXFR, Rtype::MX, Rtype::IXFR]);
    qb.push(Question::new(qname.clone(), qt, Class::IN)).unwrap();
    let mut ab = qb.answer();
    let mut owner = qname;
    let ttl = Ttl::from_secs(rng.below(100000) as u32 * 7919);
    // records of other classes next to IN: what limit_to_in passes over
    let class = |rng: &mut Rng| *rng.pick(&[Class::IN, Class::IN, Class::IN, Class::CH, Class::HS, Class::NONE, Class::ANY]);
    for _ in 0..rng.below(5) {
        match rng.below(6) {
            0 => {
                let t = pick(rng);
                ab.push(Record::new(owner.clone(), class(rng), ttl, Cname::new(t.clone()))).unwrap();
                owner = t;
            }
            1 => ab.push(Record::new(owner.clone(), class(rng), ttl, A::from_octets(1, 2, 3, rng.below(250) as u8))).unwrap(),
            2 => ab.push(Record::new(owner.clone(), class(rng), ttl, Mx::new(10, pick(rng)))).unwrap(),
            3 => ab
                .push(Record::new(
                    owner.clone(),
                    Class::IN,
                    ttl,
                    Soa::new(pick(rng), pick(rng), 7.into(), ttl, ttl, ttl, ttl),
                ))
                .unwrap(),
            4 => ab
                .push(Record::new(owner.clone(), Class::IN, ttl, Txt::<Vec<u8>>::build_from_slice(b"hello").unwrap()))
                .unwrap(),
            _ => ab.push(Record::new(pick(rng), Class::CH, ttl, Ns::new(pick(rng)))).unwrap(),
        }
    }
    let mut nb = ab.authority();
    if rng.chance(1, 2) {
        nb.push(Record::new(pick(rng), Class::IN, ttl, Ns::new(pick(rng)))).unwrap();
    }
    let mut xb = nb.additional();
    if rng.chance(1, 2) {
        xb.push(Record::new(pick(rng), class(rng), ttl, A::from_octets(9, 9, 9, 9))).unwrap();
    }
    if rng.chance(2, 3) {
        xb.opt(|o| {
            o.set_udp_payload_size(1232);
            o.set_dnssec_ok(true);
            Ok(())
        })
        .unwrap();
    }
    xb.finish().into_target()
}

fn mutate(rng: &mut Rng, m: &mut Vec<u8>) {
    let n = m.len();
    if n < 16 {
        return; // already cut down to (less than) a header
    }
    match rng.below(9) {
        0 => {
            // header counts
            let i = 4 + 2 * rng.below(4) as usize;
            let v: u16 = *rng.pick(&[0, 1, 2, 3, 0xFFFF]);
            m[i] = (v >> 8) as u8;
            m[i + 1] = v as u8;
        }
        1 | 2 => {
            // retarget a pointer: forward, self, chained, into rdata
            let ptrs: Vec<usize> = (12..n.saturating_sub(1)).filter(|i| m[*i] >= 0xC0).collect();
            if let Some(&p) = ptrs.get(rng.below(ptrs.len().max(1) as u64) as usize) {
                let other = ptrs[rng.below(ptrs.len() as u64) as usize];
                let t = match rng.below(5) {
                    0 => p,
                    1 => p + 2,
                    2 => other,
                    3 => p.saturating_sub(1),
                    _ => 12 + rng.below((n - 12) as u64) as usize,
                };
                m[p] = 0xC0 | ((t >> 8) as u8 & 0x3F);
                m[p + 1] = t as u8;
            }
        }
        3 => {
            // label type
            if n > 13 {
                let i = 12 + rng.below((n - 12) as u64) as usize;
                m[i] = *rng.pick(&[0x40, 0x80, 0xC0, 0x3F, 0xFF]);
            }
        }
        4 => {
            // some octet +-1 (rdlength, label length, counts)
            if n > 13 {
                let i = 12 + rng.below((n - 12) as u64) as usize;
                m[i] = if rng.chance(1, 2) { m[i].wrapping_add(1) } else { m[i].wrapping_sub(1) };
            }
        }
        5 => {
            let k = rng.below(n as u64 + 1) as usize;
            m.truncate(k);
        }
        6 => {
            // splice a pointer somewhere
            if n > 14 {
                let i = 12 + rng.below((n - 13) as u64) as usize;
                let t = 12 + rng.below((n - 12) as u64) as usize;
                m[i] = 0xC0;
                m[i + 1] = t as u8;
            }
        }
        7 => {
            let k = rng.below(6) as usize;
            let extra = rng.bytes(k);
            m.extend_from_slice(&extra);
        }
        _ => {}
    }
}

fn labs(lens: &[usize], c: u8) -> Vec<u8> {
    let mut v = vec![];
    for &l in lens {
        v.push(l as u8);
        v.extend(std::iter::repeat(c).take(l));
    }
    v
}

/// names at the 253..257-octet boundary (uncompressed and completed by a
/// pointer into the question name) as question name and as owner in one of
/// the three record sections, every section holding a record
fn limit_shape(rng: &mut Rng) -> Vec<u8> {
    let last = 58 + rng.below(6) as usize; // 58..63 -> 252..257 octets
    let ones = 125 + rng.below(4) as usize;
    let q: Vec<usize> = match rng.below(3) {
        0 => vec![63, 63, 63, last],
        1 => vec![1; ones],
        _ => vec![63, 63, 63, 61],
    };
    let owner: Vec<u8> = match rng.below(5) {
        0 => {
            let mut v = labs(&[63, 63, 63, 58 + rng.below(6) as usize], b'b');
            v.push(0);
            v
        }
        1 => {
            let mut v = labs(&vec![1; 125 + rng.below(4) as usize], b'b');
            v.push(0);
            v
        }
        2 => {
            let mut v = labs(&[60 + rng.below(4) as usize], b'b');
            v.extend([0xC0, 76]);
            v
        }
        3 => {
            let mut v = labs(&[1, 59 + rng.below(5) as usize], b'b');
            v.extend([0xC0, 76]);
            v
        }
        _ => {
            let mut v = labs(&[63, 60 + rng.below(4) as usize], b'b');
            v.extend([0xC0, 140]);
            v
        }
    };
    let sec = 1 + rng.below(3);
    let mut m = vec![0x12, 0x34, 0x80, 0, 0, 1, 0, 1, 0, 1, 0, 1];
    m.extend(labs(&q, b'a'));
    m.extend([0, 0, 1, 0, 1]);
    for s in 1..=3 {
        if s == sec {
            m.extend(&owner);
        } else {
            m.push(0);
        }
        m.extend([0, 1, 0, 1, 0, 0, 0, 60, 0, 4, 1, 2, 3, 4]);
    }
    m
}

/// a filler record pushes a name and the targets of the pointers into it to
/// offset `t` (255/256/257, 511/512, 1000, 16383): pointers that need the
/// high six bits
fn far_pointer(t: usize, d: usize) -> Vec<u8> {
    let ptr = |x: usize| [0xC0 | (x >> 8) as u8, x as u8];
    let mut m = vec![0x12, 0x34, 0x80, 0, 0, 1, 0, 3, 0, 0, 0, 0, 1, b'a', 0, 0, 1, 0, 1];
    m.extend([0, 0xFF, 0, 0, 1, 0, 0, 0, 60]);
    m.extend(((t - 30) as u16).to_be_bytes());
    m.extend(std::iter::repeat(7u8).take(t - 30));
    assert_eq!(m.len(), t);
    m.extend(b"\x04mail\x07example\x03com\x00");
    m.extend([0, 1, 0, 1, 0, 0, 0, 60, 0, 4, 1, 2, 3, 4]);
    m.extend(b"\x03ftp");
    m.extend(ptr(t + d));
    m.extend([0, 5, 0, 1, 0, 0, 0, 60, 0, 4, 1, b'x']);
    m.extend(ptr(t + 5));
    m
}

/// two or three records in every section, to be cut at every length
fn full_sections() -> Vec<u8> {
    let mut m = vec![0x12, 0x34, 0x80, 0, 0, 1, 0, 2, 0, 2, 0, 3, 1, b'a', 0, 0, 1, 0, 1];
    for b in 1..=6u8 {
        m.extend([0, 0, 1, 0, 1, 0, 0, 0, 60, 0, 4, b, b, b, b]);
    }
    m.extend([0, 0, 41, 4, 208, 0, 0, 0, 0, 0, 0]);
    m
}

/// a library-built message plus one record of a type with internal framing
/// whose RDATA is a valid template hit by structural mutations (length
/// octets, empty bitmap windows, truncation, garbage)
fn typed_record(rng: &mut Rng) -> Vec<u8> {
    let mut m = build_valid(rng);
    let templates: &[(u16, &[u8])] = &[
        (47, &[0, 0, 1, 0x40, 1, 2, 0, 1]),                       // NSEC . A + window 1
        (47, &[1, b'b', 0, 0, 6, 0x40, 0, 0, 0, 0, 3]),            // NSEC b. A RRSIG NSEC
        (50, &[1, 0, 0, 5, 2, 0xab, 0xcd, 4, 1, 2, 3, 4, 0, 1, 0x40]), // NSEC3
        (51, &[1, 0, 0, 5, 2, 0xab, 0xcd]),
        (16, &[1, b'a', 3, b'x', b'y', b'z']),
        (13, &[1, b'a', 2, b'o', b's']),
        (64, &[0, 1, 0, 0, 1, 0, 3, 2, b'h', b'2', 0, 3, 0, 2, 1, 187, 0, 4, 0, 4, 1, 2, 3, 4]),
        (65, &[0, 1, 1, b'b', 0, 0, 0, 0, 2, 0, 1, 0, 1, 0, 3, 2, b'h', b'3']),
        (45, &[10, 1, 2, 1, 2, 3, 4, 9, 9]),
        (45, &[10, 3, 2, 1, b'g', 0, 9, 9]),
        (250, &[0, 0, 0, 0, 0, 0, 1, 1, 44, 0, 2, 7, 7, 0, 0, 0, 0, 0, 0]),
        (46, &[0, 1, 8, 1, 0, 0, 0, 60, 0, 0, 0, 2, 0, 0, 0, 1, 0, 7, 1, b's', 0, 5, 5]),
        (35, &[0, 1, 0, 1, 1, b'U', 3, b's', b'i', b'p', 0, 0]),
        (257, &[0, 5, b'i', b's', b's', b'u', b'e', b'a']),
        (33, &[0, 1, 0, 1, 0, 80, 1, b't', 0]),
        (63, &[0, 0, 0, 1, 1, 1, 9, 9, 9, 9, 9, 9, 9, 9, 9, 9, 9, 9]),
    ];
    let (mut t, tpl) = templates[rng.below(templates.len() as u64) as usize];
    let mut rd = tpl.to_vec();
    let lens = [0usize, 1, 2, 3, 4, 5, 7, 8, 9, 12, 15, 16, 17, 20, 31, 32, 33, 40, 41];
    match rng.below(4) {
        0 => {
            // SVCB / HTTPS with one parameter: every known key, boundary lengths
            t = if rng.chance(1, 2) { 64 } else { 65 };
            let key = rng.below(11) as u16;
            let l = lens[rng.below(lens.len() as u64) as usize];
            rd = vec![0, 1, 0];
            rd.extend(key.to_be_bytes());
            rd.extend((l as u16).to_be_bytes());
            rd.extend(rng.bytes(l));
        }
        1 => {
            // OPT with one option: every option type, boundary lengths; the
            // client-subnet grid family x prefixes x address octets
            t = 41;
            let code = *rng.pick(&[3u16, 5, 6, 7, 8, 8, 8, 9, 10, 11, 12, 13, 14, 15, 65001]);
            let data: Vec<u8> = if code == 8 {
                let fam = rng.below(4) as u16;
                let src = *rng.pick(&[0u8, 1, 24, 32, 33, 64, 128, 129, 255]);
                let scope = *rng.pick(&[0u8, 24, 33, 200]);
                let need = (src as usize + 7) / 8;
                let n = (need + rng.below(3) as usize).saturating_sub(1);
                let mut d = fam.to_be_bytes().to_vec();
                d.push(src);
                d.push(scope);
                d.extend(rng.bytes(n));
                d
            } else {
                let l = lens[rng.below(lens.len() as u64) as usize];
                rng.bytes(l)
            };
            rd = code.to_be_bytes().to_vec();
            rd.extend((data.len() as u16).to_be_bytes());
            rd.extend(data);
        }
        2 => {
            // boundary values of accessor computations: DNSKEY / CDNSKEY by
            // algorithm and key length, DS / CDS by digest type and length
            if rng.chance(1, 2) {
                t = if rng.chance(1, 2) { 48 } else { 60 };
                let alg = *rng.pick(&[0u8, 1, 1, 1, 5, 8, 13, 15, 253]);
                let n = *rng.pick(&[0usize, 1, 2, 3, 4, 5, 64, 260]);
                rd = vec![*rng.pick(&[0u8, 1]), *rng.pick(&[0u8, 1, 128]), 3, alg];
                rd.extend(rng.bytes(n));
            } else {
                t = if rng.chance(1, 2) { 43 } else { 59 };
                let n = *rng.pick(&[0usize, 1, 19, 20, 21, 32, 48]);
                rd = vec![0xff, 0xff, 8, *rng.pick(&[0u8, 1, 2, 4])];
                rd.extend(rng.bytes(n));
            }
        }
        _ => {}
    }
    for _ in 0..rng.below(3) {
        let n = rd.len();
        match rng.below(6) {
            0 if n > 0 => {
                let i = rng.below(n as u64) as usize;
                rd[i] = *rng.pick(&[0, 1, 2, 31, 32, 33, 34, 63, 64, 255]);
            }
            1 => {
                // an empty bitmap window / zero-length field somewhere
                let i = rng.below(n as u64 + 1) as usize;
                rd.splice(i..i, [*rng.pick(&[0u8, 1, 255]), 0]);
            }
            2 if n > 0 => {
                let k = rng.below(n as u64) as usize;
                rd.truncate(k);
            }
            3 => rd.push(rng.next() as u8),
            4 if n > 1 => {
                let i = rng.below(n as u64 - 1) as usize;
                rd.swap(i, i + 1);
            }
            _ => {}
        }
    }
    // appended behind everything else: one more additional record
    m.extend([0xC0, 12]);
    m.extend(t.to_be_bytes());
    m.extend([0, 1, 0, 0, 0, 60]);
    m.extend((rd.len() as u16).to_be_bytes());
    m.extend(&rd);
    let ar = u16::from_be_bytes([m[10], m[11]]) + 1;
    m[10] = (ar >> 8) as u8;
    m[11] = ar as u8;
    m
}

/// Does the label walk from `start` run into a pointer to itself?  Only used
/// to budget the watchdog (which offsets to probe, how long to wait); the
/// recorded value is always what the library did.
fn reaches_selfptr(m: &[u8], mut start: usize) -> bool {
    for _ in 0..(m.len() + 2) {
        if start >= m.len() {
            return false;
        }
        let b = m[start] as usize;
        if b == 0 {
            return false;
        } else if b <= 63 {
            if start + 1 + b > m.len() {
                return false;
            }
            start += 1 + b;
        } else if b >= 0xC0 {
            if start + 1 >= m.len() {
                return false;
            }
            let t = ((b & 0x3F) << 8) | m[start + 1] as usize;
            if t > start {
                return false;
            }
            if t == start {
                return true;
            }
            start = t;
        } else {
            return false;
        }
    }
    false
}

fn make_pair_case() -> CaseFn {
    Box::new(|input, _dev| wire_pair::pair_projection_twice(&bytes_of(&input["a"]), &bytes_of(&input["b"])))
}

/// a partner for `a`: related to it in one of the ways two messages of an
/// exchange are related, or damaged on the way
fn partner(rng: &mut Rng, a: &[u8], pool: &[Vec<u8>], cap: usize) -> Vec<u8> {
    use domain::base::iana::Rcode;
    use domain::base::Message;
    let cut = |rng: &mut Rng, m: &[u8]| -> Vec<u8> {
        // mostly inside or right behind the question section
        let hi = if rng.chance(2, 3) { m.len().min(12 + 24) } else { m.len() };
        let k = if hi <= 12 { rng.below(hi as u64 + 1) as usize } else { 12 + rng.below((hi - 12) as u64 + 1) as usize };
        m[..k.min(m.len())].to_vec()
    };
    let mut b = a.to_vec();
    match rng.below(12) {
        0 | 1 | 2 => b = cut(rng, a),
        3 if b.len() >= 12 => match rng.below(6) {
            0 => b[2] ^= 0x80,
            1 => b[1] = b[1].wrapping_add(1),
            2 => b[5] = b[5].wrapping_add(*rng.pick(&[1u8, 255])),
            3 => b[3] ^= *rng.pick(&[1u8, 2, 3]),
            4 => b[2] ^= 0x08,
            _ => b[7] = b[7].wrapping_add(1),
        },
        4 if b.len() > 13 => {
            // letter case / one octet of the question region
            let i = 12 + rng.below((b.len() - 12).min(24) as u64) as usize;
            b[i] = if b[i].is_ascii_alphabetic() { b[i] ^ 0x20 } else { b[i].wrapping_add(1) };
        }
        5 | 6 if b.len() >= 12 => {
            // the reply the library itself starts for a, with QR as the
            // library sets it, whole or cut off
            if let Ok(src) = Message::from_octets(a) {
                let r = domain::base::MessageBuilder::new_vec().start_error(&src, Rcode::NOERROR).finish();
                b = if rng.chance(1, 2) { r } else { cut(rng, &r) };
            }
        }
        7 => b = pool[rng.below(pool.len() as u64) as usize].clone(),
        8 => {
            let n = 1 + rng.below(6) as usize;
            b.extend(rng.bytes(n));
        }
        9 | 10 if b.len() >= 12 => {
            // an error reply without question: header only, or announcing
            // a record in one section (then it is not "header only")
            b.truncate(12);
            b[2] |= 0x80;
            b[3] = (b[3] & 0xF0) | (1 + rng.below(5) as u8);
            for i in 4..12 {
                b[i] = 0;
            }
            match rng.below(5) {
                0 => b[7] = 1,
                1 => b[9] = 1,
                2 => b[11] = 1,
                3 => b[3] &= 0xF0,
                _ => {}
            }
        }
        _ => {}
    }
    b.truncate(cap);
    b
}

fn main() {
    quiet_panics();
    let args: Vec<String> = std::env::args().collect();
    let path = &args[1];
    let seed: u64 = args.get(2).and_then(|s| s.parse().ok()).unwrap_or_else(seed);
    let n: usize = args.get(3).and_then(|s| s.parse().ok()).unwrap_or(200);
    let cap: usize = args.get(4).and_then(|s| s.parse().ok()).unwrap_or(160);
    let mut rng = Rng::new(seed);
    let mut tw = TraceWriter::create(path);
    let mut msgs: Vec<Vec<u8>> = vec![];
    // messages that get the full projection whatever their size
    let mut forced: Vec<Vec<u8>> = vec![];
    for _ in 0..(n / 25).max(6) {
        forced.push(limit_shape(&mut rng));
    }
    for t in [255usize, 256, 257, 511, 512] {
        forced.push(far_pointer(t, *rng.pick(&[0usize, 5, 13])));
    }
    // pointer chains in the middle of a name (2 and 3 hops through bare pointers)
    for (pt, pt2) in [(12u8, 19u8), (19, 35), (19, 39), (12, 39)] {
        let mut m = vec![0x12, 0x34, 0x80, 0, 0, 1, 0, 2, 0, 0, 0, 0, 1, b'a', 0, 0, 1, 0, 1];
        m.extend([0xC0, 12, 0, 1, 0, 1, 0, 0, 0, 60, 0, 4, 1, 2, 3, 4]);
        m.extend([3, b'w', b'w', b'w', 0xC0, pt, 0, 5, 0, 1, 0, 0, 0, 60, 0, 8]);
        m.extend([3, b'f', b't', b'p', 1, b'x', 0xC0, pt2]);
        forced.push(m);
    }
    let full = full_sections();
    for k in 12..=full.len() {
        forced.push(full[..k].to_vec());
    }
    // truncation of one valid message at every offset
    let base = build_valid(&mut rng);
    for k in 0..=base.len().min(cap) {
        msgs.push(base[..k].to_vec());
    }
    msgs.push(far_pointer(1000, 0));
    msgs.push(far_pointer(16383, 5));
    msgs.push(far_pointer(16383, 0));
    while msgs.len() < n {
        let m = match rng.below(12) {
            10 | 11 => typed_record(&mut rng),
            0 => {
                // random octets behind a plausible header
                let mut m = vec![0x12, 0x34, 0x80, 0, 0, rng.below(3) as u8, 0, rng.below(3) as u8, 0, rng.below(2) as u8, 0, rng.below(2) as u8];
                let len = rng.below(40) as usize;
                m.extend(rng.bytes(len));
                m
            }
            1 => {
                let len = rng.below(60) as usize;
                rng.bytes(len)
            }
            2 => {
                // large: totality only
                let mut m = build_valid(&mut rng);
                let len = 1000 + rng.below(64000) as usize;
                m.extend(rng.bytes(len));
                for _ in 0..3 {
                    mutate(&mut rng, &mut m);
                }
                m.truncate(65535);
                m
            }
            _ => {
                let mut m = build_valid(&mut rng);
                for _ in 0..rng.below(4) {
                    mutate(&mut rng, &mut m);
                }
                m
            }
        };
        msgs.push(m);
    }
    let nforced = forced.len();
    forced.extend(msgs);
    // every battery runs on a worker thread with a deadline: a call that
    // never returns is recorded as {"hang": true}
    let mut wd = Watchdog::new(make_proj_case, 12);
    let mut probe_hangs = 0u64;
    let mut pool: Vec<Vec<u8>> = vec![];
    for (idx, m) in forced.into_iter().enumerate() {
        if m.len() <= cap && (m.len() >= 12 || idx % 7 == 0) {
            pool.push(m.clone());
        }
        if m.len() > cap && idx >= nforced {
            let input = json!({"m": json_bytes(&m), "starts": []});
            let a = wd.call(&input, &json!({}));
            let hung = a.get("hang").is_some() || a.get("not_executed_after_hangs").is_some();
            let bad = a.get("panic").is_some()
                || a.get("nonidempotent").is_some()
                || a.get("tot_panic").is_some()
                || a.as_object().map(|o| o.iter().any(|(k, v)| v.get("panic").is_some() && k != "cname")).unwrap_or(true);
            tw.event(json!({"ev": "total", "len": m.len(), "ok": !bad && !hung,
                            "cname_panic": a.get("cname").and_then(|c| c.get("k")).and_then(|k| k.as_str()) == Some("panic"),
                            "xfr_panic": a.get("xfr").and_then(|c| c.as_str()) == Some("panic")}));
            continue;
        }
        // slice-iterator probes: up to 6 offsets; walks that end in a pointer
        // to itself only while the watchdog budget lasts
        let mut starts: Vec<usize> = vec![];
        let mut flags: Vec<i64> = vec![];
        if m.len() > 12 {
            for _ in 0..6 {
                let s = 12 + rng.below((m.len() - 12) as u64) as usize;
                let selfptr = reaches_selfptr(&m, s);
                if selfptr && probe_hangs >= 2 {
                    continue;
                }
                starts.push(s);
                flags.push(if selfptr { SL_HANG } else { 0 });
            }
        }
        let input = json!({"m": json_bytes(&m), "starts": starts});
        let proj = wd.call(&input, &json!({"D_slice_iter": {"sl": flags}}));
        probe_hangs = SLICE_HANGS.load(std::sync::atomic::Ordering::Relaxed);
        tw.event(json!({"ev": "read", "m": json_bytes(&m), "starts": starts, "proj": proj}));
    }
    // pairs
    let mut wdp = Watchdog::new(make_pair_case, 12);
    let npairs = if pool.is_empty() { 0 } else { (n * 3 / 5).max(60) };
    for i in 0..npairs {
        let a = pool[rng.below(pool.len() as u64) as usize].clone();
        let b = partner(&mut rng, &a, &pool, cap);
        // the derived message is the response as often as the request
        let (a, b) = if i % 2 == 0 { (a, b) } else { (b, a) };
        let obs = wire_pair::lift_anomalies(wdp.call(&json!({"a": json_bytes(&a), "b": json_bytes(&b)}), &json!({})));
        tw.event(json!({"ev": "pair", "a": json_bytes(&a), "b": json_bytes(&b), "proj": obs}));
    }
    let slw_hangs = probe_hangs;
    let n = tw.finish();
    println!("RECORDED {} hangs {} battery_hangs {} pairs {}", n, slw_hangs, wd.hangs + wdp.hangs, npairs);
    std::process::exit(0);
}
