//! scratch (C16 builder): does the accept loop resume when a slot frees up
//! with accept_connections_at_max = false?
#[path = "../server.rs"]
mod server;
use std::sync::Arc;
use std::time::Duration;
use domain::net::server::buf::VecBufSource;
use domain::net::server::stream::{self, StreamServer};
use server::*;

fn main() {
    let rt = tokio::runtime::Builder::new_current_thread().enable_time().start_paused(true).build().unwrap();
    rt.block_on(async {
        let listener = MockListener::default();
        let mut cfg = stream::Config::new();
        cfg.set_max_concurrent_connections(1);
        cfg.set_accept_connections_at_max(false);
        let srv = Arc::new(StreamServer::with_config(listener.clone(), VecBufSource,
            Arc::new(stack(ScriptSvc::<Vec<u8>>::echo())), cfg.clone()));
        let s = srv.clone();
        let run = tokio::spawn(async move { s.run().await });
        settle().await;
        let (io1, h1) = mock_io(None);
        listener.connect(io1, "192.0.2.1:1".parse().unwrap());
        settle().await;
        h1.push(&frame(&mk_query(1, 17, None, false)));
        settle().await;
        println!("conn1 answered: {}", deframe(&h1.written()).0.len());
        let (io2, h2) = mock_io(None);
        listener.connect(io2, "192.0.2.2:1".parse().unwrap());
        settle().await;
        h2.push(&frame(&mk_query(2, 17, None, false)));
        settle().await;
        println!("conn2 while conn1 open: answered {} closed {}", deframe(&h2.written()).0.len(), h2.is_closed());
        h1.abort();
        settle().await;
        println!("conn1 closed: {}", h1.is_closed());
        settle().await;
        println!("conn2 after conn1 left: answered {} closed {}", deframe(&h2.written()).0.len(), h2.is_closed());
        tokio::time::advance(Duration::from_secs(100)).await;
        settle().await;
        println!("conn2 100 s later: answered {} closed {}", deframe(&h2.written()).0.len(), h2.is_closed());
        // a third client arrives: does that wake the loop?
        let (io3, h3) = mock_io(None);
        listener.connect(io3, "192.0.2.3:1".parse().unwrap());
        settle().await;
        println!("after conn3 arrives: conn2 answered {} closed {}", deframe(&h2.written()).0.len(), h2.is_closed());
        h3.push(&frame(&mk_query(3, 17, None, false)));
        settle().await;
        tokio::time::advance(Duration::from_secs(1000)).await;
        settle().await;
        println!("conn3 1000 s later (no connection open at all): answered {} closed {}", deframe(&h3.written()).0.len(), h3.is_closed());
        let _ = srv.reconfigure(cfg);
        settle().await;
        println!("conn3 after a reconfigure command: answered {} closed {}", deframe(&h3.written()).0.len(), h3.is_closed());
        settle().await;
        println!("after a reconfigure command: conn2 answered {} closed {}; conn3 closed {}", deframe(&h2.written()).0.len(), h2.is_closed(), h3.is_closed());
        println!("server running: {}", !run.is_finished());
    });
}
