//! I->S recorder for the zone-file reader (C07).
//!
//! usage: record_zonefile <trace.ndjson> <seed> <n_total> <n_meta> [zonefile-dir]
//!
//! (a) totality: `n_total` inputs (random octets over several alphabets,
//!     token soup over the reader's vocabulary, mutations of the zone files
//!     in test-data) are read to exhaustion.  Short inputs are logged with
//!     their outcome (`ev: read`) for validation against ZoneFile.tla; for
//!     long ones only a panic or a hang is logged (with the full input, so
//!     that TLC can attribute it to a known deviation or reject it).
//! (b) metamorphic: `n_meta` random logical files (records of the types the
//!     specification models) are rendered twice with independent random
//!     layouts; both outcomes are logged (`ev: meta`).
#[path = "../zf.rs"]
mod zf;
#[path = "../zfr.rs"]
mod zfr;
use serde_json::{json, Value};
use verif_harness::common::*;

const ORIGIN: &[u8] = b"\x01o\x00";

fn outcome(data: &[u8], origin: Option<&[u8]>, class: Option<u16>) -> Value {
    observe(|| zf::read_all(data, &zf::ReadOpts { origin, default_class: class, allow_invalid: false }))
}

/// The same through a construction route, with or without class checking;
/// `offs`: Zonefile::current_offset() before the first and after every call.
fn outcome_via(route: &str, data: &[u8], origin: Option<&[u8]>, class: Option<u16>, allow_invalid: bool, offs: &mut Vec<u64>) -> Value {
    let mut o = vec![];
    let r = observe(|| zfr::read_all_route(route, data, &zf::ReadOpts { origin, default_class: class, allow_invalid }, &mut o));
    *offs = o;
    r
}

// ------------------------------------------------------------- (a) inputs
const SPECIALS: &[u8] = b" \t\r\n();\"\\.@$#0159azAZ";
const WORDS: &[&str] = &[
    "a", "b.", "@", "x\\ y", "\"q r\"", "\"\"", "IN", "in", "CH", "CLASS1", "3600", "0", "+5", "4294967296",
    "TXT", "txt", "NS", "MX", "HINFO", "CNAME", "A", "TYPE16", "TYPE65280", "\\#", "0161", "2", "10",
    "$ORIGIN", "$TTL", "$INCLUDE", "$ttl", "a..b", "a\x7f", "\\a\x7f", "SVCB", "port=1", "\"alpn=h2\"", "alpn=\"h3\"", "a.b", ".", "\\065", "\\.", "(", ")", ";c", "\n", "\n",
    "\n ", "\r\n", "\t", " ", "  ", "\"", "\\", "65535", "65536", "x\"y\"", "\\@", "\\$TTL",
    // the symbol converters, the string scanner, tokens ended by a delimiter without a blank
    "DNSKEY", "DS", "OPENPGPKEY", "TLSA", "NSEC3PARAM", "NSEC3", "NSEC", "SOA", "256", "3", "8", "AwEA", "QQ==", "QUI=", "=", "A",
    "0f", "0F1", "-", "VV", "\u{80}", "\u{e9}", "\u{800}", "\u{10000}", "A\u{80}A", "@(", "(@)", "@;", "@\"", "\"@\"(", "\"$INCLUDE\"",
    "\"f\\ g\"", "\"\\f\"", "\"$T\\TL\"", "\\#(", "(\\#)",
];

fn random_octets(rng: &mut Rng, n: usize) -> Vec<u8> {
    match rng.below(3) {
        0 => rng.bytes(n),
        1 => (0..n).map(|_| *rng.pick(SPECIALS)).collect(),
        _ => (0..n).map(|_| if rng.chance(1, 4) { rng.next() as u8 } else { *rng.pick(SPECIALS) }).collect(),
    }
}

fn token_soup(rng: &mut Rng, n: usize) -> Vec<u8> {
    let mut v = vec![];
    for _ in 0..n {
        v.extend_from_slice(rng.pick(WORDS).as_bytes());
        if rng.chance(3, 4) {
            v.push(b' ');
        }
    }
    if rng.chance(3, 4) {
        v.push(b'\n');
    }
    v
}

/// zone-file texts embedded in /repo/test-data/zonefiles/*.yaml (the block
/// under `zonefile: |`)
fn corpus(dir: &str) -> Vec<Vec<u8>> {
    let mut out = vec![];
    let mut names: Vec<_> = match std::fs::read_dir(dir) {
        Ok(d) => d.filter_map(|e| e.ok()).map(|e| e.path()).collect(),
        Err(_) => return out,
    };
    names.sort();
    for p in names {
        let s = match std::fs::read_to_string(&p) {
            Ok(s) => s,
            Err(_) => continue,
        };
        let mut cur: Option<Vec<u8>> = None;
        for line in s.lines() {
            if line.starts_with("zonefile:") {
                cur = Some(vec![]);
            } else if let Some(c) = cur.as_mut() {
                if line.starts_with("  ") || line.is_empty() {
                    c.extend_from_slice(line.get(2..).unwrap_or("").as_bytes());
                    c.push(b'\n');
                } else {
                    out.push(cur.take().unwrap());
                }
            }
        }
        if let Some(c) = cur {
            out.push(c);
        }
    }
    out
}

fn mutate(rng: &mut Rng, src: &[u8]) -> Vec<u8> {
    let mut v = src.to_vec();
    let k = 1 + rng.below(4);
    for _ in 0..k {
        if v.is_empty() {
            break;
        }
        let i = rng.below(v.len() as u64) as usize;
        match rng.below(6) {
            0 => { v[i] = *rng.pick(SPECIALS); }
            1 => { v.insert(i, *rng.pick(SPECIALS)); }
            2 => { v.remove(i); }
            3 => { v.truncate(i); }
            4 => { let w = rng.pick(WORDS).as_bytes().to_vec(); for (j, b) in w.iter().enumerate() { v.insert(i + j, *b); } }
            _ => { let j = rng.below(v.len() as u64) as usize; v.swap(i, j); }
        }
    }
    v
}

// --------------------------------------------------- (b) logical files
#[derive(Clone)]
enum Rd {
    Txt(Vec<Vec<u8>>),
    Name(u16, Vec<Vec<u8>>),
    Mx(u16, Vec<Vec<u8>>),
    Hinfo(Vec<u8>, Vec<u8>),
    Generic(u16, Vec<u8>),
    /// SVCB / HTTPS: type, priority, target, parameters (key text, value text) as written
    Svcb(u16, u16, Vec<Vec<u8>>, Vec<(Vec<u8>, Vec<u8>)>),
    /// data through a symbol converter: type, the numeric fields in front, the octets,
    /// Base 64 (true) or Base 16
    Conv(u16, Vec<u32>, Vec<u8>, bool),
    /// NSEC3PARAM: algorithm, flags, iterations, salt
    N3p(u8, u8, u16, Vec<u8>),
    /// SOA: mname, rname, five numbers
    Soa(Vec<Vec<u8>>, Vec<Vec<u8>>, [u32; 5]),
}

#[derive(Clone)]
enum Ent {
    Origin(Vec<Vec<u8>>),
    Ttl(u32),
    /// $INCLUDE with a path (printable ASCII) and maybe an origin
    Include(Vec<u8>, Option<Vec<Vec<u8>>>),
    Rec { owner: Vec<Vec<u8>>, ttl: u32, class: u16, rd: Rd },
}

const OCTS: &[u8] = b"ab.xy \";()\\@$#\x00\x7f\xff019AZ-_";

fn rand_octs(rng: &mut Rng, min: usize, max: usize) -> Vec<u8> {
    let n = min + rng.below((max - min + 1) as u64) as usize;
    (0..n).map(|_| if rng.chance(1, 2) { b'a' + rng.below(3) as u8 } else { *rng.pick(OCTS) }).collect()
}

fn rand_name(rng: &mut Rng, origins: &[Vec<Vec<u8>>]) -> Vec<Vec<u8>> {
    // often below or at one of the origins in use so that relative forms and @ occur
    let mut n: Vec<Vec<u8>> = vec![];
    for _ in 0..rng.below(3) {
        n.push(rand_octs(rng, 1, 4));
    }
    if rng.chance(3, 4) {
        n.extend(rng.pick(origins).iter().cloned());
    } else if n.is_empty() || rng.chance(1, 2) {
        n.push(rand_octs(rng, 1, 3));
    }
    n
}

fn rand_file(rng: &mut Rng) -> Vec<Ent> {
    let origins: Vec<Vec<Vec<u8>>> = vec![
        vec![b"o".to_vec()],
        vec![b"x".to_vec()],
        vec![b"s".to_vec(), b"o".to_vec()],
    ];
    let mut f = vec![];
    let n = 1 + rng.below(5);
    let mut last_owner: Option<Vec<Vec<u8>>> = None;
    // half of the files start with the SOA (what zonetree::parsed asks for)
    if rng.chance(1, 2) {
        let apex = rng.pick(&origins).clone();
        last_owner = Some(apex.clone());
        f.push(Ent::Rec { owner: apex, ttl: 3600, class: 1, rd: Rd::Soa(rand_name(rng, &origins), rand_name(rng, &origins),
            [rng.below(1 << 31) as u32, 7200, 0, 65536, rng.below(100000) as u32]) });
    }
    for _ in 0..n {
        match rng.below(9) {
            0 => f.push(Ent::Origin(rng.pick(&origins).clone())),
            1 => f.push(Ent::Ttl(*rng.pick(&[0u32, 5, 7, 3600, 2147483647]))),
            8 => {
                let k = 1 + rng.below(6) as usize;
                let path: Vec<u8> = (0..k).map(|_| *rng.pick(b"fg/. \"\\;()db-_@$#~!")).collect();
                f.push(Ent::Include(path, if rng.chance(1, 3) { Some(rand_name(rng, &origins)) } else { None }));
            }
            _ => {
                let owner = match (&last_owner, rng.chance(1, 3)) {
                    (Some(o), true) => o.clone(),
                    _ => rand_name(rng, &origins),
                };
                last_owner = Some(owner.clone());
                let ttl = *rng.pick(&[0u32, 5, 7, 3600, 3600, 86400]);
                let rd = match rng.below(12) {
                    8 => { let k = rng.below(9) as usize; Rd::Conv(*rng.pick(&[48u16, 60]), vec![*rng.pick(&[0u32, 256, 257, 65535]), 3, *rng.pick(&[8u32, 13, 255])], rng.bytes(k), true) }
                    9 => { let k = rng.below(7) as usize; if rng.chance(1, 2) { Rd::Conv(61, vec![], rng.bytes(k), true) }
                           else { Rd::Conv(*rng.pick(&[43u16, 59]), vec![rng.below(65536) as u32, *rng.pick(&[8u32, 13]), *rng.pick(&[1u32, 2, 4])], rng.bytes(k), false) } }
                    10 => { let k = rng.below(5) as usize; if rng.chance(1, 2) { Rd::Conv(52, vec![rng.below(4) as u32, rng.below(2) as u32, rng.below(3) as u32], rng.bytes(k), false) }
                            else { Rd::N3p(1, rng.below(2) as u8, rng.below(200) as u16, rng.bytes(k)) } }
                    11 => Rd::Name(*rng.pick(&[2u16, 5, 5]), rand_name(rng, &origins)),
                    0 | 1 => Rd::Txt((0..1 + rng.below(3)).map(|_| rand_octs(rng, 0, 5)).collect()),
                    2 => Rd::Name(*rng.pick(&[2u16, 5, 12, 39]), rand_name(rng, &origins)),
                    3 => Rd::Mx(*rng.pick(&[0u16, 10, 65535]), rand_name(rng, &origins)),
                    4 => Rd::Hinfo(rand_octs(rng, 0, 4), rand_octs(rng, 0, 4)),
                    5 | 6 => {
                        // parameters in random order; alpn, port and private keys
                        let mut ps: Vec<(Vec<u8>, Vec<u8>)> = vec![];
                        if rng.chance(2, 3) {
                            let ids: Vec<&[u8]> = vec![b"h2", b"h3", b"http/1.1", b"dot"];
                            let n = 1 + rng.below(3) as usize;
                            let mut v = vec![];
                            for k in 0..n { if k > 0 { v.push(b','); } v.extend_from_slice(ids[(rng.below(4) as usize + k) % 4]); }
                            // (repeated ids are fine for the reader)
                            ps.push((b"alpn".to_vec(), v));
                        }
                        if rng.chance(1, 2) { ps.push((b"port".to_vec(), (rng.next() as u16).to_string().into_bytes())); }
                        if rng.chance(1, 2) {
                            let n = rng.below(5) as usize;
                            ps.push((format!("key{}", 65280 + rng.below(9)).into_bytes(), (0..n).map(|_| b'a' + rng.below(26) as u8).collect()));
                        }
                        if rng.chance(1, 2) { ps.reverse(); }
                        Rd::Svcb(*rng.pick(&[64u16, 65]), 1 + rng.below(9) as u16, rand_name(rng, &origins), ps)
                    }
                    _ => Rd::Generic(*rng.pick(&[65280u16, 16, 1234]), { let k = rng.below(5) as usize; rng.bytes(k) }),
                };
                // now and then a record of another class: an error unless allow_invalid()
                let class = if rng.chance(1, 12) { 3 } else { 1 };
                f.push(Ent::Rec { owner, ttl, class, rd });
            }
        }
    }
    f
}

// ------------------------------------------------------------ rendering
fn esc_oct(out: &mut Vec<u8>, b: u8, style: u64, in_name: bool, quoted: bool) {
    let must = if quoted {
        b == b'"' || b == b'\\' || (in_name && b == b'.')
    } else {
        matches!(b, b' ' | b'"' | b'\\' | b';' | b'(' | b')') || (in_name && b == b'.')
    };
    if b < 0x20 || b > 0x7e || style == 1 {
        out.extend_from_slice(format!("\\{:03}", b).as_bytes());
    } else if must || (style == 2 && !b.is_ascii_digit()) {
        out.push(b'\\');
        out.push(b);
    } else {
        out.push(b);
    }
}

/// a token for an octet string; never produces a bare `@`, a leading `$`,
/// or a bare `\#`
fn tok(rng: &mut Rng, octs: &[u8], in_name: bool, quoted: bool, out: &mut Vec<u8>) {
    for (i, b) in octs.iter().enumerate() {
        let mut style = match rng.below(8) { 0 => 1, 1 => 2, _ => 0 };
        // (the reader looks at the first symbol of a quoted token as well)
        if i == 0 && matches!(*b, b'@' | b'$' | b'#') {
            style = 1;
        }
        esc_oct(out, *b, style, in_name, quoted);
    }
}

fn name_text(rng: &mut Rng, n: &[Vec<u8>], origin: &[Vec<u8>], allow_at: bool) -> Vec<u8> {
    let under = n.len() > origin.len() && n[n.len() - origin.len()..] == *origin;
    let mut forms = vec![0u8]; // 0 abs
    if under { forms.push(1); forms.push(1); }
    if allow_at && n == origin { forms.push(2); forms.push(2); }
    let form = *rng.pick(&forms);
    let quoted = rng.chance(1, 6);
    let mut out = vec![];
    if quoted { out.push(b'"'); }
    match form {
        2 => out.push(b'@'),
        _ => {
            let labels = if form == 1 { &n[..n.len() - origin.len()] } else { n };
            for (i, l) in labels.iter().enumerate() {
                if i > 0 { out.push(b'.'); }
                tok(rng, l, true, quoted, &mut out);
            }
            if form == 0 { out.push(b'.'); }
        }
    }
    if quoted { out.push(b'"'); }
    out
}

fn str_text(rng: &mut Rng, s: &[u8]) -> Vec<u8> {
    let quoted = s.is_empty() || rng.chance(1, 2);
    let mut out = vec![];
    if quoted { out.push(b'"'); }
    tok(rng, s, false, quoted, &mut out);
    if quoted { out.push(b'"'); }
    out
}

struct Lay { depth: u32, tight: bool }

fn base64_text(data: &[u8]) -> Vec<u8> {
    const A: &[u8] = b"ABCDEFGHIJKLMNOPQRSTUVWXYZabcdefghijklmnopqrstuvwxyz0123456789+/";
    let mut out = vec![];
    for c in data.chunks(3) {
        let n = (c[0] as u32) << 16 | (*c.get(1).unwrap_or(&0) as u32) << 8 | *c.get(2).unwrap_or(&0) as u32;
        out.push(A[(n >> 18) as usize & 63]);
        out.push(A[(n >> 12) as usize & 63]);
        out.push(if c.len() > 1 { A[(n >> 6) as usize & 63] } else { b'=' });
        out.push(if c.len() > 2 { A[n as usize & 63] } else { b'=' });
    }
    out
}

/// a token for the string scanner (printable ASCII octets): plain with the
/// necessary escapes, quoted, and either with further simple escapes; a
/// leading `$` stays as it is (it makes the control word)
fn str_token(rng: &mut Rng, s: &[u8], out: &mut Vec<u8>) {
    let quoted = s.is_empty() || rng.chance(1, 2);
    if quoted { out.push(b'"'); }
    for (i, b) in s.iter().enumerate() {
        let must = if quoted { matches!(*b, b'"' | b'\\') } else { matches!(*b, b' ' | b'"' | b'\\' | b';' | b'(' | b')') };
        let may = !b.is_ascii_digit() && !(i == 0 && *b == b'$');
        if must || (may && rng.chance(1, 5)) { out.push(b'\\'); }
        out.push(*b);
    }
    if quoted { out.push(b'"'); }
}

fn gap(rng: &mut Rng, lay: &mut Lay, out: &mut Vec<u8>) {
    // tight: no blank at all, the token is ended by a parenthesis (an opening
    // one, or the closing one of an open group) and the next one starts right
    // behind one.  (Not in front of SVCB parameters: a quoted token directly
    // behind a parenthesis is glued to the token before it.)
    if lay.tight && rng.chance(1, 2) {
        if lay.depth > 0 && rng.chance(1, 2) {
            out.push(b')');
            lay.depth -= 1;
            if rng.chance(1, 2) { out.push(b'('); lay.depth += 1; }
        } else {
            out.push(b'(');
            lay.depth += 1;
            if rng.chance(1, 3) { out.push(b'\n'); }
            if rng.chance(1, 2) { out.push(b')'); lay.depth -= 1; }
        }
        return;
    }
    // at least one white-space octet; maybe parentheses, line breaks inside them, comments
    out.extend_from_slice(*rng.pick(&[&b" "[..], b" ", b"\t", b"  ", b" \r", b"\t "]));
    if rng.chance(1, 6) {
        out.push(b'(');
        lay.depth += 1;
    }
    if lay.depth > 0 && rng.chance(1, 3) {
        if rng.chance(1, 2) { out.extend_from_slice(b"; c ( \" \\"); }
        if rng.chance(1, 3) { out.push(b'\r'); }
        out.push(b'\n');
        if rng.chance(1, 2) { out.push(b' '); }
    }
    if lay.depth > 0 && rng.chance(1, 4) {
        out.push(b')');
        lay.depth -= 1;
        out.push(b' ');
    }
}

fn eol(rng: &mut Rng, lay: &mut Lay, out: &mut Vec<u8>) {
    while lay.depth > 0 {
        if rng.chance(1, 3) { out.extend_from_slice(b"\n\t"); }
        out.push(b')');
        lay.depth -= 1;
    }
    if rng.chance(1, 4) { out.push(b' '); }
    if rng.chance(1, 5) { out.extend_from_slice(b";x\"("); }
    if rng.chance(1, 4) { out.push(b'\r'); }
    out.push(b'\n');
    match rng.below(8) { 0 => out.extend_from_slice(b"\n"), 1 => out.extend_from_slice(b" ; only a comment )\n"), 2 => out.extend_from_slice(b"\t \r\n"), _ => {} }
}

fn mixed_case(rng: &mut Rng, s: &str) -> Vec<u8> {
    s.bytes().map(|b| if rng.chance(1, 3) { b.to_ascii_lowercase() } else { b }).collect()
}

fn type_tok(rng: &mut Rng, t: u16) -> Vec<u8> {
    let m = match t { 2 => "NS", 5 => "CNAME", 12 => "PTR", 39 => "DNAME", 15 => "MX", 13 => "HINFO", 16 => "TXT", 64 => "SVCB", 65 => "HTTPS", _ => "" };
    if m.is_empty() || rng.chance(1, 5) { mixed_case(rng, &format!("TYPE{}", t)) } else { mixed_case(rng, m) }
}

fn render(rng: &mut Rng, f: &[Ent]) -> Vec<u8> {
    let mut out = vec![];
    let mut origin: Vec<Vec<u8>> = vec![b"o".to_vec()];
    let mut last_owner: Option<Vec<Vec<u8>>> = None;
    let mut dfl_ttl: u32 = 3600;
    let mut dollar = false;
    let mut first_class: Option<u16> = None;
    for e in f {
        let mut lay = Lay { depth: 0, tight: rng.chance(1, 4) };
        match e {
            Ent::Origin(n) => {
                out.extend_from_slice(&mixed_case(rng, "$ORIGIN"));
                gap(rng, &mut lay, &mut out);
                out.extend_from_slice(&name_text(rng, n, &origin, false));
                eol(rng, &mut lay, &mut out);
                origin = n.clone();
            }
            Ent::Ttl(v) => {
                out.extend_from_slice(&mixed_case(rng, "$TTL"));
                gap(rng, &mut lay, &mut out);
                out.extend_from_slice(v.to_string().as_bytes());
                eol(rng, &mut lay, &mut out);
                dfl_ttl = *v;
                dollar = true;
            }
            Ent::Include(path, inc_origin) => {
                // the control word and the path go through the string scanner:
                // plain, quoted, escaped, quoted and escaped (no decimal escapes there)
                let word = mixed_case(rng, "$INCLUDE");
                str_token(rng, &word, &mut out);
                gap(rng, &mut lay, &mut out);
                str_token(rng, path, &mut out);
                if let Some(n) = inc_origin {
                    gap(rng, &mut lay, &mut out);
                    out.extend_from_slice(&name_text(rng, n, &origin, false));
                }
                eol(rng, &mut lay, &mut out);
            }
            Ent::Rec { owner, ttl, class, rd } => {
                if last_owner.as_ref() == Some(owner) && rng.chance(1, 2) {
                    // inherited owner: the line starts with white space
                    out.push(b' ');
                } else {
                    out.extend_from_slice(&name_text(rng, owner, &origin, true));
                }
                gap(rng, &mut lay, &mut out);
                let mut ct: Vec<Vec<u8>> = vec![];
                if !(*ttl == dfl_ttl && rng.chance(1, 2)) {
                    ct.push(if rng.chance(1, 8) { format!("+{}", ttl) } else { ttl.to_string() }.into_bytes());
                }
                if !(first_class == Some(*class) && rng.chance(1, 2)) {
                    let (num, mn) = if *class == 3 { ("CLASS3", "CH") } else { ("CLASS1", "IN") };
                    ct.push(if rng.chance(1, 6) { mixed_case(rng, num) } else { mixed_case(rng, mn) });
                }
                if ct.len() == 2 && rng.chance(1, 2) { ct.swap(0, 1); }
                for t in ct {
                    out.extend_from_slice(&t);
                    gap(rng, &mut lay, &mut out);
                }
                let t = match rd { Rd::Txt(_) => 16, Rd::Name(t, _) => *t, Rd::Mx(..) => 15, Rd::Hinfo(..) => 13, Rd::Generic(t, _) => *t, Rd::Svcb(t, ..) => *t,
                                   Rd::Conv(t, ..) => *t, Rd::N3p(..) => 51, Rd::Soa(..) => 6 };
                out.extend_from_slice(&type_tok(rng, t));
                let generic_known = matches!(rd, Rd::Generic(..));
                match rd {
                    Rd::Txt(strs) => for s in strs {
                        gap(rng, &mut lay, &mut out);
                        out.extend_from_slice(&str_text(rng, s));
                    },
                    Rd::Name(_, n) => { gap(rng, &mut lay, &mut out); out.extend_from_slice(&name_text(rng, n, &origin, false)); }
                    Rd::Mx(p, n) => {
                        gap(rng, &mut lay, &mut out);
                        out.extend_from_slice(p.to_string().as_bytes());
                        gap(rng, &mut lay, &mut out);
                        out.extend_from_slice(&name_text(rng, n, &origin, false));
                    }
                    Rd::Hinfo(a, b) => for s in [a, b] {
                        gap(rng, &mut lay, &mut out);
                        out.extend_from_slice(&str_text(rng, s));
                    },
                    Rd::Conv(_, fields, data, b64) => {
                        for v in fields {
                            gap(rng, &mut lay, &mut out);
                            out.extend_from_slice(v.to_string().as_bytes());
                        }
                        // the text of the data, cut into tokens at random places
                        let text: Vec<u8> = if *b64 { base64_text(data) } else {
                            data.iter().flat_map(|b| format!("{:02x}", b).into_bytes())
                                .map(|c| if rng.chance(1, 3) { c.to_ascii_uppercase() } else { c }).collect() };
                        let mut i = 0;
                        while i < text.len() {
                            gap(rng, &mut lay, &mut out);
                            let k = 1 + rng.below(6) as usize;
                            let piece = &text[i..text.len().min(i + k)];
                            // a piece may be quoted, a character may be escaped
                            let q = rng.chance(1, 8);
                            if q { out.push(b'"'); }
                            for c in piece { if !c.is_ascii_digit() && rng.chance(1, 10) { out.push(b'\\'); } out.push(*c); }
                            if q { out.push(b'"'); }
                            i += k;
                        }
                    }
                    Rd::N3p(alg, flags, iter, salt) => {
                        for v in [*alg as u32, *flags as u32, *iter as u32] {
                            gap(rng, &mut lay, &mut out);
                            out.extend_from_slice(v.to_string().as_bytes());
                        }
                        gap(rng, &mut lay, &mut out);
                        if salt.is_empty() { out.push(b'-'); } else {
                            for b in salt { out.extend_from_slice(if rng.chance(1, 2) { format!("{:02x}", b) } else { format!("{:02X}", b) }.as_bytes()); }
                        }
                    }
                    Rd::Soa(m, r, nums) => {
                        gap(rng, &mut lay, &mut out);
                        out.extend_from_slice(&name_text(rng, m, &origin, false));
                        gap(rng, &mut lay, &mut out);
                        out.extend_from_slice(&name_text(rng, r, &origin, false));
                        for v in nums {
                            gap(rng, &mut lay, &mut out);
                            out.extend_from_slice(v.to_string().as_bytes());
                        }
                    }
                    Rd::Svcb(_, prio, target, ps) => {
                        lay.tight = false;
                        gap(rng, &mut lay, &mut out);
                        out.extend_from_slice(prio.to_string().as_bytes());
                        gap(rng, &mut lay, &mut out);
                        out.extend_from_slice(&name_text(rng, target, &origin, false));
                        for (k, v) in ps {
                            gap(rng, &mut lay, &mut out);
                            // key=value | key="value" | "key=value"; an empty value needs quotes or no '='
                            match rng.below(3) {
                                0 if !v.is_empty() => { out.extend_from_slice(k); out.push(b'='); out.extend_from_slice(v); }
                                1 | 0 => { out.extend_from_slice(k); out.extend_from_slice(b"=\""); out.extend_from_slice(v); out.push(b'"'); }
                                _ => { out.push(b'"'); out.extend_from_slice(k); out.push(b'='); out.extend_from_slice(v); out.push(b'"'); }
                            }
                        }
                    }
                    Rd::Generic(_, d) => {
                        gap(rng, &mut lay, &mut out);
                        out.extend_from_slice(b"\\#");
                        gap(rng, &mut lay, &mut out);
                        out.extend_from_slice(d.len().to_string().as_bytes());
                        let hex: Vec<u8> = d.iter().flat_map(|b| format!("{:02x}", b).into_bytes()).collect();
                        let mut i = 0;
                        while i < hex.len() {
                            gap(rng, &mut lay, &mut out);
                            let k = 1 + rng.below(5) as usize;
                            for c in &hex[i..hex.len().min(i + k)] {
                                out.push(if rng.chance(1, 3) { c.to_ascii_uppercase() } else { *c });
                            }
                            i += k;
                        }
                    }
                }
                let _ = generic_known;
                eol(rng, &mut lay, &mut out);
                last_owner = Some(owner.clone());
                if first_class.is_none() { first_class = Some(*class); }
                if !dollar { dfl_ttl = *ttl; }
            }
        }
    }
    out
}

/// Inputs whose size is the attack: names of 300 ... 70000 octets (in several
/// label shapes, as owner, in record data, after $ORIGIN, relative and
/// absolute), huge character strings, hex / base64 blobs, integers with 100
/// digits, 10^5 nested parentheses, a 1 MiB line.
fn hostile_inputs(rng: &mut Rng) -> Vec<(String, Vec<u8>)> {
    let mut v: Vec<(String, Vec<u8>)> = vec![];
    let rep = |unit: &[u8], total: usize| -> Vec<u8> {
        let mut o = Vec::with_capacity(total + unit.len());
        while o.len() < total { o.extend_from_slice(unit); }
        o
    };
    for total in [300usize, 4096, 65535, 65536, 70000, 140000] {
        for unit in [&b"aaa."[..], b"a.", b"\\097\\.b.", &[b'x'; 64][..]] {
            let mut unit = unit.to_vec();
            if unit.len() == 64 { unit[63] = b'.'; }
            let abs = rep(&unit, total);
            let mut rel = abs.clone();
            rel.pop();
            for (shape, name) in [("abs", &abs), ("rel", &rel)] {
                let tag = format!("name{}-{}-{}", total, unit.len(), shape);
                v.push((format!("{}-owner", tag), [&name[..], b" IN TXT t\n"].concat()));
                v.push((format!("{}-rdata", tag), [b"a IN NS ", &name[..], b"\n"].concat()));
                v.push((format!("{}-mx", tag), [b"a IN MX 10 ", &name[..], b"\n"].concat()));
                v.push((format!("{}-origin", tag), [b"$ORIGIN ", &name[..], b"\n@ IN TXT t\n"].concat()));
                v.push((format!("{}-include", tag), [b"$INCLUDE f ", &name[..], b"\n"].concat()));
                v.push((format!("{}-quoted", tag), [b"a IN CNAME \"", &name[..], b"\"\n"].concat()));
            }
        }
    }
    for total in [300usize, 65535, 65536, 1 << 20] {
        let xs = rep(b"x", total);
        v.push((format!("txt-plain-{}", total), [b"a IN TXT ", &xs[..], b"\n"].concat()));
        v.push((format!("txt-quoted-{}", total), [b"a IN TXT \"", &xs[..], b"\"\n"].concat()));
        v.push((format!("txt-escaped-{}", total), [b"a IN TXT ", &rep(b"\\120", total)[..], b"\n"].concat()));
        v.push((format!("txt-many-{}", total), [b"a IN TXT ", &rep(b"x ", total)[..], b"\n"].concat()));
        v.push((format!("hinfo-{}", total), [b"a IN HINFO ", &xs[..], b" y\n"].concat()));
        v.push((format!("owner-label-{}", total), [&xs[..], b" IN TXT t\n"].concat()));
        let hex = rep(b"0f", total);
        v.push((format!("generic-hex-{}", total), [b"a IN TYPE65280 \\# 5 ", &hex[..], b"\n"].concat()));
        v.push((format!("generic-hex-tokens-{}", total), [b"a IN TYPE65280 \\# 5 ", &rep(b"0f ", total)[..], b"\n"].concat()));
        v.push((format!("tlsa-hex-{}", total), [b"a IN TLSA 3 1 1 ", &hex[..], b"\n"].concat()));
        let b64 = rep(b"QUJD", total);
        v.push((format!("dnskey-b64-{}", total), [b"a IN DNSKEY 257 3 13 ", &b64[..], b"\n"].concat()));
        v.push((format!("openpgp-b64-{}", total), [b"a IN OPENPGPKEY ", &rep(b"QUJD ", total)[..], b"\n"].concat()));
        v.push((format!("nsec3-long-hash-{}", total), [b"a IN NSEC3 1 0 1 - ", &rep(b"VVVVVVVV", total)[..], b" A\n"].concat()));
        v.push((format!("nsec3-long-salt-{}", total), [b"a IN NSEC3 1 0 1 ", &rep(b"ab", total.max(512))[..], b" VVVVVVVV A\n"].concat()));
        v.push((format!("nsec3-long-param-salt-{}", total), [b"a IN NSEC3PARAM 1 0 1 ", &rep(b"ab", total.max(512))[..], b"\n"].concat()));
        v.push((format!("comment-{}", total), [b"a IN TXT t ;", &xs[..], b"\n"].concat()));
        v.push((format!("spaces-{}", total), [b"a IN TXT t", &rep(b" \t\r", total)[..], b"\n"].concat()));
        v.push((format!("line-no-lf-{}", total), [b"a IN TXT ", &xs[..]].concat()));
        v.push((format!("quote-open-{}", total), [b"a IN TXT \"", &xs[..]].concat()));
        v.push((format!("type-token-{}", total), [b"a IN ", &xs[..], b" t\n"].concat()));
        v.push((format!("control-{}", total), [b"$", &xs[..], b" t\n"].concat()));
    }
    let digits = rep(b"9", 100);
    for pre in [&b"$TTL "[..], b"a ", b"a IN MX ", b"a IN TYPE1 \\# ", b"a IN TYPE", b"a CLASS", b"a IN SOA a. b. "] {
        v.push((format!("int100-{}", String::from_utf8_lossy(pre).trim()), [pre, &digits[..], b" x.\n"].concat()));
        v.push((format!("int100z-{}", String::from_utf8_lossy(pre).trim()), [pre, &rep(b"0", 100)[..], b"7 x.\n"].concat()));
    }
    // just past the limits of the one-octet length fields
    v.push(("nsec3-long-hash-min".into(), [&b"a IN NSEC3 1 0 1 - "[..], &rep(b"V", 416)[..], b" A\n"].concat()));
    v.push(("nsec3-hash-255".into(), [&b"a IN NSEC3 1 0 1 - "[..], &rep(b"V", 408)[..], b" A\n"].concat()));
    v.push(("nsec3-salt-255".into(), [&b"a IN NSEC3 1 0 1 "[..], &rep(b"ab", 510)[..], b" VVVVVVVV A\n"].concat()));
    for depth in [1000usize, 100_000] {
        let open = rep(b"(", depth);
        let close = rep(b")", depth);
        v.push((format!("parens-balanced-{}", depth), [b"a IN TXT ", &open[..], b"t", &close[..], b"\n"].concat()));
        v.push((format!("parens-open-{}", depth), [b"a IN TXT ", &open[..], b"t\n"].concat()));
        v.push((format!("parens-close-{}", depth), [b"a IN TXT t", &close[..], b"\n"].concat()));
        v.push((format!("parens-lines-{}", depth), [b"a IN TXT ", &rep(b"(\n", depth * 2)[..], b"t", &close[..], b"\n"].concat()));
    }
    v.push(("blank-lines".into(), rep(b"\n", 1 << 20)));
    v.push(("many-records".into(), rep(b"a IN TXT t\n", 1 << 18)));
    // a few seeded variations: a random prefix of a long name run spliced into a token soup
    for i in 0..8 {
        let n = 60000 + rng.below(20000) as usize;
        let mut d = token_soup(rng, 3);
        d.extend_from_slice(&rep(*rng.pick(&[&b"ab."[..], b"a.b\\.c.", b"\\000."]), n));
        d.extend_from_slice(b" IN NS x.\n");
        v.push((format!("soup-long-name-{}", i), d));
    }
    v
}

fn main() {
    quiet_panics();
    let args: Vec<String> = std::env::args().collect();
    let path = args.get(1).expect("trace path");
    let seed: u64 = args.get(2).and_then(|s| s.parse().ok()).unwrap_or_else(seed);
    let n_total: u64 = args.get(3).and_then(|s| s.parse().ok()).unwrap_or(20000);
    let n_meta: u64 = args.get(4).and_then(|s| s.parse().ok()).unwrap_or(300);
    let dir = args.get(5).cloned().unwrap_or_else(|| "/repo/test-data/zonefiles".to_string());
    let log_max: usize = arg_value("--log-max").and_then(|s| s.parse().ok()).unwrap_or(40);
    let log_every: u64 = arg_value("--log-every").and_then(|s| s.parse().ok()).unwrap_or(8);
    let mut rng = Rng::new(seed);
    let mut tw = TraceWriter::create(path);
    zf::start_watchdog(30);
    // first event: the deviations listed as open (the validator may explain an
    // outcome by them, and reports each use)
    tw.event(json!({"ev": "devs", "open": open_devs()}));
    let files = corpus(&dir);
    let (mut panics, mut errs, mut oks, mut logged, mut long_inputs) = (0u64, 0u64, 0u64, 0u64, 0u64);
    for i in 0..n_total {
        let data = match rng.below(10) {
            0 | 1 => { let n = rng.below(24) as usize; random_octets(&mut rng, n) }
            2 => { let n = rng.below(4000) as usize; random_octets(&mut rng, n) }
            3 | 4 | 5 => { let n = 1 + rng.below(7) as usize; token_soup(&mut rng, n) }
            6 => { let n = 1 + rng.below(200) as usize; token_soup(&mut rng, n) }
            _ if !files.is_empty() => { let f = rng.pick(&files).clone(); mutate(&mut rng, &f) }
            _ => { let n = 1 + rng.below(9) as usize; token_soup(&mut rng, n) }
        };
        zf::tick(&zf::show(&data));
        let class = if rng.chance(1, 4) { None } else { Some(1u16) };
        let origin = if rng.chance(1, 6) { None } else { Some(ORIGIN) };
        // construction route and class checking vary; current_offset() is watched
        let route = *rng.pick(zf::CTOR_ROUTES);
        let ai = rng.chance(1, 5);
        let mut offs = vec![];
        let res = outcome_via(route, &data, origin, class, ai, &mut offs);
        let is_panic = res.get("panic").is_some();
        if is_panic { panics += 1; } else if res["err"] == json!(true) { errs += 1; } else { oks += 1; }
        if data.len() > log_max { long_inputs += 1; }
        if is_panic || (data.len() <= log_max && i % log_every == 0) {
            logged += 1;
            tw.event(json!({"ev": "read", "text": json_bytes(&data),
                            "origin": json_bytes(origin.unwrap_or(&[])),
                            "class": class.map(|c| c as i64).unwrap_or(-1), "res": res,
                            "route": route, "ai": ai, "offs": offs}));
        }
    }
    // (c) hostile sizes: very long single tokens and lines.  Only the class
    // of the outcome is logged (ok / err / panic); a panic or a hang is a
    // violation of totality.
    let mut hostile = 0u64;
    for (kind, data) in hostile_inputs(&mut rng) {
        zf::tick(&format!("hostile {} ({} octets)", kind, data.len()));
        let res = outcome(&data, Some(ORIGIN), Some(1));
        let class = if res.get("panic").is_some() { "panic" } else if res["err"] == json!(true) { "err" } else { "ok" };
        if class == "panic" { panics += 1; }
        hostile += 1;
        // guard of D_nsec3_scan_unchecked_len: an NSEC3 salt or owner hash of more
        // than 255 octets (the generator knows which inputs carry one)
        let dev = if kind.starts_with("nsec3-long") { "D_nsec3_scan_unchecked_len" } else { "" };
        tw.event(json!({"ev": "hostile", "kind": kind, "len": data.len(), "res": class, "dev": dev}));
    }
    let mut meta_equal = 0u64;
    for _ in 0..n_meta {
        let f = rand_file(&mut rng);
        let a = render(&mut rng, &f);
        let b = render(&mut rng, &f);
        // both renderings are read under the same configuration, through
        // different construction routes; zonetree::parsed reads them as well
        let ai = rng.chance(1, 3);
        let (route_a, route_b) = (*rng.pick(zf::CTOR_ROUTES), *rng.pick(zf::CTOR_ROUTES));
        let opts = zf::ReadOpts { origin: Some(ORIGIN), default_class: None, allow_invalid: ai };
        let (mut oa, mut ob) = (vec![], vec![]);
        zf::tick(&zf::show(&a));
        let ra = outcome_via(route_a, &a, Some(ORIGIN), None, ai, &mut oa);
        let pa = observe(|| zfr::parsed_obs(route_a, &a, &opts, "raw"));
        zf::tick(&zf::show(&b));
        let rb = outcome_via(route_b, &b, Some(ORIGIN), None, ai, &mut ob);
        let pb = observe(|| zfr::parsed_obs(route_b, &b, &opts, "raw"));
        if ra == rb { meta_equal += 1; }
        tw.event(json!({"ev": "meta", "a": json_bytes(&a), "b": json_bytes(&b),
                        "origin": json_bytes(ORIGIN), "class": -1, "ra": ra, "rb": rb,
                        "ai": ai, "routes": [route_a, route_b], "offs_a": oa, "offs_b": ob, "pa": pa, "pb": pb}));
    }
    let n = tw.finish();
    println!("RECORDED {}", json!({"events": n, "inputs": n_total, "ok": oks, "err": errs, "panics": panics,
        "logged_reads": logged, "long_inputs": long_inputs, "meta": n_meta, "meta_equal": meta_equal, "hostile": hostile,
        "corpus_files": files.len()}));
}
