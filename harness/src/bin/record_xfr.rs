//! I->S recorder for C10: drives the real *sender*.
//!
//! A real in-memory `Zone` with random content (every RRset with a TTL of
//! its own) goes through a random sequence of committed changes (the
//! `InMemoryZoneDiff`s are collected from the commits).  Write sessions
//! alternate between two styles: "updater" (DeleteRecord / AddRecord through
//! a `ZoneUpdater`, TTLs unchanged) and "direct" (the primary rewrites every
//! changed RRset once through `WritableZoneNode::update_rrset` /
//! `remove_rrset`; RRsets change their TTL alone, or together with losing,
//! gaining or replacing members).  The zone + diffs are served through
//! `XfrMiddlewareSvc::preprocess` over a TCP context (with reserved bytes so
//! that responses are split into several messages) for AXFR and for IXFR
//! from every older serial, from the current serial, from a newer and from an
//! unknown older one.
//! Each response stream is recorded, then fed through a real
//! `XfrResponseInterpreter` + `ZoneUpdater` into a second zone; the two
//! zones' walks are logged; it is also received through a real
//! `net::client::stream::Connection` with a multi-response request (what
//! `get_response()` hands out is logged as `client`).  spec/Trace_Xfr.tla
//! validates every event.
//!
//! usage: record_xfr <trace.ndjson> <seed> <rounds>
#[path = "../client.rs"]
#[allow(dead_code, unused)]
mod client;
#[path = "../xfr.rs"]
mod xfr;
#[path = "../xfr_client.rs"]
mod xfr_client;

use bytes::Bytes;
use domain::base::iana::Class;
use domain::base::{Message, MessageBuilder, Record, Rtype, Serial, Ttl};
use domain::net::server::message::{
    NonUdpTransportContext, Request, TransportSpecificContext, UdpTransportContext,
};
use domain::net::server::middleware::xfr::{
    XfrData, XfrDataProvider, XfrDataProviderError, XfrMiddlewareSvc,
};
use domain::net::server::service::{
    CallResult, Service, ServiceError, ServiceFeedback, ServiceResult,
};
use domain::zonetree::types::ZoneUpdate;
use domain::zonetree::update::ZoneUpdater;
use domain::base::name::ToLabelIter;
use domain::zonetree::{InMemoryZoneDiff, Rrset, SharedRrset, StoredName, Zone};
use futures_util::stream::Once;
use futures_util::StreamExt;
use serde_json::{json, Value};
use std::collections::{BTreeMap, BTreeSet};
use std::future::{ready, Future, Ready};
use std::ops::ControlFlow;
use std::pin::Pin;
use std::sync::Arc;
use tokio::sync::Semaphore;
use verif_harness::common::*;
use xfr::*;

const MAX_N: i64 = 7;

#[derive(Clone)]
struct NextSvc;
impl Service<Vec<u8>, ()> for NextSvc {
    type Target = Vec<u8>;
    type Stream = Once<Ready<ServiceResult<Self::Target>>>;
    type Future = Ready<Self::Stream>;
    fn call(&self, _request: Request<Vec<u8>, ()>) -> Self::Future {
        unreachable!()
    }
}

#[derive(Clone)]
struct ZoneWithDiffs {
    zone: Zone,
    diffs: Vec<Arc<InMemoryZoneDiff>>,
}

impl XfrDataProvider<()> for ZoneWithDiffs {
    type Diff = Arc<InMemoryZoneDiff>;
    fn request<Octs>(
        &self,
        _req: &Request<Octs, ()>,
        diff_from: Option<Serial>,
    ) -> Pin<
        Box<
            dyn Future<Output = Result<XfrData<Self::Diff>, XfrDataProviderError>>
                + Sync
                + Send
                + '_,
        >,
    >
    where
        Octs: octseq::Octets + Send + Sync,
    {
        let diffs = match diff_from {
            Some(s) => match self.diffs.iter().position(|d| d.start_serial == s) {
                Some(i) => self.diffs[i..].to_vec(),
                None => vec![],
            },
            None => vec![],
        };
        Box::pin(ready(Ok(XfrData::new(self.zone.clone(), diffs, false))))
    }
}

/// `udp_hint`: None = TCP context; Some(h) = UDP context with response size
/// hint h.  `reserved` octets are reserved in the request, as an outer
/// middleware (TSIG, EDNS) does for the RR it appends to every response.
fn mk_request_on(qtype: Rtype, serial: u32, reserved: u16, udp_hint: Option<u16>) -> Request<Vec<u8>, ()> {
    let mut b = MessageBuilder::new_vec();
    b.header_mut().set_id(REQ_ID);
    let mut q = b.question();
    q.push((apex(), qtype)).unwrap();
    let msg = if qtype == Rtype::IXFR {
        let mut a = q.authority();
        a.push((apex(), Class::IN, Ttl::from_secs(TTL), soa_of(serial))).unwrap();
        a.into_message()
    } else {
        q.into_message()
    };
    let mut req = Request::new(
        "127.0.0.1:12345".parse().unwrap(),
        tokio::time::Instant::now(),
        msg,
        match udp_hint {
            None => TransportSpecificContext::NonUdp(NonUdpTransportContext::new(None)),
            Some(h) => TransportSpecificContext::Udp(UdpTransportContext::new(Some(h))),
        },
        (),
    );
    req.reserve_bytes(reserved);
    req
}

fn mk_request(qtype: Rtype, serial: u32, limit: u16) -> Request<Vec<u8>, ()> {
    mk_request_on(qtype, serial, 65535 - limit, None)
}

fn abstract_msg(m: &Message<Bytes>) -> Value {
    let h = m.header();
    let c = m.header_counts();
    let mut qd = vec![];
    for q in m.question().flatten() {
        let wrong = if q.qname() == &apex() { 0 } else { 1 };
        qd.push(json!([wrong, q.qtype().to_int()]));
    }
    let mut an = vec![];
    let mut an_ok = true;
    match m.answer() {
        Ok(sec) => {
            for r in sec.limit_to::<domain::rdata::ZoneRecordData<Bytes, domain::base::ParsedName<Bytes>>>() {
                match r {
                    Ok(r) => an.push(parsed_id(&r, MAX_N)),
                    Err(_) => an_ok = false,
                }
            }
        }
        Err(_) => an_ok = false,
    }
    json!({"id": if h.id() == REQ_ID {1} else {0}, "qr": h.qr() as u8, "op": h.opcode().to_int(),
           "rc": h.rcode().to_int(), "tc": h.tc() as u8, "qd": qd, "qdc": c.qdcount(),
           "an": an, "anc": c.ancount(), "nsc": c.nscount(), "arc": c.arcount(), "parse_ok": an_ok})
}

async fn serve(provider: ZoneWithDiffs, req: &Request<Vec<u8>, ()>) -> Result<Vec<Message<Bytes>>, String> {
    let res = XfrMiddlewareSvc::<Vec<u8>, NextSvc, (), ZoneWithDiffs>::preprocess(
        Arc::new(Semaphore::new(1)),
        Arc::new(Semaphore::new(1)),
        req,
        provider,
    )
    .await;
    let mut stream = match res {
        Ok(ControlFlow::Break(s)) => s,
        Ok(ControlFlow::Continue(())) => return Err("not handled".into()),
        Err(rc) => return Err(format!("rcode {rc}")),
    };
    let mut out = vec![];
    while let Some(item) = stream.next().await {
        let item: Result<CallResult<Vec<u8>>, ServiceError> = item;
        let cr = item.map_err(|e| format!("service error {e}"))?;
        let end = matches!(cr.feedback(), Some(ServiceFeedback::EndTransaction));
        if let Some(b) = cr.into_inner().0 {
            let octets: Vec<u8> = b.as_message().as_slice().to_vec();
            out.push(Message::from_octets(Bytes::from(octets)).map_err(|_| "short message".to_string())?);
        }
        if end {
            break;
        }
    }
    Ok(out)
}

fn rec(id: i64) -> Record<StoredName, StoredData> {
    Record::new(owner_of(id), Class::IN, ttl_of(id), data_of(id))
}

/// A zone version of the recorder: base ids + the TTL index of every RRset.
#[derive(Clone, Default)]
struct Content {
    bases: BTreeSet<i64>,
    tt: BTreeMap<(i64, i64), i64>,
}

impl Content {
    fn random(rng: &mut Rng, universe: &[i64], num: u64, den: u64) -> Self {
        let mut c = Content::default();
        for b in universe {
            c.tt.entry(key_of(*b)).or_insert_with(|| rng.below(TTLS.len() as u64) as i64);
            if rng.chance(num, den) {
                c.bases.insert(*b);
            }
        }
        c
    }
    fn rid(&self, base: i64) -> i64 {
        base + TT * self.tt[&key_of(base)]
    }
    fn rids(&self) -> Vec<i64> {
        let mut v: Vec<i64> = self.bases.iter().map(|b| self.rid(*b)).collect();
        v.sort();
        v
    }
    fn members(&self, key: (i64, i64)) -> Vec<i64> {
        self.bases.iter().cloned().filter(|b| key_of(*b) == key).collect()
    }
}

/// How an RRset present before and after changes when its TTL changes.
fn class_of(a: &Content, b: &Content, key: (i64, i64)) -> Option<&'static str> {
    let (ma, mb) = (a.members(key), b.members(key));
    if ma.is_empty() || mb.is_empty() || a.tt[&key] == b.tt[&key] {
        return None;
    }
    let sub = |x: &Vec<i64>, y: &Vec<i64>| x.iter().all(|e| y.contains(e));
    Some(if ma == mb {
        "ttl_only"
    } else if sub(&mb, &ma) {
        "ttl_shrink"
    } else if sub(&ma, &mb) {
        "ttl_grow"
    } else {
        "ttl_replace"
    })
}

/// The primary rewrites every RRset that differs between `old` and `new`
/// once (update_rrset with the complete new RRset, remove_rrset when nothing
/// is left), installs the new SOA and commits; returns the diff the zone
/// reports.
async fn direct_session(zone: &Zone, old: &Content, new: &Content, serial: i64) -> Option<InMemoryZoneDiff> {
    let mut write = zone.write().await;
    let root = write.open(true).await.unwrap();
    let apex_labels = apex().iter_labels().count();
    for (key, _) in new.tt.iter() {
        let (mo, mn) = (old.members(*key), new.members(*key));
        if mo == mn && (mn.is_empty() || old.tt[key] == new.tt[key]) {
            continue;
        }
        let some = mo.first().or(mn.first()).cloned().unwrap();
        let owner = owner_of(some);
        let labels: Vec<_> = owner.iter_labels().collect();
        let down = &labels[..labels.len() - apex_labels];
        let mut node = None;
        for label in down.iter().rev() {
            let next = match &node {
                None => root.update_child(label).await.unwrap(),
                Some(n) => {
                    let n: &Box<dyn domain::zonetree::WritableZoneNode> = n;
                    n.update_child(label).await.unwrap()
                }
            };
            node = Some(next);
        }
        let target = node.as_ref().unwrap_or(&root);
        if mn.is_empty() {
            target.remove_rrset(rtype_of(some)).await.unwrap();
        } else {
            let mut rr = Rrset::new(rtype_of(some), ttl_of(new.rid(mn[0])));
            for b in &mn {
                rr.push_data(data_of(*b));
            }
            target.update_rrset(SharedRrset::new(rr)).await.unwrap();
        }
        drop(node);
    }
    let mut soa = Rrset::new(Rtype::SOA, Ttl::from_secs(TTL));
    soa.push_data(data_of(SOA_BASE + serial));
    root.update_rrset(SharedRrset::new(soa)).await.unwrap();
    drop(root);
    write.commit(false).await.unwrap()
}

fn main() {
    let args: Vec<String> = std::env::args().collect();
    let path = args.get(1).cloned().unwrap_or_else(|| "trace.ndjson".into());
    let seed: u64 = args.get(2).and_then(|s| s.parse().ok()).unwrap_or_else(seed);
    let rounds: usize = args.get(3).and_then(|s| s.parse().ok()).unwrap_or(3);
    let mut rng = Rng::new(seed);
    let mut tw = TraceWriter::create(&path);
    let rt = tokio::runtime::Builder::new_multi_thread()
        .worker_threads(2)
        .enable_all()
        .build()
        .unwrap();
    let universe: Vec<i64> = (1..=4 * (MAX_N + 1)).collect();
    for round in 0..rounds {
        // Every second round the real SOA serials straddle the 2^32 wrap: the
        // version with index `wrap_at` (2 or 3; there are always >= 3
        // versions) has serial 0, the ones before it 4294967295, 4294967294.
        // All logged serials are version indexes (TLC never sees the raw value).
        let wrap_at: u32 = if round % 2 == 1 { 2 + rng.below(2) as u32 } else { 0 };
        let base: u32 = 0u32.wrapping_sub(wrap_at);
        SERIAL_BASE.store(base, std::sync::atomic::Ordering::SeqCst);
        // --- the sender zone and its history
        let mut cur = Content::random(&mut rng, &universe, 1, 2);
        let zone = build_zone(1, &cur.rids());
        let mut versions: Vec<(i64, Vec<i64>)> = vec![(1, cur.rids())];
        tw.event(json!({"ev": "new", "round": round, "serial_base": base.to_string(), "want": versions[0].1,
                        "walk": walk_content(&zone, MAX_N)}));
        let mut diffs: Vec<Arc<InMemoryZoneDiff>> = vec![];
        let ncommits = 2 + rng.below(3) as i64;
        for k in 0..ncommits {
            let serial = 2 + k;
            let before = walk_content(&zone, MAX_N);
            let old = cur.clone();
            // every record is touched at most once per write session
            let mut toggles: BTreeSet<i64> = BTreeSet::new();
            for _ in 0..(1 + rng.below(6)) {
                toggles.insert(*rng.pick(&universe));
            }
            let direct = (k + round as i64) % 2 == 0;
            let mut classes: Vec<&str> = vec![];
            let diff = if !direct {
                // ZoneUpdater session; every record carries the TTL of its RRset
                let d = rt.block_on(async {
                    let mut up: ZoneUpdater<StoredName> = ZoneUpdater::new(zone.clone()).await.unwrap();
                    for id in &toggles {
                        if cur.bases.contains(id) {
                            up.apply(ZoneUpdate::DeleteRecord(rec(cur.rid(*id)))).await.unwrap();
                        } else {
                            up.apply(ZoneUpdate::AddRecord(rec(cur.rid(*id)))).await.unwrap();
                        }
                    }
                    up.apply(ZoneUpdate::Finished(rec(SOA_BASE + serial))).await.unwrap()
                });
                for id in &toggles {
                    if !cur.bases.remove(id) {
                        cur.bases.insert(*id);
                    }
                }
                d
            } else {
                // the primary's own edit: RRsets change their TTL alone (no
                // member touched), while shrinking, growing, or being replaced
                let keys: Vec<(i64, i64)> = cur.tt.keys().cloned().collect();
                let mut planned: BTreeSet<(i64, i64)> = BTreeSet::new();
                for want in ["ttl_only", "ttl_shrink", "ttl_grow", "ttl_replace", "ttl_only"] {
                    // a key that can show the wanted change
                    let cands: Vec<(i64, i64)> = keys.iter().cloned().filter(|key| {
                        let n = cur.members(*key).len();
                        !planned.contains(key) && match want {
                            "ttl_only" => n >= 1,
                            "ttl_shrink" => n == 2,
                            _ => n == 1,
                        }
                    }).collect();
                    if cands.is_empty() {
                        continue;
                    }
                    let key = *rng.pick(&cands);
                    planned.insert(key);
                    let m = cur.members(key);
                    let other = |b: i64| if (b - 1) % 2 == 0 { b + 1 } else { b - 1 };
                    toggles.retain(|b| key_of(*b) != key);
                    match want {
                        "ttl_shrink" => { toggles.insert(*rng.pick(&m)); }
                        "ttl_grow" => { toggles.insert(other(m[0])); }
                        "ttl_replace" => { toggles.insert(m[0]); toggles.insert(other(m[0])); }
                        _ => {}
                    }
                    let t = cur.tt[&key];
                    cur.tt.insert(key, (t + 1 + rng.below(TTLS.len() as u64 - 1) as i64) % TTLS.len() as i64);
                }
                for id in &toggles {
                    if !cur.bases.remove(id) {
                        cur.bases.insert(*id);
                    }
                }
                for key in &keys {
                    if let Some(c) = class_of(&old, &cur, *key) {
                        classes.push(c);
                    }
                }
                rt.block_on(direct_session(&zone, &old, &cur, serial))
            };
            versions.push((serial, cur.rids()));
            tw.event(json!({"ev": "commit", "serial": serial, "before": before,
                            "mode": if direct { "direct" } else { "updater" }, "classes": classes,
                            "toggles": toggles.iter().cloned().collect::<Vec<_>>(),
                            "want": cur.rids(),
                            "after": walk_content(&zone, MAX_N),
                            "diff": match &diff { Some(d) => diff_json(d, MAX_N), None => json!({"none": true}) }}));
            if let Some(d) = diff {
                diffs.push(Arc::new(d));
            }
        }
        let latest = versions.last().unwrap().0;
        tw.event(json!({"ev": "hist", "versions": versions.iter().map(|(s, r)| json!({"s": s, "recs": r})).collect::<Vec<_>>()}));
        let provider = ZoneWithDiffs { zone: zone.clone(), diffs: diffs.clone() };
        // --- transfers: AXFR, IXFR from every serial incl. the current one and an unknown one
        let mut plans: Vec<(Rtype, i64)> = vec![(Rtype::AXFR, 0)];
        for s in 1..=latest {
            plans.push((Rtype::IXFR, s));
        }
        // a client ahead of the server (answered like an up-to-date one) and
        // one whose version the server has no differences for (AXFR-style answer)
        plans.push((Rtype::IXFR, 50));
        plans.push((Rtype::IXFR, 0));
        for (qtype, from) in plans {
            let limit = if rng.chance(1, 4) { 60000 } else { 220 + rng.below(400) as u16 };
            let req = mk_request(qtype, from as u32, limit);
            let msgs = match rt.block_on(serve(provider.clone(), &req)) {
                Ok(m) => m,
                Err(e) => {
                    tw.event(json!({"ev": "xfer_failed", "why": e}));
                    continue;
                }
            };
            // the receiving zone: the version the client claims to have, or
            // (AXFR / unknown serial) unrelated content
            let (rs, rrecs): (i64, Vec<i64>) = if qtype == Rtype::IXFR && from >= 1 && from <= latest {
                versions[(from - 1) as usize].clone()
            } else {
                (if from == 0 { 1 } else { from }, Content::random(&mut rng, &universe, 1, 3).rids())
            };
            let zone2 = build_zone(rs, &rrecs);
            let reqmsg = Message::from_octets(Bytes::from(req.message().as_slice().to_vec())).unwrap();
            let sizes: Vec<usize> = msgs.iter().map(|m| m.as_slice().len()).collect();
            let abs: Vec<Value> = msgs.iter().map(abstract_msg).collect();
            let sender_msgs = msgs.clone();
            // the same messages received through a real stream::Connection
            // (multi-response request): what get_response() hands out
            let octets: Vec<Vec<u8>> = msgs.iter().map(|m| m.as_slice().to_vec()).collect();
            let client = xfr_client::client_run(qtype.to_int(), &octets, &vec![true; octets.len()]);
            let r = std::panic::catch_unwind(std::panic::AssertUnwindSafe(|| {
                rt.block_on(receive(&zone2, &reqmsg, msgs, MAX_N))
            }));
            let (rsteps, rfinal, rpanic) = match r {
                Ok((steps, fin, _)) => (Value::Array(steps), fin, false),
                Err(_) => (json!([]), walk_content(&zone2, MAX_N), true),
            };
            // an IXFR client that holds the current version is told so by the
            // lone SOA (RFC 1995 2/4); nothing is transferred
            let ev = if qtype == Rtype::IXFR && from >= latest { "xfer_utd" } else { "xfer" };
            tw.event(json!({"ev": ev, "req": qtype.to_int(), "from": from, "limit": limit,
                            "reserved": 65535 - limit as u32, "total": sizes.iter().sum::<usize>(),
                            "sizes": sizes, "msgs": abs,
                            "rold": {"soa": rs, "recs": rrecs},
                            "rsteps": rsteps, "rfinal": rfinal, "rpanic": rpanic,
                            "client": client,
                            "sender": walk_content(&zone, MAX_N)}));
            // The same stream with its closing SOA corrupted: same serial,
            // MINIMUM 61 instead of 60 (the last octet of the last message;
            // there is no additional section).  It must never be taken for
            // the end of the transfer.
            let last = sender_msgs.last().unwrap();
            let closing_is_soa = abs.last().and_then(|m| m["an"].as_array().and_then(|a| a.last().cloned()))
                .and_then(|v| v.as_i64()).map(is_soa_id).unwrap_or(false);
            let nrecs: usize = abs.iter().map(|m| m["an"].as_array().map(|a| a.len()).unwrap_or(0)).sum();
            if closing_is_soa && nrecs >= 2 && last.header_counts().arcount() == 0 {
                let mut bad = sender_msgs.clone();
                let mut octets = last.as_slice().to_vec();
                let n = octets.len();
                octets[n - 1] ^= 1;
                *bad.last_mut().unwrap() = Message::from_octets(Bytes::from(octets)).unwrap();
                let abs_bad: Vec<Value> = bad.iter().map(abstract_msg).collect();
                let octets: Vec<Vec<u8>> = bad.iter().map(|m| m.as_slice().to_vec()).collect();
                let client = xfr_client::client_run(qtype.to_int(), &octets, &vec![true; octets.len()]);
                let zone3 = build_zone(rs, &rrecs);
                let r = std::panic::catch_unwind(std::panic::AssertUnwindSafe(|| {
                    rt.block_on(receive(&zone3, &reqmsg, bad, MAX_N))
                }));
                let (rsteps, rfinal, rpanic) = match r {
                    Ok((steps, fin, _)) => (Value::Array(steps), fin, false),
                    Err(_) => (json!([]), walk_content(&zone3, MAX_N), true),
                };
                tw.event(json!({"ev": "xfer_bad", "req": qtype.to_int(), "from": from,
                                "msgs": abs_bad, "rold": {"soa": rs, "recs": rrecs},
                                "rsteps": rsteps, "rfinal": rfinal, "rpanic": rpanic,
                                "client": client}));
            }
        }
        // --- IXFR over UDP: one message within hint - reserved, or the lone
        // SOA that tells the client to retry over TCP (RFC 1995 2)
        for s in 1..latest {
            let hint: u16 = *rng.pick(&[300u16, 512, 1232]);
            let reserved: u16 = rng.below(120) as u16;
            let req = mk_request_on(Rtype::IXFR, s as u32, reserved, Some(hint));
            match rt.block_on(serve(provider.clone(), &req)) {
                Ok(msgs) => {
                    let sizes: Vec<usize> = msgs.iter().map(|m| m.as_slice().len()).collect();
                    let abs: Vec<Value> = msgs.iter().map(abstract_msg).collect();
                    tw.event(json!({"ev": "xfer_udp", "from": s, "hint": hint, "reserved": reserved,
                                    "sizes": sizes, "msgs": abs,
                                    "rold": {"soa": versions[(s - 1) as usize].0, "recs": versions[(s - 1) as usize].1}}));
                }
                Err(e) => tw.event(json!({"ev": "xfer_failed", "why": e})),
            }
        }
    }
    let n = tw.finish();
    println!("events {}", n);
}
