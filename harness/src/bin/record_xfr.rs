//! I->S recorder for C10: drives the real *sender*.
//!
//! A real in-memory `Zone` with random content goes through a random
//! sequence of committed changes (the `InMemoryZoneDiff`s are collected from
//! the commits); the zone + diffs are served through
//! `XfrMiddlewareSvc::preprocess` over a TCP context (with reserved bytes so
//! that responses are split into several messages) for AXFR and for IXFR
//! from every older serial, from the current serial and from an unknown one.
//! Each response stream is recorded, then fed through a real
//! `XfrResponseInterpreter` + `ZoneUpdater` into a second zone; the two
//! zones' walks are logged.  spec/Trace_Xfr.tla validates every event.
//!
//! usage: record_xfr <trace.ndjson> <seed> <rounds>
#[path = "../xfr.rs"]
mod xfr;

use bytes::Bytes;
use domain::base::iana::Class;
use domain::base::{Message, MessageBuilder, Record, Rtype, Serial, Ttl};
use domain::net::server::message::{
    NonUdpTransportContext, Request, TransportSpecificContext, UdpTransportContext,
};
use domain::net::server::middleware::xfr::{
    XfrData, XfrDataProvider, XfrDataProviderError, XfrMiddlewareSvc,
};
use domain::net::server::service::{
    CallResult, Service, ServiceError, ServiceFeedback, ServiceResult,
};
use domain::zonetree::types::ZoneUpdate;
use domain::zonetree::update::ZoneUpdater;
use domain::zonetree::{InMemoryZoneDiff, StoredName, Zone};
use futures_util::stream::Once;
use futures_util::StreamExt;
use serde_json::{json, Value};
use std::collections::BTreeSet;
use std::future::{ready, Future, Ready};
use std::ops::ControlFlow;
use std::pin::Pin;
use std::sync::Arc;
use tokio::sync::Semaphore;
use verif_harness::common::*;
use xfr::*;

const MAX_N: i64 = 7;

#[derive(Clone)]
struct NextSvc;
impl Service<Vec<u8>, ()> for NextSvc {
    type Target = Vec<u8>;
    type Stream = Once<Ready<ServiceResult<Self::Target>>>;
    type Future = Ready<Self::Stream>;
    fn call(&self, _request: Request<Vec<u8>, ()>) -> Self::Future {
        unreachable!()
    }
}

#[derive(Clone)]
struct ZoneWithDiffs {
    zone: Zone,
    diffs: Vec<Arc<InMemoryZoneDiff>>,
}

impl XfrDataProvider<()> for ZoneWithDiffs {
    type Diff = Arc<InMemoryZoneDiff>;
    fn request<Octs>(
        &self,
        _req: &Request<Octs, ()>,
        diff_from: Option<Serial>,
    ) -> Pin<
        Box<
            dyn Future<Output = Result<XfrData<Self::Diff>, XfrDataProviderError>>
                + Sync
                + Send
                + '_,
        >,
    >
    where
        Octs: octseq::Octets + Send + Sync,
    {
        let diffs = match diff_from {
            Some(s) => match self.diffs.iter().position(|d| d.start_serial == s) {
                Some(i) => self.diffs[i..].to_vec(),
                None => vec![],
            },
            None => vec![],
        };
        Box::pin(ready(Ok(XfrData::new(self.zone.clone(), diffs, false))))
    }
}

/// `udp_hint`: None = TCP context; Some(h) = UDP context with response size
/// hint h.  `reserved` octets are reserved in the request, as an outer
/// middleware (TSIG, EDNS) does for the RR it appends to every response.
fn mk_request_on(qtype: Rtype, serial: u32, reserved: u16, udp_hint: Option<u16>) -> Request<Vec<u8>, ()> {
    let mut b = MessageBuilder::new_vec();
    b.header_mut().set_id(REQ_ID);
    let mut q = b.question();
    q.push((apex(), qtype)).unwrap();
    let msg = if qtype == Rtype::IXFR {
        let mut a = q.authority();
        a.push((apex(), Class::IN, Ttl::from_secs(TTL), soa_of(serial))).unwrap();
        a.into_message()
    } else {
        q.into_message()
    };
    let mut req = Request::new(
        "127.0.0.1:12345".parse().unwrap(),
        tokio::time::Instant::now(),
        msg,
        match udp_hint {
            None => TransportSpecificContext::NonUdp(NonUdpTransportContext::new(None)),
            Some(h) => TransportSpecificContext::Udp(UdpTransportContext::new(Some(h))),
        },
        (),
    );
    req.reserve_bytes(reserved);
    req
}

fn mk_request(qtype: Rtype, serial: u32, limit: u16) -> Request<Vec<u8>, ()> {
    mk_request_on(qtype, serial, 65535 - limit, None)
}

fn abstract_msg(m: &Message<Bytes>) -> Value {
    let h = m.header();
    let c = m.header_counts();
    let mut qd = vec![];
    for q in m.question().flatten() {
        let wrong = if q.qname() == &apex() { 0 } else { 1 };
        qd.push(json!([wrong, q.qtype().to_int()]));
    }
    let mut an = vec![];
    let mut an_ok = true;
    match m.answer() {
        Ok(sec) => {
            for r in sec.limit_to::<domain::rdata::ZoneRecordData<Bytes, domain::base::ParsedName<Bytes>>>() {
                match r {
                    Ok(r) => an.push(parsed_id(&r, MAX_N)),
                    Err(_) => an_ok = false,
                }
            }
        }
        Err(_) => an_ok = false,
    }
    json!({"id": if h.id() == REQ_ID {1} else {0}, "qr": h.qr() as u8, "op": h.opcode().to_int(),
           "rc": h.rcode().to_int(), "tc": h.tc() as u8, "qd": qd, "qdc": c.qdcount(),
           "an": an, "anc": c.ancount(), "nsc": c.nscount(), "arc": c.arcount(), "parse_ok": an_ok})
}

async fn serve(provider: ZoneWithDiffs, req: &Request<Vec<u8>, ()>) -> Result<Vec<Message<Bytes>>, String> {
    let res = XfrMiddlewareSvc::<Vec<u8>, NextSvc, (), ZoneWithDiffs>::preprocess(
        Arc::new(Semaphore::new(1)),
        Arc::new(Semaphore::new(1)),
        req,
        provider,
    )
    .await;
    let mut stream = match res {
        Ok(ControlFlow::Break(s)) => s,
        Ok(ControlFlow::Continue(())) => return Err("not handled".into()),
        Err(rc) => return Err(format!("rcode {rc}")),
    };
    let mut out = vec![];
    while let Some(item) = stream.next().await {
        let item: Result<CallResult<Vec<u8>>, ServiceError> = item;
        let cr = item.map_err(|e| format!("service error {e}"))?;
        let end = matches!(cr.feedback(), Some(ServiceFeedback::EndTransaction));
        if let Some(b) = cr.into_inner().0 {
            let octets: Vec<u8> = b.as_message().as_slice().to_vec();
            out.push(Message::from_octets(Bytes::from(octets)).map_err(|_| "short message".to_string())?);
        }
        if end {
            break;
        }
    }
    Ok(out)
}

fn rec(id: i64) -> Record<StoredName, StoredData> {
    Record::new(owner_of(id), Class::IN, Ttl::from_secs(TTL), data_of(id))
}

fn main() {
    let args: Vec<String> = std::env::args().collect();
    let path = args.get(1).cloned().unwrap_or_else(|| "trace.ndjson".into());
    let seed: u64 = args.get(2).and_then(|s| s.parse().ok()).unwrap_or_else(seed);
    let rounds: usize = args.get(3).and_then(|s| s.parse().ok()).unwrap_or(3);
    let mut rng = Rng::new(seed);
    let mut tw = TraceWriter::create(&path);
    let rt = tokio::runtime::Builder::new_multi_thread()
        .worker_threads(2)
        .enable_all()
        .build()
        .unwrap();
    let universe: Vec<i64> = (1..=4 * (MAX_N + 1)).collect();
    for round in 0..rounds {
        // Every second round the real SOA serials straddle the 2^32 wrap: the
        // version with index `wrap_at` (2 or 3; there are always >= 3
        // versions) has serial 0, the ones before it 4294967295, 4294967294.
        // All logged serials are version indexes (TLC never sees the raw value).
        let wrap_at: u32 = if round % 2 == 1 { 2 + rng.below(2) as u32 } else { 0 };
        let base: u32 = 0u32.wrapping_sub(wrap_at);
        SERIAL_BASE.store(base, std::sync::atomic::Ordering::SeqCst);
        // --- the sender zone and its history
        let mut cur: BTreeSet<i64> =
            universe.iter().cloned().filter(|_| rng.chance(1, 2)).collect();
        let zone = build_zone(1, &cur.iter().cloned().collect::<Vec<_>>());
        let mut versions: Vec<(i64, Vec<i64>)> = vec![(1, cur.iter().cloned().collect())];
        tw.event(json!({"ev": "new", "round": round, "serial_base": base.to_string(), "want": versions[0].1,
                        "walk": walk_content(&zone, MAX_N)}));
        let mut diffs: Vec<Arc<InMemoryZoneDiff>> = vec![];
        let ncommits = 2 + rng.below(3) as i64;
        for k in 0..ncommits {
            let serial = 2 + k;
            let before = walk_content(&zone, MAX_N);
            // every record is touched at most once per write session
            let mut toggles: BTreeSet<i64> = BTreeSet::new();
            for _ in 0..(1 + rng.below(6)) {
                toggles.insert(*rng.pick(&universe));
            }
            let diff = rt.block_on(async {
                let mut up: ZoneUpdater<StoredName> = ZoneUpdater::new(zone.clone()).await.unwrap();
                for id in &toggles {
                    if cur.contains(id) {
                        up.apply(ZoneUpdate::DeleteRecord(rec(*id))).await.unwrap();
                    } else {
                        up.apply(ZoneUpdate::AddRecord(rec(*id))).await.unwrap();
                    }
                }
                up.apply(ZoneUpdate::Finished(rec(SOA_BASE + serial))).await.unwrap()
            });
            for id in &toggles {
                if !cur.remove(id) {
                    cur.insert(*id);
                }
            }
            versions.push((serial, cur.iter().cloned().collect()));
            tw.event(json!({"ev": "commit", "serial": serial, "before": before,
                            "toggles": toggles.iter().cloned().collect::<Vec<_>>(),
                            "want": cur.iter().cloned().collect::<Vec<_>>(),
                            "after": walk_content(&zone, MAX_N),
                            "diff": match &diff { Some(d) => diff_json(d, MAX_N), None => json!({"none": true}) }}));
            if let Some(d) = diff {
                diffs.push(Arc::new(d));
            }
        }
        let latest = versions.last().unwrap().0;
        tw.event(json!({"ev": "hist", "versions": versions.iter().map(|(s, r)| json!({"s": s, "recs": r})).collect::<Vec<_>>()}));
        let provider = ZoneWithDiffs { zone: zone.clone(), diffs: diffs.clone() };
        // --- transfers: AXFR, IXFR from every serial incl. the current one and an unknown one
        let mut plans: Vec<(Rtype, i64)> = vec![(Rtype::AXFR, 0)];
        for s in 1..=latest {
            plans.push((Rtype::IXFR, s));
        }
        plans.push((Rtype::IXFR, 50));
        for (qtype, from) in plans {
            let limit = if rng.chance(1, 4) { 60000 } else { 220 + rng.below(400) as u16 };
            let req = mk_request(qtype, from as u32, limit);
            let msgs = match rt.block_on(serve(provider.clone(), &req)) {
                Ok(m) => m,
                Err(e) => {
                    tw.event(json!({"ev": "xfer_failed", "why": e}));
                    continue;
                }
            };
            // the receiving zone: the version the client claims to have, or
            // (AXFR / unknown serial) unrelated content
            let (rs, rrecs): (i64, Vec<i64>) = if qtype == Rtype::IXFR && from <= latest {
                versions[(from - 1) as usize].clone()
            } else {
                (if from == 0 { 1 } else { from },
                 universe.iter().cloned().filter(|_| rng.chance(1, 3)).collect())
            };
            let zone2 = build_zone(rs, &rrecs);
            let reqmsg = Message::from_octets(Bytes::from(req.message().as_slice().to_vec())).unwrap();
            let sizes: Vec<usize> = msgs.iter().map(|m| m.as_slice().len()).collect();
            let abs: Vec<Value> = msgs.iter().map(abstract_msg).collect();
            let sender_msgs = msgs.clone();
            let r = std::panic::catch_unwind(std::panic::AssertUnwindSafe(|| {
                rt.block_on(receive(&zone2, &reqmsg, msgs, MAX_N))
            }));
            let (rsteps, rfinal, rpanic) = match r {
                Ok((steps, fin, _)) => (Value::Array(steps), fin, false),
                Err(_) => (json!([]), walk_content(&zone2, MAX_N), true),
            };
            tw.event(json!({"ev": "xfer", "req": qtype.to_int(), "from": from, "limit": limit,
                            "reserved": 65535 - limit as u32, "total": sizes.iter().sum::<usize>(),
                            "sizes": sizes, "msgs": abs,
                            "rold": {"soa": rs, "recs": rrecs},
                            "rsteps": rsteps, "rfinal": rfinal, "rpanic": rpanic,
                            "sender": walk_content(&zone, MAX_N)}));
            // The same stream with its closing SOA corrupted: same serial,
            // MINIMUM 61 instead of 60 (the last octet of the last message;
            // there is no additional section).  It must never be taken for
            // the end of the transfer.
            let last = sender_msgs.last().unwrap();
            let closing_is_soa = abs.last().and_then(|m| m["an"].as_array().and_then(|a| a.last().cloned()))
                .and_then(|v| v.as_i64()).map(is_soa_id).unwrap_or(false);
            let nrecs: usize = abs.iter().map(|m| m["an"].as_array().map(|a| a.len()).unwrap_or(0)).sum();
            if closing_is_soa && nrecs >= 2 && last.header_counts().arcount() == 0 {
                let mut bad = sender_msgs.clone();
                let mut octets = last.as_slice().to_vec();
                let n = octets.len();
                octets[n - 1] ^= 1;
                *bad.last_mut().unwrap() = Message::from_octets(Bytes::from(octets)).unwrap();
                let abs_bad: Vec<Value> = bad.iter().map(abstract_msg).collect();
                let zone3 = build_zone(rs, &rrecs);
                let r = std::panic::catch_unwind(std::panic::AssertUnwindSafe(|| {
                    rt.block_on(receive(&zone3, &reqmsg, bad, MAX_N))
                }));
                let (rsteps, rfinal, rpanic) = match r {
                    Ok((steps, fin, _)) => (Value::Array(steps), fin, false),
                    Err(_) => (json!([]), walk_content(&zone3, MAX_N), true),
                };
                tw.event(json!({"ev": "xfer_bad", "req": qtype.to_int(), "from": from,
                                "msgs": abs_bad, "rold": {"soa": rs, "recs": rrecs},
                                "rsteps": rsteps, "rfinal": rfinal, "rpanic": rpanic}));
            }
        }
        // --- IXFR over UDP: one message within hint - reserved, or the lone
        // SOA that tells the client to retry over TCP (RFC 1995 2)
        for s in 1..latest {
            let hint: u16 = *rng.pick(&[300u16, 512, 1232]);
            let reserved: u16 = rng.below(120) as u16;
            let req = mk_request_on(Rtype::IXFR, s as u32, reserved, Some(hint));
            match rt.block_on(serve(provider.clone(), &req)) {
                Ok(msgs) => {
                    let sizes: Vec<usize> = msgs.iter().map(|m| m.as_slice().len()).collect();
                    let abs: Vec<Value> = msgs.iter().map(abstract_msg).collect();
                    tw.event(json!({"ev": "xfer_udp", "from": s, "hint": hint, "reserved": reserved,
                                    "sizes": sizes, "msgs": abs,
                                    "rold": {"soa": versions[(s - 1) as usize].0, "recs": versions[(s - 1) as usize].1}}));
                }
                Err(e) => tw.event(json!({"ev": "xfer_failed", "why": e})),
            }
        }
    }
    let n = tw.finish();
    println!("events {}", n);
}
