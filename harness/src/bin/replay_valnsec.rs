//! C14, hook H3 (`domain::dnssec::validator::verif`, cfg(domain_verif)):
//! the validator's private denial-proof range helpers driven directly with
//! the cases of spec/MC_Covers.tla.
//!   kind "nsec":  nsec_in_range(target, owner, next)          -> {"covers":b}
//!   kind "nsec3": nsec3_in_range(target, owner, next)         -> {"covers":b}
//!   kind "label": nsec3_label_to_hash(label)                  -> {"ok":b}

use bytes::Bytes;
use domain::base::name::{Label, Name};
use domain::dnssec::validator::verif::{nsec3_in_range, nsec3_label_to_hash, nsec_in_range};
use domain::rdata::nsec3::OwnerHash;
use serde_json::{json, Value};
use verif_harness::common::{bytes_of, run_cases};

fn name_of(v: &Value) -> Name<Bytes> {
    let mut wire = Vec::new();
    for l in v.as_array().cloned().unwrap_or_default() {
        let b = bytes_of(&l);
        wire.push(b.len() as u8);
        wire.extend_from_slice(&b);
    }
    wire.push(0);
    Name::from_octets(Bytes::from(wire)).expect("name")
}

fn hash_of(v: &Value) -> OwnerHash<Vec<u8>> {
    let x = v.as_u64().unwrap_or(0) as u8;
    OwnerHash::from_octets(vec![x; 20]).expect("hash")
}

fn main() {
    run_cases(|input| match input["kind"].as_str().unwrap_or("") {
        "nsec" => {
            let r = nsec_in_range(
                &name_of(&input["target"]),
                &name_of(&input["owner"]),
                &name_of(&input["next"]),
            );
            json!({"covers": r})
        }
        "nsec3" => {
            let r = nsec3_in_range(
                &hash_of(&input["target"]),
                &hash_of(&input["owner"]),
                &hash_of(&input["next"]),
            );
            json!({"covers": r})
        }
        "label" => {
            let b = bytes_of(&input["label"]);
            let l = Label::from_slice(&b).expect("label");
            json!({"ok": nsec3_label_to_hash(l).is_ok()})
        }
        _ => json!({"badkind": true}),
    });
}
