//! I->S recorder for X07.
//!
//!   record_zonesigner zones  <out.ndjson> <seed> <nzones> [minrecs maxrecs]
//!   record_zonesigner sorted <out.ndjson> <seed> <nops>
//!
//! zones: seeded random zones of 50-300 records (every record type the zone
//! record data enum knows how to parse here, delegations with and without DS
//! with glue at, below and beside them, occluded names, empty non-terminals,
//! wildcards, CNAMEs, mixed-case owners, names outside the zone on both
//! sides) signed by the real `sign_zone` with one or two real Ed25519 keys;
//! one event per call (see spec/Trace_ZoneSigner.tla).
//! sorted: a random call sequence on one SortedRecords collection.
#[path = "../dnssec.rs"]
mod dnssec;
#[path = "../zonesigner.rs"]
mod zonesigner;

use bytes::Bytes;
use dnssec::*;
use domain::base::iana::Rtype;
use domain::base::name::{ToLabelIter, ToName};
use domain::dnssec::sign::keys::SigningKey;
use domain::dnssec::sign::records::SortedRecords;
use domain::rdata::dnssec::Timestamp;
use domain::rdata::ZoneRecordData;
use serde_json::{json, Value};
use verif_harness::common::{Rng, TraceWriter};
use zonesigner::*;

const TYPES: [u16; 20] = [1, 12, 13, 15, 16, 17, 28, 33, 35, 39, 43, 44, 48, 59, 60, 61, 64, 65, 257, 65280];
const TTLS: [u32; 6] = [0, 60, 300, 3600, 86400, 7];

fn label(rng: &mut Rng) -> Vec<u8> {
    const L: [&[u8]; 12] = [b"a", b"b", b"c", b"A", b"B", b"ns", b"www", b"mail", b"x1", b"Zz", b"0", b"long-label-with-hyphens"];
    rng.pick(&L).to_vec()
}

fn jn(labels: &[Vec<u8>]) -> Value {
    Value::Array(labels.iter().map(|l| jbytes(l)).collect())
}

/// RRset entries `{n, t, ttl, cnt}` of a random zone
fn random_zone(rng: &mut Rng, apex: &[Vec<u8>], target: usize) -> Vec<Value> {
    let mut ents: Vec<Value> = vec![];
    let mut total = 0usize;
    let push = |ents: &mut Vec<Value>, n: &[Vec<u8>], t: u16, ttl: u32, cnt: u64, total: &mut usize| {
        let low: Vec<Vec<u8>> = n.iter().map(|l| l.to_ascii_lowercase()).collect();
        if ents.iter().any(|e| e["low"] == jn(&low) && e["t"] == t) {
            return;
        }
        ents.push(json!({"n": jn(n), "low": jn(&low), "t": t, "ttl": ttl, "cnt": cnt}));
        *total += cnt as usize;
    };
    let soa_ttl = *rng.pick(&[3600u32, 100, 86400]);
    push(&mut ents, apex, 6, soa_ttl, 1, &mut total);
    push(&mut ents, apex, 2, 3600, 2, &mut total);
    for t in [48u16, 59, 60, 1, 15, 16] {
        if rng.chance(1, 2) {
            push(&mut ents, apex, t, *rng.pick(&TTLS), 1 + rng.below(2), &mut total);
        }
    }
    // names outside the zone, before and after it
    for o in [vec![b"a".to_vec()], vec![b"zz".to_vec()], vec![b"b".to_vec(), b"zz".to_vec()]] {
        if rng.chance(1, 2) {
            push(&mut ents, &o, 1, 60, 1, &mut total);
        }
    }
    let mut cuts: Vec<Vec<Vec<u8>>> = vec![];
    let mut owners: Vec<Vec<Vec<u8>>> = vec![];
    while total < target {
        // an owner: fresh below the apex, below an existing owner, or below a cut
        let mut n: Vec<Vec<u8>> = match rng.below(10) {
            0..=3 => apex.to_vec(),
            4..=6 if !owners.is_empty() => rng.pick(&owners).clone(),
            7..=8 if !cuts.is_empty() => rng.pick(&cuts).clone(),
            _ => apex.to_vec(),
        };
        for _ in 0..(1 + rng.below(2)) {
            if n.len() < 6 {
                n.insert(0, label(rng));
            }
        }
        if rng.chance(1, 10) {
            n[0] = b"*".to_vec();
        }
        if n.len() == apex.len() {
            continue;
        }
        let ttl = *rng.pick(&TTLS);
        match rng.below(12) {
            0 | 1 => {
                // a delegation: NS, maybe DS, maybe data at the cut
                push(&mut ents, &n, 2, 3600, 1 + rng.below(2), &mut total);
                if rng.chance(1, 2) {
                    push(&mut ents, &n, 43, ttl, 1 + rng.below(2), &mut total);
                }
                if rng.chance(1, 3) {
                    push(&mut ents, &n, 1, 60, 1, &mut total);
                }
                if rng.chance(1, 5) {
                    push(&mut ents, &n, 6, 3600, 1, &mut total);
                }
                cuts.push(n.clone());
            }
            2 => push(&mut ents, &n, 5, ttl, 1, &mut total),
            _ => {
                for _ in 0..(1 + rng.below(3)) {
                    let t = *rng.pick(&TYPES);
                    let cnt = if t == 39 { 1 } else { 1 + rng.below(3) };
                    push(&mut ents, &n, t, *rng.pick(&TTLS), cnt, &mut total);
                }
            }
        }
        owners.push(n);
    }
    for e in ents.iter_mut() {
        e.as_object_mut().unwrap().remove("low");
    }
    ents
}

/// RRset entries of a record list in its order: `[{n, t, ttl, cnt}]`
fn entries(recs: &[SRecord], skip_rrsig: bool) -> Result<Vec<Value>, String> {
    let mut out: Vec<Value> = vec![];
    let mut last: Option<(SName, Rtype, u32)> = None;
    for r in recs {
        if skip_rrsig && r.rtype() == Rtype::RRSIG {
            continue;
        }
        match &last {
            Some((n, t, ttl)) if n.name_eq(r.owner()) && *t == r.rtype() => {
                if *ttl != r.ttl().as_secs() {
                    return Err("TTLs differ inside an RRset".into());
                }
                let k = out.len() - 1;
                out[k]["cnt"] = json!(out[k]["cnt"].as_u64().unwrap() + 1);
            }
            _ => {
                out.push(json!({"n": jname(r.owner()), "t": r.rtype().to_int(), "ttl": r.ttl().as_secs(), "cnt": 1}));
                last = Some((r.owner().clone(), r.rtype(), r.ttl().as_secs()));
            }
        }
    }
    Ok(out)
}

fn sig_list(recs: &[SRecord], tags: &[(u8, u16)]) -> Result<Vec<Value>, String> {
    let mut v = vec![];
    for r in recs {
        if let ZoneRecordData::Rrsig(s) = r.data() {
            let ki = tags.iter().position(|(a, t)| *a == s.algorithm().to_int() && *t == s.key_tag())
                .ok_or("RRSIG of an unknown key")?;
            v.push(json!({
                "n": jname_lower(r.owner()), "cov": s.type_covered().to_int(), "key": ki + 1,
                "alg": s.algorithm().to_int(), "labels": s.labels(), "ttl": r.ttl().as_secs(),
                "ottl": s.original_ttl().as_secs(),
                "exp": jbytes(&s.expiration().into_int().to_be_bytes()),
                "inc": jbytes(&s.inception().into_int().to_be_bytes()),
                "tag": s.key_tag(), "signer": jname_lower(s.signer_name()),
            }));
        }
    }
    Ok(v)
}

fn zones(path: &str, seed: u64, nzones: u64, minr: usize, maxr: usize) {
    let mut rng = Rng::new(seed);
    let mut tw = TraceWriter::create(path);
    let rt = tokio::runtime::Builder::new_current_thread().enable_time().build().expect("rt");
    for zi in 0..nzones {
        let apex_l: Vec<Vec<u8>> = match rng.below(3) {
            0 => vec![b"ex".to_vec()],
            1 => vec![b"Example".to_vec(), b"org".to_vec()],
            _ => vec![b"z".to_vec(), b"ex".to_vec()],
        };
        let target = minr + rng.below((maxr - minr + 1) as u64) as usize;
        let ents = random_zone(&mut rng, &apex_l, target);
        let soa_min = *rng.pick(&[300u32, 7200, 60]);
        let recs = match records_of_rrsets(&Value::Array(ents), soa_min) {
            Ok(r) => r,
            Err(e) => panic!("zone construction: {e}"),
        };
        let apex = name_of(&jn(&apex_l));
        let den = *rng.pick(&["nsec", "nsec", "nsec3", "optout", "none"]);
        let mode = if rng.chance(1, 5) { "into" } else { "inplace" };
        let slen = 1 + rng.below(4) as usize;
        let salt = if rng.chance(1, 2) { vec![] } else { rng.bytes(slen) };
        let iters = rng.below(3) as u16;
        let nkeys = 1 + rng.below(2) as usize;
        let mut rks: Vec<RealKey> = (0..nkeys).map(|i| real_key(&apex, if i == 0 { 257 } else { 256 })).collect();
        rks.sort_by_key(|k| k.dnskey.key_tag()); // collection order of RRSIGs = key order
        let krefs: Vec<&SigningKey<Bytes, _>> = rks.iter().map(|k| &k.key).collect();
        let tags: Vec<(u8, u16)> = rks.iter().map(|k| (k.dnskey.algorithm().to_int(), k.dnskey.key_tag())).collect();
        let now = Timestamp::now().into_int();
        let (inc, exp) = (now.wrapping_sub(3600), now.wrapping_add(14 * 86400));
        let zone = assemble(&recs, zi as usize);
        let before: Vec<SRecord> = zone.iter().cloned().collect();
        let (res, after, out) = run_sign(zone, &apex, mode, denial_config(den, &salt, iters).unwrap(), inc, exp, &krefs);
        let mut signed = after.clone();
        signed.extend(out.iter().cloned());
        let signed_sorted: Coll = SortedRecords::from(signed.clone());
        let signed: Vec<SRecord> = signed_sorted.iter().cloned().collect();
        let rrefs: Vec<&RealKey> = rks.iter().collect();
        let verified = verify_all(&signed, &rrefs);
        // ask the validator about every RRset that carries an RRSIG
        let mut ask: Vec<(SName, u16)> = vec![];
        for r in &signed {
            if let ZoneRecordData::Rrsig(s) = r.data() {
                let wild = r.owner().iter_labels().next().map(|l| l.is_wildcard()).unwrap_or(false);
                let t = s.type_covered();
                if wild || t == Rtype::NSEC3 || (mode == "into" && !(t == Rtype::NSEC || t == Rtype::NSEC3PARAM)) {
                    continue;
                }
                if !ask.iter().any(|(n, tt)| n.name_eq(r.owner()) && *tt == t.to_int()) {
                    ask.push((r.owner().clone(), t.to_int()));
                }
            }
        }
        // (sign-into as built leaves the SOA unsigned: no NODATA probe there)
        let validated = if mode == "into" { Ok(0) } else { validate_all(&rt, &signed, &apex, &rks[0], &ask) };
        if let Err(e) = &verified {
            eprintln!("zone {zi}: verification: {e}");
        }
        if let Err(e) = &validated {
            eprintln!("zone {zi}: validation: {e}");
        }
        let keys: Vec<Value> = rks.iter().map(|k| json!({
            "flags": k.dnskey.flags(), "proto": k.dnskey.protocol(), "alg": k.dnskey.algorithm().to_int(),
            "pub": jbytes(k.dnskey.public_key().as_ref()), "owner": jname(&apex)})).collect();
        tw.event(json!({
            "ev": "sign", "seed": seed, "zi": zi, "apex": jname(&apex), "den": den, "mode": mode,
            "err": res.is_err(), "keys": keys,
            "inc": jbytes(&inc.to_be_bytes()), "exp": jbytes(&exp.to_be_bytes()),
            "zone": entries(&before, false).expect("entries"),
            "full": entries(&signed, true).expect("entries"),
            "sigs": sig_list(&signed, &tags).expect("sigs"),
            "nrecs": before.len(), "intact": same_records(&before, &recs),
            "verified": verified.is_ok(), "validated": validated.is_ok(),
        }));
        // a refused / accepted validity period on the same zone
        let (i2, e2) = match rng.below(4) {
            0 => (now, now.wrapping_sub(1)),
            1 => (now, now.wrapping_add(0x8000_0000)),
            2 => (now, now.wrapping_add(0x8000_0001)),
            _ => (0xFFFF_FF00, 5),
        };
        let zone = assemble(&recs, 0);
        let (res, after, out) = run_sign(zone, &apex, "inplace", denial_config(den, &salt, iters).unwrap(), i2, e2, &krefs);
        let nsigs = after.iter().chain(out.iter()).filter(|r| r.rtype() == Rtype::RRSIG).count();
        let rest: Vec<SRecord> = after.iter().filter(|r| {
            !matches!(r.rtype(), Rtype::RRSIG | Rtype::NSEC | Rtype::NSEC3 | Rtype::NSEC3PARAM)
        }).cloned().collect();
        tw.event(json!({"ev": "refused", "seed": seed, "zi": zi, "apex": jname(&apex), "den": den, "mode": "inplace",
                        "inc": jbytes(&i2.to_be_bytes()), "exp": jbytes(&e2.to_be_bytes()),
                        "err": res.is_err(), "nsigs": nsigs, "intact": same_records(&rest, &recs)}));
    }
    let n = tw.finish();
    println!("RECORDED {n}");
}

fn sorted(path: &str, seed: u64, nops: u64) {
    let mut rng = Rng::new(seed);
    let mut tw = TraceWriter::create(path);
    let apex = name_of(&json!([[101, 120]]));
    let mut c: Coll = SortedRecords::default();
    let owners: Vec<Vec<Vec<u8>>> = vec![
        vec![b"ex".to_vec()], vec![b"a".to_vec(), b"ex".to_vec()], vec![b"A".to_vec(), b"EX".to_vec()],
        vec![b"b".to_vec(), b"ex".to_vec()], vec![b"*".to_vec(), b"ex".to_vec()],
        vec![b"a".to_vec(), b"b".to_vec(), b"ex".to_vec()], vec![b"c".to_vec(), b"a".to_vec(), b"ex".to_vec()],
        vec![b"zz".to_vec()], vec![b"a".to_vec()],
    ];
    let rec = |rng: &mut Rng| -> Value {
        let n = jn(rng.pick(&owners[..]).as_slice());
        match rng.below(3) {
            0 => json!({"n": n, "t": 1, "ttl": 60, "rd": [192, 0, 2, rng.below(6)]}),
            1 => json!({"n": n, "t": 16, "ttl": 300, "rd": [1, 97 + rng.below(4)]}),
            _ => json!({"n": n, "t": 2, "ttl": 3600, "rd": [1, 97 + rng.below(3), 0]}),
        }
    };
    for seq in 0..nops {
        let mut ev = match rng.below(10) {
            0 if seq % 40 == 0 => {
                let b: Vec<Value> = (0..rng.below(20)).map(|_| rec(&mut rng)).collect();
                let op = json!({"op": "from", "batch": b});
                apply_op(&mut c, &op);
                json!({"ev": "from", "batch": op["batch"]})
            }
            0..=2 => {
                let b: Vec<Value> = (0..rng.below(12)).map(|_| rec(&mut rng)).collect();
                let op = json!({"op": "extend", "batch": b});
                apply_op(&mut c, &op);
                json!({"ev": "extend", "batch": op["batch"]})
            }
            3..=6 => {
                let r = rec(&mut rng);
                let res = apply_op(&mut c, &json!({"op": "insert", "r": r}));
                json!({"ev": "insert", "r": r, "ok": res["ok"]})
            }
            7 | 8 => {
                let n = jn(rng.pick(&owners[..]).as_slice());
                let t = *rng.pick(&[0u16, 1, 16, 2]);
                let res = apply_op(&mut c, &json!({"op": "remove_all", "n": n, "t": t, "class": rng.chance(1, 2)}));
                json!({"ev": "remove_all", "n": n, "t": t, "res": res})
            }
            _ => {
                // remove_first where at most one record matches
                let n = jn(rng.pick(&owners[..]).as_slice());
                let t = *rng.pick(&[1u16, 16, 2]);
                let name = name_of(&n);
                let m = c.iter().filter(|r| r.owner().name_eq(&name) && r.rtype().to_int() == t).count();
                if m > 1 {
                    continue;
                }
                let res = apply_op(&mut c, &json!({"op": "remove_first", "n": n, "t": t, "class": rng.chance(1, 2)}));
                json!({"ev": "remove_first", "n": n, "t": t, "res": res})
            }
        };
        ev["seq"] = json!(seq);
        ev["after"] = Value::Array(c.iter().map(jrec).collect());
        ev["groups"] = Value::Array(c.owner_rrs().map(|g| json!(g.records().count())).collect());
        ev["rrsets"] = Value::Array(c.rrsets().map(|s| json!(s.len())).collect());
        let _ = &apex;
        tw.event(ev);
    }
    let n = tw.finish();
    println!("RECORDED {n}");
}

fn main() {
    let a: Vec<String> = std::env::args().collect();
    let seed: u64 = a.get(3).and_then(|s| s.parse().ok()).unwrap_or(1);
    let n: u64 = a.get(4).and_then(|s| s.parse().ok()).unwrap_or(5);
    match a.get(1).map(|s| s.as_str()) {
        Some("zones") => {
            let minr = a.get(5).and_then(|s| s.parse().ok()).unwrap_or(50);
            let maxr = a.get(6).and_then(|s| s.parse().ok()).unwrap_or(300);
            zones(&a[2], seed, n, minr, maxr)
        }
        Some("sorted") => sorted(&a[2], seed, n),
        _ => {
            eprintln!("usage: record_zonesigner zones|sorted <out> <seed> <n>");
            std::process::exit(2);
        }
    }
}
