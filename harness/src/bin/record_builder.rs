//! I->S recorder for MsgBuilder.tla (C02): drives the real message builder
//! with random call sequences (up to 200 calls per run) over generated
//! names (shared suffixes, case variants, odd octets, 63-octet labels, a
//! 255-octet name) and records of many types, on every compressor and
//! target, and logs one event per public call with its arguments, result,
//! length, counts and stream prefix; the final octets are logged in full.
//! "edge" runs open with answer() and one filler record that ends at an
//! offset around 0x3FFF / 0x4000, then keep cutting back to and writing at
//! these offsets (small push limits, rewinds, backward conversions).
//! usage: record_builder <out.ndjson> <seed> <max-events> [small|large|edge]
#[path = "../builder.rs"]
mod builder;

use builder::*;
use serde_json::json;
use std::panic::{catch_unwind, AssertUnwindSafe};
use verif_harness::common::*;

fn rand_label(rng: &mut Rng) -> Vec<u8> {
    let len = match rng.below(20) {
        0 => 63,
        1 => 1 + rng.below(40) as usize,
        _ => 1 + rng.below(6) as usize,
    };
    let odd = rng.chance(1, 8);
    (0..len)
        .map(|_| {
            if odd {
                *rng.pick(&[0u8, 46, 92, 192, 255, 64, 128, 32, 65, 90, 97, 122])
            } else if rng.chance(1, 6) {
                b'A' + rng.below(26) as u8
            } else {
                b'a' + rng.below(26) as u8
            }
        })
        .collect()
}

fn wire_len(n: &Labels) -> usize {
    1 + n.iter().map(|l| 1 + l.len()).sum::<usize>()
}

fn name_pool(rng: &mut Rng) -> Vec<Labels> {
    let mut pool: Vec<Labels> = vec![vec![]];
    let n = 6 + rng.below(8) as usize;
    while pool.len() < n {
        let base = rng.pick(&pool).clone();
        let keep = rng.below(base.len() as u64 + 1) as usize;
        let mut name: Labels = base[base.len() - keep..].to_vec();
        match rng.below(5) {
            0 if !name.is_empty() => {
                // a case variant of a suffix that exists
                for l in name.iter_mut() {
                    for b in l.iter_mut() {
                        if b.is_ascii_alphabetic() && rng.chance(1, 2) {
                            *b ^= 0x20;
                        }
                    }
                }
            }
            _ => {
                for _ in 0..1 + rng.below(3) {
                    name.insert(0, rand_label(rng));
                }
            }
        }
        if wire_len(&name) <= 255 {
            pool.push(name);
        }
    }
    // a name of exactly 255 octets on top of a suffix from the pool
    let mut name = rng.pick(&pool).clone();
    while wire_len(&name) > 100 {
        name.remove(0);
    }
    while wire_len(&name) < 255 {
        let room = 255 - wire_len(&name);
        let l = if room >= 64 { 63 } else { room - 1 };
        if l == 0 {
            // one octet of room cannot hold a label: grow the last one added
            name[0].push(b'z');
            if name[0].len() > 63 {
                break;
            }
            continue;
        }
        name.insert(0, vec![b'm' + (name.len() % 3) as u8; l]);
    }
    if wire_len(&name) == 255 && name.iter().all(|l| !l.is_empty() && l.len() <= 63) {
        pool.push(name);
    }
    pool
}

fn charstr(rng: &mut Rng) -> Vec<u8> {
    let n = rng.below(12) as usize;
    let mut v = vec![n as u8];
    v.extend(rng.bytes(n));
    v
}

fn rand_record(rng: &mut Rng, pool: &[Labels], big: bool) -> Item {
    let name = rng.pick(pool).clone();
    let nm = |rng: &mut Rng| rng.pick(pool).clone();
    let mut ttl = [0u8; 4];
    let t = rng.bytes(4);
    ttl.copy_from_slice(&t);
    ttl[0] &= 0x7f;
    let class = if rng.chance(1, 10) { 3 } else { 1 };
    if big {
        let n = match rng.below(4) {
            0 => 129 * (20 + rng.below(200) as usize),
            1 => 16300 + rng.below(120) as usize,
            _ => 3000 + rng.below(17000) as usize,
        };
        let rtype = if n % 129 == 0 { 16 } else { *rng.pick(&[65280u16, 10]) };
        return Item { question: false, name, rtype, class, ttl, rd: vec![Part::F(n)] };
    }
    let kinds: [u16; 30] = [
        1, 1, 2, 2, 2, 3, 4, 5, 5, 6, 7, 8, 9, 12, 13, 14, 15, 15, 16, 17, 28, 33, 35, 39, 43,
        46, 47, 48, 10, 65280,
    ];
    let rtype = *rng.pick(&kinds);
    let rd = match rtype {
        1 => vec![Part::O(rng.bytes(4))],
        28 => vec![Part::O(rng.bytes(16))],
        2 | 3 | 4 | 5 | 7 | 8 | 9 | 12 => vec![Part::N(nm(rng), true)],
        6 => vec![Part::N(nm(rng), true), Part::N(nm(rng), true), Part::O(rng.bytes(20))],
        13 => {
            let mut o = charstr(rng);
            o.extend(charstr(rng));
            vec![Part::O(o)]
        }
        14 | 17 => vec![Part::N(nm(rng), true), Part::N(nm(rng), true)],
        15 => vec![Part::O(rng.bytes(2)), Part::N(nm(rng), true)],
        16 => {
            let mut o = vec![];
            for _ in 0..1 + rng.below(3) {
                o.extend(charstr(rng));
            }
            vec![Part::O(o)]
        }
        33 => vec![Part::O(rng.bytes(6)), Part::N(nm(rng), false)],
        35 => {
            let mut o = rng.bytes(4);
            o.extend(charstr(rng));
            o.extend(charstr(rng));
            o.extend(charstr(rng));
            vec![Part::O(o), Part::N(nm(rng), false)]
        }
        39 => vec![Part::N(nm(rng), false)],
        43 => {
            let n = 4 + rng.below(32) as usize;
            vec![Part::O(rng.bytes(n))]
        }
        46 => {
            let n = 1 + rng.below(40) as usize;
            vec![Part::O(rng.bytes(18)), Part::N(nm(rng), false), Part::O(rng.bytes(n))]
        }
        47 => vec![Part::N(nm(rng), false), Part::O(vec![0, 1, 0x40])],
        48 => {
            let n = 4 + rng.below(40) as usize;
            vec![Part::O(rng.bytes(n))]
        }
        _ => {
            let n = rng.below(40) as usize;
            if n == 0 { vec![] } else { vec![Part::O(rng.bytes(n))] }
        }
    };
    Item { question: false, name, rtype, class, ttl, rd }
}

fn rand_opt(rng: &mut Rng) -> Item {
    let mut o = vec![];
    for _ in 0..rng.below(3) {
        let n = rng.below(12) as usize;
        o.extend_from_slice(&[0, *rng.pick(&[3u8, 10, 12])]);
        o.extend_from_slice(&(n as u16).to_be_bytes());
        o.extend(rng.bytes(n));
    }
    Item {
        question: false,
        name: vec![],
        rtype: 41,
        class: *rng.pick(&[512u16, 1232, 4096]),
        ttl: [0, 0, if rng.chance(1, 2) { 0x80 } else { 0 }, 0],
        rd: if o.is_empty() { vec![] } else { vec![Part::O(o)] },
    }
}

fn main() {
    quiet_panics();
    let args: Vec<String> = std::env::args().collect();
    let mut w = TraceWriter::create(&args[1]);
    let mut rng = Rng::new(args[2].parse().unwrap_or(1));
    let max: u64 = args[3].parse().unwrap_or(1500);
    // "small": no filler records, messages stay far below 16384 octets;
    // "large": most runs carry filler records and cross 0x3FFF / approach 0xFFFF
    let edge = args.get(4).map(|s| s == "edge").unwrap_or(false);
    let large = edge || args.get(4).map(|s| s == "large").unwrap_or(false);
    let comps = if edge { ["tree", "static", "tree", "hash"] } else { ["none", "static", "tree", "hash"] };
    let tgts: &[&str] = if edge {
        &["vec", "bytes", "stream", "sbytes"]
    } else {
        &["vec", "bytes", "array", "stream", "stream", "vec", "sarray", "sbytes"]
    };
    let mut run_no = 0u64;
    let mut panics = 0u64;
    while w.n < max {
        let comp = comps[(run_no % 4) as usize];
        let tgt = *rng.pick(tgts);
        run_no += 1;
        let pool = name_pool(&mut rng);
        // some runs are meant to grow large
        let grow = !edge && large && tgt != "array" && tgt != "sarray" && rng.chance(3, 4);
        let spec_tgt = match tgt {
            "bytes" => "vec",
            "sbytes" => "stream",
            t => t,
        };
        let alt = rng.chance(1, 2);
        w.event(json!({"ev": "new", "comp": comp, "tgt": spec_tgt, "real_tgt": tgt,
                       "cap": cap_of(tgt)}));
        let outcome = catch_unwind(AssertUnwindSafe(|| {
            let mut events = vec![];
            let mut d = make(comp, tgt, alt);
            let mut id_masked: Option<u16> = None;
            // an edge run: answer(), one filler record that ends at `end`
            let end = 16380 + rng.below(7) as usize;
            let mut prelude = if edge { 2 } else { 0 };
            let mut acc: Vec<(u8, Item)> = vec![];
            let mut noop = true;
            let mut shim_ok = true;
            let nops = if edge { 10 + rng.below(40) } else if grow { 80 + rng.below(121) } else { 20 + rng.below(181) };
            // how often sections change, are rewound, a limit is set / cleared
            let (t_goto, t_rewind, t_limit, t_clear) = if edge { (10, 24, 38, 44) } else { (12, 17, 24, 28) };
            for _ in 0..nops {
                // any public entry point for the call (see builder::Drive)
                let route = rng.next() as u32;
                d.set_route(route);
                let sec = d.section();
                // runs that are meant to grow rewind less often
                let roll = if grow && rng.chance(2, 3) { 28 + rng.below(72) } else { rng.below(100) };
                let mut ev;
                if prelude == 2 {
                    prelude = 1;
                    d.goto(2);
                    ev = json!({"ev": "goto", "s": 2});
                } else if prelude == 1 {
                    prelude = 0;
                    let name = rng.pick(&pool).clone();
                    let n = end - 12 - wire_len(&name) - 10;
                    let it = Item { question: false, name, rtype: 65280, class: 1,
                                    ttl: [0, 0, 14, 16], rd: vec![Part::F(n)] };
                    let ok = d.push(&it, None);
                    assert!(ok && d.len() == end, "filler record of an edge run");
                    acc.push((2, it.clone()));
                    ev = json!({"ev": "push", "item": item_to_json(&it), "res": "ok"});
                } else if sec == 0 && rng.chance(1, 3) {
                    // start_answer / start_error / request_axfr
                    let kind = *rng.pick(&["answer", "answer", "error", "error", "axfr"]);
                    let nq = if kind == "axfr" { 1 } else { rng.below(4) as usize };
                    let qs: Vec<Item> = (0..nq)
                        .map(|_| Item {
                            question: true,
                            name: rng.pick(&pool).clone(),
                            rtype: if kind == "axfr" { 252 } else { *rng.pick(&[1u16, 28, 255]) },
                            class: if kind == "axfr" { 1 } else { *rng.pick(&[1u16, 1, 3]) },
                            ttl: [0; 4],
                            rd: vec![],
                        })
                        .collect();
                    let mut rq = [0u8; 4];
                    if kind != "axfr" {
                        rq.copy_from_slice(&rng.bytes(4));
                    }
                    let rc = rng.below(16) as u8;
                    let res = d.start(kind, rq, rc, &qs);
                    ev = json!({"ev": "start", "kind": kind, "rq": rq.to_vec(), "rc": rc,
                                "qs": qs.iter().map(item_to_json).collect::<Vec<_>>(),
                                "res": res});
                    if res == "gone" {
                        ev["route"] = json!(route % 1000);
                        events.push(ev);
                        return events;
                    }
                    let n = d.counts()[0] as usize;
                    for q in qs.iter().take(n) {
                        acc.push((1, q.clone()));
                    }
                    id_masked = if kind == "axfr" { Some(0) } else { None };
                } else if rng.chance(1, 25) {
                    let mut h = [0u8; 4];
                    h.copy_from_slice(&rng.bytes(4));
                    d.set_header(h);
                    id_masked = None;
                    ev = json!({"ev": "hdr", "h": h.to_vec()});
                } else if roll < t_goto || sec == 0 {
                    // section change; mostly forward
                    let s = if sec < 4 && (sec == 0 || rng.chance(if grow { 19 } else { 7 }, if grow { 20 } else { 10 })) {
                        sec + 1 + rng.below((4 - sec) as u64) as u8
                    } else {
                        rng.below(5) as u8
                    };
                    let s = if sec == 0 && rng.chance(1, 2) { 1 } else { s };
                    // an edge run stays behind its filler record
                    let s = if edge { 2 + rng.below(3) as u8 } else { s };
                    if s < sec {
                        drop_above(&mut acc, s);
                    }
                    d.goto(s);
                    ev = json!({"ev": "goto", "s": s});
                } else if roll < t_rewind {
                    acc.retain(|(x, _)| *x != sec);
                    d.rewind();
                    ev = json!({"ev": "rewind"});
                } else if roll < t_limit {
                    let len = d.len();
                    let n = match rng.below(6) {
                        _ if edge => len + 8 + rng.below(40) as usize,
                        _ if grow && rng.chance(3, 4) => len + 2000 + rng.below(40000) as usize,
                        0 => len.saturating_sub(rng.below(20) as usize),
                        1 => len + 300 + rng.below(3000) as usize,
                        _ => len + rng.below(150) as usize,
                    };
                    d.set_limit(Some(n));
                    ev = json!({"ev": "limit", "n": n});
                } else if roll < t_clear {
                    d.set_limit(None);
                    ev = json!({"ev": "clear"});
                } else {
                    let it = if sec == 1 {
                        Item {
                            question: true,
                            name: rng.pick(&pool).clone(),
                            rtype: *rng.pick(&[1u16, 2, 15, 28, 255, 252]),
                            class: *rng.pick(&[1u16, 1, 3, 255]),
                            ttl: [0; 4],
                            rd: vec![],
                        }
                    } else if sec == 4 && rng.chance(1, 8) {
                        rand_opt(&mut rng)
                    } else {
                        let big = grow && rng.chance(1, 6);
                        rand_record(&mut rng, &pool, big)
                    };
                    if !valid_item(&it) {
                        continue;
                    }
                    // the property speaks about messages up to 65535 octets
                    if cap_of(tgt) > 65535 && d.len() + plain_item(&it).len() > 65535 {
                        continue;
                    }
                    // an OPT push may set an extended RCODE
                    let rc = if it.rtype == 41 && rng.chance(1, 3) {
                        Some(*rng.pick(&[0u16, 0, 1, 5, 255]) * 16 + rng.below(16) as u16)
                    } else {
                        None
                    };
                    let mut it = it;
                    if it.rtype == 41 {
                        it.ttl[0] = rc.map(|r| (r >> 4) as u8).unwrap_or(0);
                    }
                    let before = (d.octets(), d.stream());
                    let ok = d.push(&it, rc);
                    if ok {
                        acc.push((sec, it.clone()));
                    } else {
                        let mut after = (d.octets(), d.stream());
                        // (what a failed OPT push does to the RCODE in the
                        // header is decided by the specification)
                        if rc.is_some() {
                            after.0[3] = (after.0[3] & 0xf0) | (before.0[3] & 0x0f);
                            if let (Some(a), Some(b)) = (after.1.as_mut(), before.1.as_ref()) {
                                a[5] = (a[5] & 0xf0) | (b[5] & 0x0f);
                            }
                        }
                        if after != before {
                            noop = false;
                        }
                    }
                    ev = json!({"ev": "push", "item": item_to_json(&it),
                                "res": if ok { "ok" } else { "err" }});
                    if let Some(rc) = rc {
                        ev["rc"] = json!(rc);
                    }
                }
                let len = d.len();
                let shim = match d.stream() {
                    Some(s) => {
                        if s.len() != len + 2 {
                            shim_ok = false;
                        }
                        u16::from_be_bytes([s[0], s[1]]) as usize
                    }
                    None => len,
                };
                let hd = d.header();
                ev["route"] = json!(route % 1000);
                ev["id"] = json!(id_masked.unwrap_or(u16::from_be_bytes([hd[0], hd[1]])));
                ev["fl"] = json!(u16::from_be_bytes([hd[2], hd[3]]));
                ev["len"] = json!(len);
                ev["cnt"] = json!(d.counts());
                ev["shim"] = json!(shim);
                events.push(ev);
                if !grow && prelude == 0 && rng.chance(1, 60) {
                    break;
                }
            }
            let (octets, stream) = d.finish();
            if let Some(s) = &stream {
                if s.len() != octets.len() + 2
                    || u16::from_be_bytes([s[0], s[1]]) as usize != octets.len()
                    || s[2..] != octets[..]
                {
                    shim_ok = false;
                }
            }
            let lib = library_reparse(&octets, &acc)
                .and_then(|_| library_reparse2(&octets, &acc, run_no as u32));
            events.push(json!({"ev": "finish", "octets": octets, "lib": lib.is_ok(),
                               "libwhy": lib.err().unwrap_or_default(),
                               "noop": noop, "shim_ok": shim_ok}));
            events
        }));
        match outcome {
            Ok(events) => {
                for e in events {
                    w.event(e);
                }
            }
            Err(_) => {
                panics += 1;
                w.event(json!({"ev": "panic"}));
            }
        }
    }
    let n = w.finish();
    println!("events {} runs {} panics {}", n, run_no, panics);
}
