//! I->S recorder for Trace_Cache.tla: drives the real `cache::Connection`
//! with a long seeded random history (queries over ~30 names with all
//! RD/CD/AD/DO combinations and spellings, realistic upstream answers of all
//! classes, irregular clock steps with sub-second parts) under tokio's paused
//! clock and logs one event per public call.
//! usage: record_cache <out.ndjson> <seed> <steps> <config: default|min|mixed|random>
#[path = "../cache.rs"]
mod cache;

use cache::*;
use serde_json::{json, Value};
use std::time::Duration;
use verif_harness::common::*;

const TICK_TTLS: [u64; 12] = [0, 1, 2, 5, 5, 30, 60, 61, 300, 3600, 3600, 86400];
/// record TTLs, including one larger than every configurable bound
const TTLS: [u64; 14] = [0, 1, 2, 5, 5, 30, 60, 61, 300, 3600, 3600, 86400, 2000000, 2000000];

fn rr(o: &str, t: &str, ttl: u64, id: u64) -> Value {
    json!({"o": o, "t": t, "c": "IN", "ttl": ttl, "rd": id})
}

/// A well-behaved upstream: DNSSEC records and OPT only for DO queries, AD
/// only when the query had AD or DO, the question echoed as asked.
fn upstream_answer(rng: &mut Rng, q: &Value) -> Value {
    let name = q["name"].as_str().unwrap().to_string();
    let qt = q["qtype"].as_str().unwrap().to_string();
    let dok = q["do"].as_bool().unwrap();
    let may_ad = dok || q["ad"].as_bool().unwrap();
    let cls = rng.below(20);
    if cls == 0 {
        return json!({"err": *rng.pick(&["ConnectionClosed", "StreamReadTimeout", "NoTransportAvailable"])});
    }
    let t1 = *rng.pick(&TTLS);
    let t2 = if rng.chance(1, 2) { t1 } else { *rng.pick(&TTLS) };
    let t3 = if rng.chance(1, 2) { t1 } else { *rng.pick(&TTLS) };
    let zone = "example";
    let mut an: Vec<Value> = vec![];
    let mut ns: Vec<Value> = vec![];
    let mut ar: Vec<Value> = vec![];
    let mut rcode = "NOERROR";
    let mut aa = rng.chance(2, 3);
    let mut tc = false;
    let sig = |v: &mut Vec<Value>, o: &str, ttl: u64, id: u64| {
        if dok {
            v.push(rr(o, "RRSIG", ttl, id));
        }
    };
    // RFC 2308 type 1 / type 2 negative answers: SOA alone, SOA then NS, or
    // NS then SOA -- the class does not depend on the order
    let soa = |v: &mut Vec<Value>, rng: &mut Rng| {
        let shape = rng.below(4);
        let push_ns = |v: &mut Vec<Value>| {
            v.push(rr(zone, "NS", t2, 1));
            v.push(rr(zone, "NS", t2, 2));
            if dok {
                v.push(rr(zone, "RRSIG", t2, 2));
            }
        };
        if shape == 2 {
            push_ns(v);
        }
        v.push(rr(zone, "SOA", t2, 2024000000 + rng.below(3)));
        if dok {
            v.push(rr(zone, "RRSIG", t2, 8));
        }
        if shape == 3 {
            push_ns(v);
        }
        if dok {
            let nt = if rng.chance(1, 6) { "NSEC3" } else { "NSEC" };
            v.push(rr(&name, nt, t3, 3));
            v.push(rr(&name, "RRSIG", t3, 4));
        }
    };
    match cls {
        1..=8 | 18 => {
            // answer (one to three records), sometimes with authority + glue
            let n = 1 + rng.below(3);
            for i in 0..n {
                an.push(rr(&name, &qt, t1, 1 + i));
            }
            sig(&mut an, &name, t1, 1);
            if rng.chance(1, 2) {
                ns.push(rr(zone, "NS", t2, 1));
                ns.push(rr(zone, "NS", t2, 2));
                sig(&mut ns, zone, t2, 2);
                ar.push(rr("t1.example", "A", t3, 9));
                sig(&mut ar, "t1.example", t3, 10);
                if rng.chance(1, 2) {
                    ar.push(rr("t2.example", "AAAA", t3, 9));
                    sig(&mut ar, "t2.example", t3, 11);
                }
            }
            if cls == 18 {
                tc = true;
            }
        }
        9 | 10 => {
            // CNAME chain, with or without a final answer
            an.push(rr(&name, "CNAME", t1, 5));
            sig(&mut an, &name, t1, 5);
            if cls == 9 {
                an.push(rr("t5.example", &qt, t2, 2));
                sig(&mut an, "t5.example", t2, 6);
            } else {
                soa(&mut ns, rng);
            }
        }
        11 | 12 => soa(&mut ns, rng), // NODATA
        13 | 14 => {
            rcode = "NXDOMAIN";
            soa(&mut ns, rng);
        }
        15 => {
            // referral
            aa = false;
            ns.push(rr(&name, "NS", t2, 3));
            ns.push(rr(&name, "NS", t2, 4));
            if dok {
                ns.push(rr(&name, "DS", t2, 77));
                ns.push(rr(&name, "RRSIG", t2, 7));
            }
            ar.push(rr("t3.example", "A", t3, 3));
            sig(&mut ar, "t3.example", t3, 12);
        }
        16 => {
            rcode = *rng.pick(&["SERVFAIL", "REFUSED", "FORMERR", "NOTIMP"]);
            aa = false;
        }
        17 => {
            // NOERROR with neither answer nor SOA nor NS
            aa = false;
            if rng.chance(1, 2) {
                ar.push(rr("t4.example", "A", t3, 4));
            }
        }
        _ => {
            // NXDOMAIN without SOA
            rcode = "NXDOMAIN";
        }
    }
    if dok {
        ar.push(json!({"o": ".", "t": "OPT", "c": "-", "ttl": 32768, "rd": 0}));
    }
    let nq = q["nq"].as_u64().unwrap_or(1);
    let qd = if nq == 0 {
        json!([])
    } else {
        json!([{"n": name, "cs": q["cs"], "t": qt, "c": q["qclass"]}])
    };
    json!({
        "hdr": {"aa": aa, "tc": tc, "rd": q["rd"], "ra": true,
                "ad": may_ad && rng.chance(2, 3), "cd": q["cd"], "rcode": rcode},
        "qd": qd, "an": an, "ns": ns, "ar": ar
    })
}

/// A construction route (Cache.tla q.route) that reaches the flags of `q`
/// as far as the setters decide them; what an OPT record of the source
/// contributes is for the specification to say.
fn pick_route(rng: &mut Rng, q: &Value) -> Value {
    let flag = |f: &str| q[f].as_bool().unwrap_or(false);
    let mut ops: Vec<Value> = vec![];
    let mut src = json!({"rd": false, "ad": false, "cd": false, "opt": 0});
    for f in ["rd", "ad", "cd"] {
        match rng.below(3) {
            0 => {
                // set through header_mut()
                ops.push(json!([f, if flag(f) { 1 } else { 0 }]));
                src[f] = json!(rng.chance(1, 3));
            }
            _ => src[f] = json!(flag(f)),
        }
    }
    src["opt"] = json!(match rng.below(4) { 0 => 1, 1 => 2, _ => 0 });
    let mut e: Vec<Value> = vec![];
    if flag("do") {
        if rng.chance(1, 4) { e.push(json!(["do", 0])); }
        if rng.chance(1, 4) { e.push(json!(["udp", 1232])); }
        e.push(json!(["do", 1]));
        if rng.chance(1, 4) { e.push(json!(["udp", 4096])); }
    } else {
        match rng.below(6) {
            0 => e.push(json!(["do", 0])),
            1 => e.push(json!(["udp", 1232])),
            2 => { e.push(json!(["do", 1])); e.push(json!(["do", 0])); }
            _ => {}
        }
    }
    // EDNS setters before or after the header ones
    if rng.chance(1, 2) {
        e.extend(ops);
        json!({"src": src, "ops": e})
    } else {
        ops.extend(e);
        json!({"src": src, "ops": ops})
    }
}

fn pick_config(kind: &str, rng: &mut Rng) -> Value {
    match kind {
        "default" => json!({"maxValidity": 604800, "transportFailure": 30, "miscError": 30,
            "maxNxdomain": 3600, "maxNodata": 3600, "maxDelegation": 1000000,
            "cacheTruncated": false, "maxEntries": 100000}),
        "min" => json!({"maxValidity": 60, "transportFailure": 1, "miscError": 1,
            "maxNxdomain": 60, "maxNodata": 60, "maxDelegation": 60,
            "cacheTruncated": false, "maxEntries": 100000}),
        // max_validity below every class bound (transport failures: equal, see
        // the named deviation D_err_exceeds_max_validity, which the S->I
        // cases of Gen_Cache_err cover)
        "tight" => json!({"maxValidity": 100, "transportFailure": 100, "miscError": 300,
            "maxNxdomain": 3600, "maxNodata": 3600, "maxDelegation": 1000000,
            "cacheTruncated": true, "maxEntries": 100000}),
        "mixed" => json!({"maxValidity": 3000, "transportFailure": 2, "miscError": 4,
            "maxNxdomain": 60, "maxNodata": 120, "maxDelegation": 240,
            "cacheTruncated": true, "maxEntries": 100000}),
        _ => json!({"maxValidity": 60 + rng.below(4000), "transportFailure": 1 + rng.below(100),
            "miscError": 1 + rng.below(100), "maxNxdomain": 60 + rng.below(600),
            "maxNodata": 60 + rng.below(600), "maxDelegation": 60 + rng.below(600),
            "cacheTruncated": rng.chance(1, 2), "maxEntries": 100000}),
    }
}

fn main() {
    quiet_panics();
    let args: Vec<String> = std::env::args().collect();
    let mut w = TraceWriter::create(&args[1]);
    let seed: u64 = args[2].parse().unwrap_or(1);
    let steps: u64 = args[3].parse().unwrap_or(2000);
    let kind = args.get(4).map(|s| s.as_str()).unwrap_or("default").to_string();
    let mut rng = Rng::new(seed);
    let cfg = pick_config(&kind, &mut rng);
    let bounds: Vec<u64> = ["maxValidity", "transportFailure", "miscError", "maxNxdomain",
                            "maxNodata", "maxDelegation"]
        .iter().map(|k| cfg[*k].as_u64().unwrap()).collect();
    w.event(json!({"ev": "init", "cfg": cfg}));
    let names: Vec<String> = (0..30).map(|i| format!("n{:02}.example", i)).collect();
    let types = ["A", "A", "A", "AAAA", "AAAA", "MX", "TXT", "NSEC"];
    let rt = runtime();
    let (hits, via_up) = rt.block_on(async {
        let mut drv = Driver::new(&cfg);
        let mut tab = RdTable::default();
        let t0 = tokio::time::Instant::now();
        let mut hits = 0u64;
        let mut ups = 0u64;
        let mut last_q: Option<Value> = None;
        while w.n < steps {
            let now_ms = t0.elapsed().as_millis() as u64;
            // clock step
            if rng.chance(2, 3) && now_ms < 1_400_000_000 {
                let d = match rng.below(30) {
                    0 => 1,
                    1 => 499,
                    2 => 500,
                    3 => 999,
                    4 => 1000,
                    5 => 1001,
                    6 => 1500,
                    7 => 4000 + rng.below(2001),
                    8 => 1000 * *rng.pick(&TICK_TTLS),
                    9 => 1000 * *rng.pick(&TICK_TTLS) + 1,
                    10 => 1000 * *rng.pick(&bounds),
                    11 => 1000 * *rng.pick(&bounds) + 1,
                    12 => 1000 * *rng.pick(&bounds) - 1,
                    13 => rng.below(120_000),
                    _ => rng.below(3000),
                }
                .min(600_000_000);
                if d > 0 {
                    tokio::time::advance(Duration::from_millis(d)).await;
                    w.event(json!({"ev": "tick", "d": d}));
                }
            }
            // query: a few hot names so that the lattice gets exercised
            let q = if last_q.is_some() && rng.chance(1, 4) {
                // the previous question with other flags / spelling
                let mut q = last_q.clone().unwrap();
                for f in ["ad", "do", "rd"] {
                    if rng.chance(1, 2) {
                        q[f] = json!(rng.chance(1, 2));
                    }
                }
                if rng.chance(1, 6) {
                    q["cd"] = json!(rng.chance(1, 2));
                }
                q["cs"] = json!(rng.below(2));
                q
            } else {
                let ni = (rng.below(30)).min(rng.below(30)).min(rng.below(12));
                let mut q = json!({
                    "name": names[ni as usize], "cs": rng.below(2),
                    "qtype": *rng.pick(&types), "qclass": "IN", "op": "QUERY", "nq": 1,
                    "ad": rng.chance(1, 3), "cd": rng.chance(1, 5),
                    "do": rng.chance(1, 3), "rd": rng.chance(2, 3)});
                match rng.below(40) {
                    0 => q["qclass"] = json!("CH"),
                    1 => q["op"] = json!("NOTIFY"),
                    2 => q["nq"] = json!(2),
                    3 => {
                        q["nq"] = json!(0);
                        q["op"] = json!("NOTIFY");
                    }
                    _ => {}
                }
                q
            };
            // how the request is constructed: the flags above are reached
            // by a random route (bits in the source or through header_mut,
            // a source with / without an OPT record, EDNS setters)
            let mut q = q;
            q["route"] = pick_route(&mut rng, &q);
            // a well-behaved upstream answers the query it finds ON THE WIRE
            let wire_q = match wire_message(&build_request(&q, drv.next_id)) {
                Some(m) => {
                    let mut w = project_request(&m);
                    if w["nq"] == json!(0) {
                        w["name"] = q["name"].clone();
                        w["qtype"] = q["qtype"].clone();
                        w["qclass"] = q["qclass"].clone();
                    }
                    w
                }
                None => q.clone(),
            };
            let up_model = upstream_answer(&mut rng, &wire_q);
            let up = build_response(&up_model, drv.next_id, &mut tab);
            let up_shown = project_resp(&up, None);
            let t = t0.elapsed().as_millis() as u64;
            let out = drv.query(&q, up).await;
            let called = !out.upstream.is_empty();
            if called { ups += 1 } else { hits += 1 }
            let mut ev = json!({
                "ev": "query", "t": t, "q": q,
                "upstream": called,
                "up": if called { up_shown } else { json!({"err": "unused"}) },
                "served": project_resp(&out.served, None),
            });
            // forwarded once; what upstream found on the wire is judged by
            // the specification (Trace_Cache: fwd against AskedQ)
            if called {
                if out.upstream.len() != 1 {
                    ev["ev"] = json!("bad_forward");
                } else {
                    ev["fwd"] = project_request(&out.upstream[0]);
                }
            }
            w.event(ev);
            last_q = Some(q);
        }
        (hits, ups)
    });
    let n = w.finish();
    println!("events {} hits {} upstream {}", n, hits, via_up);
}
