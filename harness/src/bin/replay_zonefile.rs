//! S->I executor for ZoneFile.tla cases (C07).
#[path = "../zf.rs"]
mod zf;
use serde_json::Value;
use std::io::BufRead;
use verif_harness::common::*;

fn unescape(s: &str) -> Vec<u8> {
    let b = s.as_bytes();
    let mut out = vec![];
    let mut i = 0;
    while i < b.len() {
        if b[i] == b'\\' && i + 1 < b.len() {
            match b[i + 1] {
                b'n' => { out.push(b'\n'); i += 2; }
                b'r' => { out.push(b'\r'); i += 2; }
                b't' => { out.push(b'\t'); i += 2; }
                b'\\' => { out.push(b'\\'); i += 2; }
                b'x' if i + 3 < b.len() => {
                    let h = std::str::from_utf8(&b[i + 2..i + 4]).unwrap_or("3f");
                    out.push(u8::from_str_radix(h, 16).unwrap_or(b'?'));
                    i += 4;
                }
                _ => { out.push(b[i]); i += 1; }
            }
        } else {
            out.push(b[i]);
            i += 1;
        }
    }
    out
}

const ORIGIN: &[u8] = b"\x01o\x00";

fn probe() {
    quiet_panics();
    let origin = if has_flag("--no-origin") { None } else { Some(ORIGIN) };
    for line in std::io::stdin().lock().lines() {
        let line = line.unwrap();
        let data = unescape(&line);
        let r = std::panic::catch_unwind(|| {
            zf::read_all_raw(&data, &zf::ReadOpts { origin, default_class: Some(1), allow_invalid: false })
        });
        match r {
            Ok((e, err)) => println!("{} => {} err={:?}", zf::show(&data), Value::Array(e), err),
            Err(p) => println!("{} => PANIC {}", zf::show(&data), panic_msg(p)),
        }
    }
}

fn main() {
    if has_flag("--probe") {
        return probe();
    }
    zf::start_watchdog(20);
    run_cases(|input| {
        let text = bytes_of(&input["text"]);
        zf::tick(&zf::show(&text));
        // character-level cases and layout cases share one shape: a text, an
        // optional origin (default "o."), an optional default class (default IN)
        let origin: Option<Vec<u8>> = match input.get("origin") {
            Some(Value::Array(a)) if a.is_empty() => None,
            Some(v @ Value::Array(_)) => Some(bytes_of(v)),
            _ => Some(ORIGIN.to_vec()),
        };
        let class = match input.get("class") {
            Some(Value::Number(n)) => {
                let c = n.as_i64().unwrap_or(1);
                if c < 0 { None } else { Some(c as u16) }
            }
            _ => Some(1),
        };
        let mut obs = zf::read_all(&text, &zf::ReadOpts {
            origin: origin.as_deref(),
            default_class: class,
            allow_invalid: false,
        });
        // integer-boundary cases: TLC's integers end at 2^31 - 1, so the TTL is
        // compared as four big-endian octets
        if input.get("ttl_octets").is_some() {
            if let Some(es) = obs.get_mut("entries").and_then(|e| e.as_array_mut()) {
                for e in es.iter_mut() {
                    if let Some(t) = e.get("ttl").and_then(|t| t.as_u64()) {
                        e["ttl"] = json_bytes(&(t as u32).to_be_bytes());
                    }
                }
            }
        }
        obs
    });
}
