//! S->I executor for ZoneFile.tla cases (C07).
#[path = "../zf.rs"]
mod zf;
#[path = "../zfr.rs"]
mod zfr;
use serde_json::Value;
use std::io::BufRead;
use verif_harness::common::*;

fn unescape(s: &str) -> Vec<u8> {
    let b = s.as_bytes();
    let mut out = vec![];
    let mut i = 0;
    while i < b.len() {
        if b[i] == b'\\' && i + 1 < b.len() {
            match b[i + 1] {
                b'n' => { out.push(b'\n'); i += 2; }
                b'r' => { out.push(b'\r'); i += 2; }
                b't' => { out.push(b'\t'); i += 2; }
                b'\\' => { out.push(b'\\'); i += 2; }
                b'x' if i + 3 < b.len() => {
                    let h = std::str::from_utf8(&b[i + 2..i + 4]).unwrap_or("3f");
                    out.push(u8::from_str_radix(h, 16).unwrap_or(b'?'));
                    i += 4;
                }
                _ => { out.push(b[i]); i += 1; }
            }
        } else {
            out.push(b[i]);
            i += 1;
        }
    }
    out
}

const ORIGIN: &[u8] = b"\x01o\x00";

fn probe() {
    quiet_panics();
    let origin = if has_flag("--no-origin") { None } else { Some(ORIGIN) };
    for line in std::io::stdin().lock().lines() {
        let line = line.unwrap();
        let data = unescape(&line);
        let r = std::panic::catch_unwind(|| {
            zf::read_all_raw(&data, &zf::ReadOpts { origin, default_class: Some(1), allow_invalid: false })
        });
        match r {
            Ok((e, err)) => println!("{} => {} err={:?}", zf::show(&data), Value::Array(e), err),
            Err(p) => println!("{} => PANIC {}", zf::show(&data), panic_msg(p)),
        }
    }
}

fn main() {
    if has_flag("--probe") {
        return probe();
    }
    zf::start_watchdog(20);
    run_cases(|input| {
        let text = bytes_of(&input["text"]);
        zf::tick(&zf::show(&text));
        // character-level cases and layout cases share one shape: a text, an
        // optional origin (default "o."), an optional default class (default IN)
        let origin: Option<Vec<u8>> = match input.get("origin") {
            Some(Value::Array(a)) if a.is_empty() => None,
            Some(v @ Value::Array(_)) => Some(bytes_of(v)),
            _ => Some(ORIGIN.to_vec()),
        };
        let class = match input.get("class") {
            Some(Value::Number(n)) => {
                let c = n.as_i64().unwrap_or(1);
                if c < 0 { None } else { Some(c as u16) }
            }
            _ => Some(1),
        };
        // token-level cases: the data of one entry through the string-token scanner
        if input.get("iter").is_some() {
            let toks: Vec<String> = input["toks"].as_array().map(|a| a.iter()
                .map(|t| String::from_utf8_lossy(&bytes_of(t)).into_owned()).collect()).unwrap_or_default();
            return zfr::iter_scan(input["rtype"].as_u64().unwrap_or(0) as u16, &toks);
        }
        let opts = zf::ReadOpts {
            origin: origin.as_deref(),
            default_class: class,
            allow_invalid: input.get("allow_invalid").and_then(|v| v.as_bool()).unwrap_or(false),
        };
        // the construction route of the reader (default: From<&[u8]>)
        let route = input.get("route").and_then(|v| v.as_str()).unwrap_or("from_slice");
        let mut offs = vec![];
        let mut obs = zfr::read_all_route(route, &text, &opts, &mut offs);
        // what zonetree::parsed makes of the same text
        if let Some(b) = input.get("parsed").and_then(|v| v.as_str()) {
            obs["parsed"] = zfr::parsed_obs(route, &text, &opts, b);
        }
        // integer-boundary cases: TLC's integers end at 2^31 - 1, so the TTL is
        // compared as four big-endian octets
        if input.get("ttl_octets").is_some() {
            if let Some(es) = obs.get_mut("entries").and_then(|e| e.as_array_mut()) {
                for e in es.iter_mut() {
                    if let Some(t) = e.get("ttl").and_then(|t| t.as_u64()) {
                        e["ttl"] = json_bytes(&(t as u32).to_be_bytes());
                    }
                }
            }
        }
        obs
    });
}
