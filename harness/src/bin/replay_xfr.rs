//! S->I executor for spec/Xfr.tla behaviours (C10).
//!
//! A case is one delivered response stream: `in.old` is pre-loaded into a
//! real in-memory `Zone`, every abstract message of `in.msgs` is rendered
//! with the real `MessageBuilder` (name compression on), fed to a real
//! `XfrResponseInterpreter`, the updates are piped into a real `ZoneUpdater`,
//! and after every message the `ZoneUpdate` stream, the errors, the diffs
//! returned by the commits and the content a fresh reader obtains through
//! `walk()` are reported for comparison with the specification.
#[path = "../xfr.rs"]
mod xfr;
use domain::base::iana::Class;
use domain::base::{Record, Ttl};
use domain::zonetree::types::ZoneUpdate;
use domain::zonetree::update::ZoneUpdater;
use domain::zonetree::StoredName;
use serde_json::{json, Value};
use verif_harness::common::*;

fn main() {
    let rt = tokio::runtime::Builder::new_current_thread()
        .enable_all()
        .build()
        .unwrap();
    run_cases(|input| {
        let serial = input["old"]["soa"].as_i64().unwrap_or(1);
        let recs: Vec<i64> = input["old"]["recs"]
            .as_array()
            .map(|a| a.iter().filter_map(|x| x.as_i64()).collect())
            .unwrap_or_default();
        let zone = xfr::build_zone(serial, &recs);
        let req = xfr::request(input["req"].as_u64().unwrap_or(252) as u16);
        let msgs: Vec<_> = input["msgs"]
            .as_array()
            .cloned()
            .unwrap_or_default()
            .iter()
            .map(xfr::render)
            .collect();
        let (steps, fin, _diffs) = rt.block_on(xfr::receive(&zone, &req, msgs, 5));
        // a later, unrelated write session: what the dropped updater left
        // uncommitted must not surface (rollback on drop)
        let probe = rt.block_on(async {
            let mut up: ZoneUpdater<StoredName> = ZoneUpdater::new(zone.clone()).await.unwrap();
            let soa = Record::new(xfr::apex(), Class::IN, Ttl::from_secs(xfr::TTL),
                                  xfr::data_of(xfr::SOA_BASE + 90));
            let _ = up.apply(ZoneUpdate::Finished(soa)).await;
            drop(up);
            xfr::walk_content(&zone, 5)
        });
        json!({"steps": Value::Array(steps), "final": fin, "probe": probe})
    });
}
