//! S->I executor for BaseN.tla cases.
use domain::base::scan::{ConvertSymbols, EntrySymbol, Symbol};
use domain::utils::{base16, base32, base64};
use serde_json::{json, Value};
use verif_harness::common::*;

fn res_json(r: Result<Vec<u8>, ()>) -> Value {
    match r {
        Ok(v) => json!({"ok": json_bytes(&v)}),
        Err(_) => json!({"err": true}),
    }
}

/// push every character (continuing after errors), then finalize
fn machine(codec: &str, text: &[char]) -> (Value, bool) {
    let mut results = vec![];
    let fin = match codec {
        "b16" => {
            let mut d = base16::Decoder::<Vec<u8>>::new();
            for c in text {
                results.push(d.push(*c).is_ok());
            }
            d.finalize().map_err(|_| ())
        }
        "b32" => {
            let mut d = base32::Decoder::<Vec<u8>>::new_hex();
            for c in text {
                results.push(d.push(*c).is_ok());
            }
            d.finalize().map_err(|_| ())
        }
        _ => {
            let mut d = base64::Decoder::<Vec<u8>>::new();
            for c in text {
                results.push(d.push(*c).is_ok());
            }
            d.finalize().map_err(|_| ())
        }
    };
    // sticky: after the first error every later push reports an error
    let sticky = match results.iter().position(|ok| !ok) {
        Some(i) => results[i..].iter().all(|ok| !ok),
        None => true,
    };
    (res_json(fin), sticky)
}

fn decode(codec: &str, s: &str) -> Value {
    res_json(match codec {
        "b16" => base16::decode::<Vec<u8>>(s).map_err(|_| ()),
        "b32" => base32::decode_hex::<Vec<u8>>(s).map_err(|_| ()),
        _ => base64::decode::<Vec<u8>>(s).map_err(|_| ()),
    })
}

fn conv_run<C: ConvertSymbols<EntrySymbol, std::io::Error>>(
    mut c: C,
    text: &[char],
) -> Result<Vec<u8>, ()> {
    let mut out = vec![];
    for (i, ch) in text.iter().enumerate() {
        // a token boundary after every second character: chunking must not matter
        if i > 0 && i % 2 == 0 {
            if let Some(d) = c.process_symbol(EntrySymbol::EndOfToken).map_err(|_| ())? {
                out.extend_from_slice(d);
            }
        }
        if let Some(d) = c
            .process_symbol(EntrySymbol::Symbol(Symbol::Char(*ch)))
            .map_err(|_| ())?
        {
            out.extend_from_slice(d);
        }
    }
    if let Some(d) = c.process_tail().map_err(|_| ())? {
        out.extend_from_slice(d);
    }
    Ok(out)
}

fn conv(codec: &str, text: &[char]) -> Value {
    res_json(match codec {
        "b16" => conv_run(base16::SymbolConverter::new(), text),
        "b32" => conv_run(base32::SymbolConverter::new(), text),
        _ => conv_run(base64::SymbolConverter::new(), text),
    })
}

/// The same text through the real zone-file reader: a record whose last
/// field is a Base-N blob, with the text split into tokens of two characters
/// (token boundaries must not matter).
fn scan(codec: &str, text: &[char]) -> Value {
    let mut toks = String::new();
    for (i, c) in text.iter().enumerate() {
        if codec != "b32" && i > 0 && i % 2 == 0 {
            toks.push(' ');
        }
        toks.push(*c);
    }
    scan_bytes(codec, toks.as_bytes())
}

/// `toks`: the blob field(s) as they stand in the zone file
fn scan_bytes(codec: &str, toks: &[u8]) -> Value {
    use domain::base::iana::Class;
    use domain::base::rdata::ComposeRecordData;
    use domain::zonefile::inplace::{Entry, Zonefile};
    // prefix = RDATA octets that precede the blob
    let (head, tail, prefix): (&str, &str, usize) = match codec {
        "b16" => ("x. 3600 IN DS 1 8 2 ", "\n", 4),
        "b32" => ("x. 3600 IN NSEC3 1 0 0 - ", " A\n", 6),
        _ => ("x. 3600 IN OPENPGPKEY ", "\n", 0),
    };
    let mut line = head.as_bytes().to_vec();
    line.extend_from_slice(toks);
    line.extend_from_slice(tail.as_bytes());
    let mut zf = Zonefile::new();
    zf.set_default_class(Class::IN);
    zf.extend_from_slice(&line);
    match zf.next_entry() {
        Ok(Some(Entry::Record(r))) => {
            let mut rd = Vec::new();
            if r.data().compose_rdata(&mut rd).is_err() {
                return json!({"err": true});
            }
            let blob = match codec {
                // NSEC3: alg flags iter(2) saltlen(=0) hashlen hash bitmap(A = 00 01 40)
                "b32" => rd[prefix..rd.len() - 3].to_vec(),
                _ => rd[prefix..].to_vec(),
            };
            json!({"ok": json_bytes(&blob)})
        }
        _ => json!({"err": true}),
    }
}

/// The same text through the string-token scanner (`IterScanner`, used by
/// the `scan`/from-string paths of the record data types), tokens of two
/// characters.
fn iscan(codec: &str, text: &[char]) -> Value {
    let mut toks: Vec<String> = vec![];
    for (i, c) in text.iter().enumerate() {
        if codec == "b32" {
            if i == 0 { toks.push(String::new()); }
        } else if i % 2 == 0 {
            toks.push(String::new());
        }
        toks.last_mut().unwrap().push(*c);
    }
    iscan_toks(codec, toks)
}

fn iscan_toks(codec: &str, toks: Vec<String>) -> Value {
    use domain::base::rdata::ComposeRecordData;
    use domain::base::scan::IterScanner;
    use domain::rdata::{Ds, Nsec3, Openpgpkey};
    let mut rd = Vec::new();
    match codec {
        "b16" => {
            let mut all = vec!["1".to_string(), "8".into(), "2".into()];
            all.extend(toks);
            let mut sc = IterScanner::<_, Vec<u8>>::new(all);
            match Ds::scan(&mut sc) {
                Ok(v) if sc.is_exhausted() => {
                    v.compose_rdata(&mut rd).unwrap();
                    json!({"ok": json_bytes(&rd[4..])})
                }
                _ => json!({"err": true}),
            }
        }
        "b32" => {
            let mut all = vec!["1".to_string(), "0".into(), "0".into(), "-".into()];
            all.extend(toks);
            all.push("A".into());
            let mut sc = IterScanner::<_, Vec<u8>>::new(all);
            match Nsec3::scan(&mut sc) {
                Ok(v) if sc.is_exhausted() => {
                    v.compose_rdata(&mut rd).unwrap();
                    json!({"ok": json_bytes(&rd[6..rd.len() - 3])})
                }
                _ => json!({"err": true}),
            }
        }
        _ => {
            let mut sc = IterScanner::<_, Vec<u8>>::new(toks);
            match Openpgpkey::scan(&mut sc) {
                Ok(v) if sc.is_exhausted() => {
                    v.compose_rdata(&mut rd).unwrap();
                    json!({"ok": json_bytes(&rd)})
                }
                _ => json!({"err": true}),
            }
        }
    }
}

/// RDATA of the single record in `line` as the zone-file reader builds it
fn zf_rdata(line: &[u8]) -> Result<Vec<u8>, ()> {
    use domain::base::iana::Class;
    use domain::base::rdata::ComposeRecordData;
    use domain::zonefile::inplace::{Entry, Zonefile};
    let mut zf = Zonefile::new();
    zf.set_default_class(Class::IN);
    zf.extend_from_slice(line);
    match zf.next_entry() {
        Ok(Some(Entry::Record(r))) => {
            let mut rd = Vec::new();
            r.data().compose_rdata(&mut rd).map_err(|_| ())?;
            Ok(rd)
        }
        _ => Err(()),
    }
}

fn line_with(head: &str, field: &[u8]) -> Vec<u8> {
    let mut l = head.as_bytes().to_vec();
    l.extend_from_slice(field);
    l.push(b'\n');
    l
}

/// NSEC3PARAM: alg flags iter(2) saltlen salt
fn salt_zf(field: &[u8]) -> Value {
    res_json(zf_rdata(&line_with("x. 3600 IN NSEC3PARAM 1 0 10 ", field)).map(|rd| rd[5..].to_vec()))
}

fn salt_iter(tok: String) -> Value {
    use domain::base::rdata::ComposeRecordData;
    use domain::base::scan::IterScanner;
    use domain::rdata::Nsec3param;
    let mut sc = IterScanner::<_, Vec<u8>>::new(vec!["1".to_string(), "0".into(), "10".into(), tok]);
    res_json(match Nsec3param::scan(&mut sc) {
        Ok(v) if sc.is_exhausted() => {
            let mut rd = Vec::new();
            v.compose_rdata(&mut rd).unwrap();
            Ok(rd[5..].to_vec())
        }
        _ => Err(()),
    })
}

fn salt_str(s: &str) -> Value {
    use domain::rdata::nsec3::Nsec3Salt;
    use std::str::FromStr;
    res_json(Nsec3Salt::<Vec<u8>>::from_str(s).map(|v| v.as_slice().to_vec()).map_err(|_| ()))
}

fn ohash_str(s: &str) -> Value {
    use domain::rdata::nsec3::OwnerHash;
    use std::str::FromStr;
    res_json(OwnerHash::<Vec<u8>>::from_str(s).map(|v| v.as_slice().to_vec()).map_err(|_| ()))
}

/// SVCB: priority(2) target(root = 1 octet) key(2) len(2) value
fn ech_zf(field: &[u8]) -> Value {
    res_json(zf_rdata(&line_with("x. 3600 IN SVCB 1 . ech=", field)).map(|rd| rd[7..].to_vec()))
}

/// Other users of the codecs with their own glue code: the NSEC3 salt
/// (Base16 behind a wrapper converter, single token), `OwnerHash::from_str`
/// (Base32) and the SVCB `ech` parameter (Base64 converter driven by hand).
fn users(codec: &str, text: &[char]) -> Value {
    let s: String = text.iter().collect();
    match codec {
        "b16" => json!({"salt_zf": salt_zf(s.as_bytes()), "salt_iter": salt_iter(s.clone()),
                        "salt_str": salt_str(&s)}),
        "b32" => json!({"ohash_str": ohash_str(&s)}),
        _ => json!({"ech_zf": ech_zf(s.as_bytes())}),
    }
}

//------------ the symbol level ------------------------------------------------

/// An entry symbol of a case: {"k": "c"|"s"|"d"|"e", "v": n}
fn esym_of(v: &Value) -> EntrySymbol {
    let n = v["v"].as_u64().unwrap_or(0);
    match v["k"].as_str() {
        Some("c") => EntrySymbol::Symbol(Symbol::Char(char::from_u32(n as u32).unwrap_or('?'))),
        Some("s") => EntrySymbol::Symbol(Symbol::SimpleEscape(n as u8)),
        Some("d") => EntrySymbol::Symbol(Symbol::DecimalEscape(n as u8)),
        _ => EntrySymbol::EndOfToken,
    }
}

/// `process_symbol` call by call up to the first error, then `process_tail`:
/// (per-call results, overall result)
fn conv_steps<C: ConvertSymbols<EntrySymbol, std::io::Error>>(
    mut c: C,
    esyms: &[EntrySymbol],
) -> (Vec<Value>, Value) {
    let mut steps = vec![];
    let mut out = vec![];
    for s in esyms {
        match c.process_symbol(*s) {
            Ok(d) => {
                let d = d.map(|d| d.to_vec()).unwrap_or_default();
                out.extend_from_slice(&d);
                steps.push(json!({"ok": json_bytes(&d)}));
            }
            Err(_) => {
                steps.push(json!({"err": true}));
                return (steps, json!({"err": true}));
            }
        }
    }
    match c.process_tail() {
        Ok(d) => {
            if let Some(d) = d {
                out.extend_from_slice(d);
            }
            (steps, json!({"ok": json_bytes(&out)}))
        }
        Err(_) => (steps, json!({"err": true})),
    }
}

/// The written form of a symbol: as octets of a zone file, and as a string
/// (None where a string cannot hold it: `\X` with X >= 0x80 is a raw octet).
fn write_sym(s: Symbol, zf: &mut Vec<u8>, st: &mut Option<String>) {
    match s {
        Symbol::Char(c) => {
            let mut b = [0u8; 4];
            zf.extend_from_slice(c.encode_utf8(&mut b).as_bytes());
            if let Some(st) = st.as_mut() {
                st.push(c);
            }
        }
        Symbol::SimpleEscape(v) => {
            zf.push(b'\\');
            zf.push(v);
            if v < 0x80 {
                if let Some(st) = st.as_mut() {
                    st.push('\\');
                    st.push(v as char);
                }
            } else {
                *st = None;
            }
        }
        Symbol::DecimalEscape(v) => {
            let t = format!("\\{:03}", v);
            zf.extend_from_slice(t.as_bytes());
            if let Some(st) = st.as_mut() {
                st.push_str(&t);
            }
        }
    }
}

/// The written form of a malformed escape sequence (variant `v` of BaseN.tla)
fn write_bad(v: u64, zf: &mut Vec<u8>, st: &mut Option<String>) {
    let t = match v {
        0 => "\\",
        1 => "\\9",
        2 => "\\9x",
        3 => "\\999",
        _ => "\\\u{e9}",
    };
    zf.extend_from_slice(t.as_bytes());
    if let Some(st) = st.as_mut() {
        st.push_str(t);
    }
}

fn sym_case(codec: &str, input: &Value) -> Value {
    let empty = vec![];
    let elems = input["syms"].as_array().unwrap_or(&empty);
    let is_bad = |e: &Value| e["k"].as_str() == Some("x");
    let flag = |k: &str| input[k].as_bool() == Some(true);
    let (it, zf, one) = (flag("it"), flag("zf"), flag("one"));
    let skip = || json!({"skip": true});
    // direct: only symbols can be handed to a converter
    let (steps, fin) = if elems.iter().any(is_bad) {
        (skip(), skip())
    } else {
        let esyms: Vec<EntrySymbol> = elems.iter().map(esym_of).collect();
        let (steps, fin) = match codec {
            "b16" => conv_steps(base16::SymbolConverter::new(), &esyms),
            "b32" => conv_steps(base32::SymbolConverter::new(), &esyms),
            _ => conv_steps(base64::SymbolConverter::new(), &esyms),
        };
        (Value::Array(steps), fin)
    };
    // written forms: tokens split at EndOfToken (empty tokens do not exist)
    let mut ztoks: Vec<Vec<u8>> = vec![vec![]];
    let mut stoks: Vec<Option<String>> = vec![Some(String::new())];
    for e in elems {
        if is_bad(e) {
            write_bad(e["v"].as_u64().unwrap_or(0), ztoks.last_mut().unwrap(), stoks.last_mut().unwrap());
            continue;
        }
        match esym_of(e) {
            EntrySymbol::EndOfToken => {
                if !ztoks.last().unwrap().is_empty() {
                    ztoks.push(vec![]);
                    stoks.push(Some(String::new()));
                }
            }
            EntrySymbol::Symbol(s) => {
                write_sym(s, ztoks.last_mut().unwrap(), stoks.last_mut().unwrap())
            }
        }
    }
    if ztoks.last().unwrap().is_empty() && ztoks.len() > 1 {
        ztoks.pop();
        stoks.pop();
    }
    let zline: Vec<u8> = ztoks.join(&b' ');
    let strs: Option<Vec<String>> = stoks.iter().cloned().collect();
    // string API on the written form (no token boundaries there)
    let whole: Option<String> = strs.as_ref().map(|v| v.concat());
    let str_obs = match &whole {
        Some(w) => {
            let chars: Vec<char> = w.chars().collect();
            let d = decode(codec, w);
            let (m, _) = machine(codec, &chars);
            if d == m { d } else { json!({"decode": d, "decoder": m}) }
        }
        // a raw octet >= 0x80 after a backslash: not a string at all
        None => json!({"err": true}),
    };
    let need_str = |what: &str| -> Vec<String> {
        strs.clone().unwrap_or_else(|| panic!("case flags {} for a text no string can hold", what))
    };
    let iscan_obs = if it { iscan_toks(codec, need_str("it")) } else { skip() };
    let scan_obs = if zf { scan_bytes(codec, &zline) } else { skip() };
    let users = match codec {
        "b16" => json!({
            "salt_str": match &whole { Some(w) => salt_str(w), None => json!({"err": true}) },
            "salt_iter": if it && one { salt_iter(need_str("it").concat()) } else { skip() },
            "salt_zf": if zf && one { salt_zf(&zline) } else { skip() },
        }),
        "b32" => json!({
            "ohash_str": match &whole { Some(w) => ohash_str(w), None => json!({"err": true}) },
        }),
        _ => json!({"ech_zf": if zf && one { ech_zf(&zline) } else { skip() }}),
    };
    json!({"steps": steps, "conv": fin, "str": str_obs, "iscan": iscan_obs, "scan": scan_obs,
           "users": users})
}

fn encode(codec: &str, o: &[u8]) -> Value {
    let (a, b, c) = match codec {
        "b16" => {
            let mut s = String::new();
            base16::display(o, &mut s).unwrap();
            (s, base16::encode_string(o), format!("{}", base16::encode_display(o)))
        }
        "b32" => {
            let mut s = String::new();
            base32::display_hex(o, &mut s).unwrap();
            (s, base32::encode_string_hex(o), format!("{}", base32::encode_display_hex(&o)))
        }
        _ => {
            let mut s = String::new();
            base64::display(o, &mut s).unwrap();
            (s, base64::encode_string(o), format!("{}", base64::encode_display(&o)))
        }
    };
    if a != b || b != c {
        return json!({"encoders_disagree": [a, b, c]});
    }
    let enc: Vec<u32> = a.chars().map(|c| c as u32).collect();
    json!({"enc": enc, "rt": decode(codec, &a)})
}

fn main() {
    run_cases(|input| {
        let codec = input["codec"].as_str().unwrap_or("b64").to_string();
        match input["kind"].as_str() {
            Some("dec") => {
                let s = string_of(&input["text"]);
                let chars: Vec<char> = s.chars().collect();
                let (fin, sticky) = machine(&codec, &chars);
                let mut o = json!({"fin": fin, "dec": decode(&codec, &s),
                       "conv": conv(&codec, &chars), "sticky": sticky});
                if input["scan"].as_bool() == Some(true) {
                    o["scan"] = scan(&codec, &chars);
                    o["iscan"] = iscan(&codec, &chars);
                    o["users"] = users(&codec, &chars);
                }
                o
            }
            Some("sym") => sym_case(&codec, input),
            Some("enc") => encode(&codec, &bytes_of(&input["octets"])),
            _ => json!({"bad_case": true}),
        }
    });
}
