//! S->I executor for BaseN.tla cases.
use domain::base::scan::{ConvertSymbols, EntrySymbol, Symbol};
use domain::utils::{base16, base32, base64};
use serde_json::{json, Value};
use verif_harness::common::*;

fn res_json(r: Result<Vec<u8>, ()>) -> Value {
    match r {
        Ok(v) => json!({"ok": json_bytes(&v)}),
        Err(_) => json!({"err": true}),
    }
}

/// push every character (continuing after errors), then finalize
fn machine(codec: &str, text: &[char]) -> (Value, bool) {
    let mut results = vec![];
    let fin = match codec {
        "b16" => {
            let mut d = base16::Decoder::<Vec<u8>>::new();
            for c in text {
                results.push(d.push(*c).is_ok());
            }
            d.finalize().map_err(|_| ())
        }
        "b32" => {
            let mut d = base32::Decoder::<Vec<u8>>::new_hex();
            for c in text {
                results.push(d.push(*c).is_ok());
            }
            d.finalize().map_err(|_| ())
        }
        _ => {
            let mut d = base64::Decoder::<Vec<u8>>::new();
            for c in text {
                results.push(d.push(*c).is_ok());
            }
            d.finalize().map_err(|_| ())
        }
    };
    // sticky: after the first error every later push reports an error
    let sticky = match results.iter().position(|ok| !ok) {
        Some(i) => results[i..].iter().all(|ok| !ok),
        None => true,
    };
    (res_json(fin), sticky)
}

fn decode(codec: &str, s: &str) -> Value {
    res_json(match codec {
        "b16" => base16::decode::<Vec<u8>>(s).map_err(|_| ()),
        "b32" => base32::decode_hex::<Vec<u8>>(s).map_err(|_| ()),
        _ => base64::decode::<Vec<u8>>(s).map_err(|_| ()),
    })
}

fn conv_run<C: ConvertSymbols<EntrySymbol, std::io::Error>>(
    mut c: C,
    text: &[char],
) -> Result<Vec<u8>, ()> {
    let mut out = vec![];
    for (i, ch) in text.iter().enumerate() {
        // a token boundary after every second character: chunking must not matter
        if i > 0 && i % 2 == 0 {
            if let Some(d) = c.process_symbol(EntrySymbol::EndOfToken).map_err(|_| ())? {
                out.extend_from_slice(d);
            }
        }
        if let Some(d) = c
            .process_symbol(EntrySymbol::Symbol(Symbol::Char(*ch)))
            .map_err(|_| ())?
        {
            out.extend_from_slice(d);
        }
    }
    if let Some(d) = c.process_tail().map_err(|_| ())? {
        out.extend_from_slice(d);
    }
    Ok(out)
}

fn conv(codec: &str, text: &[char]) -> Value {
    res_json(match codec {
        "b16" => conv_run(base16::SymbolConverter::new(), text),
        "b32" => conv_run(base32::SymbolConverter::new(), text),
        _ => conv_run(base64::SymbolConverter::new(), text),
    })
}

/// The same text through the real zone-file reader: a record whose last
/// field is a Base-N blob, with the text split into tokens of two characters
/// (token boundaries must not matter).
fn scan(codec: &str, text: &[char]) -> Value {
    use domain::base::iana::Class;
    use domain::base::rdata::ComposeRecordData;
    use domain::zonefile::inplace::{Entry, Zonefile};
    let mut toks = String::new();
    for (i, c) in text.iter().enumerate() {
        if codec != "b32" && i > 0 && i % 2 == 0 {
            toks.push(' ');
        }
        toks.push(*c);
    }
    // prefix = RDATA octets that precede the blob
    let (line, prefix): (String, usize) = match codec {
        "b16" => (format!("x. 3600 IN DS 1 8 2 {}\n", toks), 4),
        "b32" => (format!("x. 3600 IN NSEC3 1 0 0 - {} A\n", toks), 6),
        _ => (format!("x. 3600 IN OPENPGPKEY {}\n", toks), 0),
    };
    let mut zf = Zonefile::new();
    zf.set_default_class(Class::IN);
    zf.extend_from_slice(line.as_bytes());
    match zf.next_entry() {
        Ok(Some(Entry::Record(r))) => {
            let mut rd = Vec::new();
            if r.data().compose_rdata(&mut rd).is_err() {
                return json!({"err": true});
            }
            let blob = match codec {
                // NSEC3: alg flags iter(2) saltlen(=0) hashlen hash bitmap(A = 00 01 40)
                "b32" => rd[prefix..rd.len() - 3].to_vec(),
                _ => rd[prefix..].to_vec(),
            };
            json!({"ok": json_bytes(&blob)})
        }
        _ => json!({"err": true}),
    }
}

/// The same text through the string-token scanner (`IterScanner`, used by
/// the `scan`/from-string paths of the record data types), tokens of two
/// characters.
fn iscan(codec: &str, text: &[char]) -> Value {
    use domain::base::rdata::ComposeRecordData;
    use domain::base::scan::IterScanner;
    use domain::rdata::{Ds, Nsec3, Openpgpkey};
    let mut toks: Vec<String> = vec![];
    for (i, c) in text.iter().enumerate() {
        if codec == "b32" {
            if i == 0 { toks.push(String::new()); }
        } else if i % 2 == 0 {
            toks.push(String::new());
        }
        toks.last_mut().unwrap().push(*c);
    }
    let mut rd = Vec::new();
    match codec {
        "b16" => {
            let mut all = vec!["1".to_string(), "8".into(), "2".into()];
            all.extend(toks);
            let mut sc = IterScanner::<_, Vec<u8>>::new(all);
            match Ds::scan(&mut sc) {
                Ok(v) if sc.is_exhausted() => {
                    v.compose_rdata(&mut rd).unwrap();
                    json!({"ok": json_bytes(&rd[4..])})
                }
                _ => json!({"err": true}),
            }
        }
        "b32" => {
            let mut all = vec!["1".to_string(), "0".into(), "0".into(), "-".into()];
            all.extend(toks);
            all.push("A".into());
            let mut sc = IterScanner::<_, Vec<u8>>::new(all);
            match Nsec3::scan(&mut sc) {
                Ok(v) if sc.is_exhausted() => {
                    v.compose_rdata(&mut rd).unwrap();
                    json!({"ok": json_bytes(&rd[6..rd.len() - 3])})
                }
                _ => json!({"err": true}),
            }
        }
        _ => {
            let mut sc = IterScanner::<_, Vec<u8>>::new(toks);
            match Openpgpkey::scan(&mut sc) {
                Ok(v) if sc.is_exhausted() => {
                    v.compose_rdata(&mut rd).unwrap();
                    json!({"ok": json_bytes(&rd)})
                }
                _ => json!({"err": true}),
            }
        }
    }
}

/// Other users of the codecs with their own glue code: the NSEC3 salt
/// (Base16 behind a wrapper converter, single token), `OwnerHash::from_str`
/// (Base32) and the SVCB `ech` parameter (Base64 converter driven by hand).
fn users(codec: &str, text: &[char]) -> Value {
    use domain::base::iana::Class;
    use domain::base::rdata::ComposeRecordData;
    use domain::base::scan::IterScanner;
    use domain::rdata::nsec3::{Nsec3Salt, OwnerHash};
    use domain::rdata::Nsec3param;
    use domain::zonefile::inplace::{Entry, Zonefile};
    use std::str::FromStr;
    let s: String = text.iter().collect();
    let zf_rdata = |line: String| -> Result<Vec<u8>, ()> {
        let mut zf = Zonefile::new();
        zf.set_default_class(Class::IN);
        zf.extend_from_slice(line.as_bytes());
        match zf.next_entry() {
            Ok(Some(Entry::Record(r))) => {
                let mut rd = Vec::new();
                r.data().compose_rdata(&mut rd).map_err(|_| ())?;
                Ok(rd)
            }
            _ => Err(()),
        }
    };
    match codec {
        "b16" => {
            // NSEC3PARAM: alg flags iter(2) saltlen salt
            let a = res_json(
                zf_rdata(format!("x. 3600 IN NSEC3PARAM 1 0 10 {}\n", s)).map(|rd| rd[5..].to_vec()),
            );
            let mut sc = IterScanner::<_, Vec<u8>>::new(vec![
                "1".to_string(), "0".into(), "10".into(), s.clone(),
            ]);
            let b = res_json(match Nsec3param::scan(&mut sc) {
                Ok(v) if sc.is_exhausted() => {
                    let mut rd = Vec::new();
                    v.compose_rdata(&mut rd).unwrap();
                    Ok(rd[5..].to_vec())
                }
                _ => Err(()),
            });
            let c = res_json(
                Nsec3Salt::<Vec<u8>>::from_str(&s).map(|v| v.as_slice().to_vec()).map_err(|_| ()),
            );
            json!({"salt_zf": a, "salt_iter": b, "salt_str": c})
        }
        "b32" => {
            let c = res_json(
                OwnerHash::<Vec<u8>>::from_str(&s).map(|v| v.as_slice().to_vec()).map_err(|_| ()),
            );
            json!({"ohash_str": c})
        }
        _ => {
            // SVCB: priority(2) target(root = 1 octet) key(2) len(2) value
            let a = res_json(
                zf_rdata(format!("x. 3600 IN SVCB 1 . ech={}\n", s)).map(|rd| rd[7..].to_vec()),
            );
            json!({"ech_zf": a})
        }
    }
}

fn encode(codec: &str, o: &[u8]) -> Value {
    let (a, b, c) = match codec {
        "b16" => {
            let mut s = String::new();
            base16::display(o, &mut s).unwrap();
            (s, base16::encode_string(o), format!("{}", base16::encode_display(o)))
        }
        "b32" => {
            let mut s = String::new();
            base32::display_hex(o, &mut s).unwrap();
            (s, base32::encode_string_hex(o), format!("{}", base32::encode_display_hex(&o)))
        }
        _ => {
            let mut s = String::new();
            base64::display(o, &mut s).unwrap();
            (s, base64::encode_string(o), format!("{}", base64::encode_display(&o)))
        }
    };
    if a != b || b != c {
        return json!({"encoders_disagree": [a, b, c]});
    }
    let enc: Vec<u32> = a.chars().map(|c| c as u32).collect();
    json!({"enc": enc, "rt": decode(codec, &a)})
}

fn main() {
    run_cases(|input| {
        let codec = input["codec"].as_str().unwrap_or("b64").to_string();
        match input["kind"].as_str() {
            Some("dec") => {
                let s = string_of(&input["text"]);
                let chars: Vec<char> = s.chars().collect();
                let (fin, sticky) = machine(&codec, &chars);
                let mut o = json!({"fin": fin, "dec": decode(&codec, &s),
                       "conv": conv(&codec, &chars), "sticky": sticky});
                if input["scan"].as_bool() == Some(true) {
                    o["scan"] = scan(&codec, &chars);
                    o["iscan"] = iscan(&codec, &chars);
                    o["users"] = users(&codec, &chars);
                }
                o
            }
            Some("enc") => encode(&codec, &bytes_of(&input["octets"])),
            _ => json!({"bad_case": true}),
        }
    });
}
