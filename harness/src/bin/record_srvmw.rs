//! X11 I->S recorder: random requests (shapes, OPT contents, sizes and
//! timeouts over the whole 16-bit range with a bias to the boundaries)
//! through the real middleware stack, and random add / call runs on the real
//! QnameRouter; one ndjson event per request for Trace_ServerEdns /
//! Trace_ServerRouting.
//!
//! usage: record_srvmw stack|route <trace.ndjson> <seed> <events>
#[path = "../srvmw.rs"]
mod srvmw;

use serde_json::{json, Value};
use srvmw::NOV;
use verif_harness::common::{quiet_panics, Rng, TraceWriter};

fn boundary(r: &mut Rng) -> u64 {
    let b = *r.pick(&[0u64, 1, 100, 511, 512, 513, 1231, 1232, 1233, 4095, 4096, 4097, 65534, 65535]);
    if r.chance(1, 3) { r.below(65536) } else { b }
}

fn option(r: &mut Rng, allow_ka: bool) -> Value {
    let code = if allow_ka && r.chance(1, 2) { 11 } else { *r.pick(&[12u64, 3, 10, 15, 65001, 8]) };
    let len = if code == 11 { *r.pick(&[0u64, 0, 2, 2, 1, 3]) } else { r.below(9) };
    json!({"code": code, "len": len, "val": if len == 0 { 0 } else if len == 1 { r.below(256) } else { r.below(65536) }})
}

fn opt_item(r: &mut Rng, req: bool) -> Value {
    if req && r.chance(1, 12) {
        return json!({"t": "opt", "bad": true, "ver": 0, "size": 0, "do": false, "xrc": 0, "opts": []});
    }
    let n = r.below(4);
    let opts: Vec<Value> = (0..n).map(|_| option(r, req)).collect();
    json!({"t": "opt", "bad": false,
           "ver": if r.chance(1, 6) { 1 + r.below(255) } else { 0 },
           "size": boundary(r), "do": r.chance(1, 2),
           "xrc": if !req && r.chance(1, 4) { 1 + r.below(255) } else { 0 },
           "opts": opts})
}

fn adds(r: &mut Rng, req: bool) -> Vec<Value> {
    let mut v = vec![];
    let nopt = if req { *r.pick(&[0u64, 0, 1, 1, 1, 1, 2, 3]) } else { *r.pick(&[0u64, 0, 1]) };
    let na = r.below(3);
    for _ in 0..nopt {
        v.push(opt_item(r, req));
    }
    for _ in 0..na {
        let at = r.below(v.len() as u64 + 1) as usize;
        v.insert(at, srvmw::a_item());
    }
    v
}

fn adds_len(a: &[Value]) -> u64 {
    a.iter()
        .map(|it| {
            if it["t"] == "a" { 15 } else {
                11 + it["opts"].as_array().unwrap().iter().map(|o| 4 + o["len"].as_u64().unwrap()).sum::<u64>()
            }
        })
        .sum()
}

fn stack_event(r: &mut Rng) -> Value {
    let udp = r.chance(3, 5);
    let qd = *r.pick(&[1u64, 1, 1, 1, 0, 2]);
    let req = json!({
        "udp": udp,
        "hint": if udp && r.chance(3, 4) { boundary(r) } else { NOV },
        "idle": if !udp && r.chance(3, 4) { if r.chance(1, 8) { 65536 } else { boundary(r) } } else { NOV },
        "id": r.below(65536), "rd": r.chance(1, 2), "qr": r.chance(1, 8),
        "opcode": *r.pick(&[0u64, 0, 0, 0, 1, 2, 4, 5, 15]), "qd": qd,
        "adds": adds(r, true),
    });
    let cfg = json!({"strict": r.chance(3, 4), "eon": r.chance(5, 6)});
    let sadds = adds(r, false);
    // a total length near a boundary (or anywhere)
    let fixed = 12 + 19 * qd + adds_len(&sadds);
    let target = { let b = *r.pick(&[100u64, 511, 512, 513, 1232, 1233, 4096, 4097]); if r.chance(1, 3) { r.below(6000) } else { b + r.below(40) - r.below(20).min(b) } };
    let mut body = vec![];
    let mut left = target.saturating_sub(fixed);
    let nrec = 1 + r.below(3);
    for i in 0..nrec {
        if left < 11 { break; }
        let take = if i + 1 == nrec { left - 11 } else { r.below(left - 10) };
        body.push(json!(take));
        left -= 11 + take;
    }
    let svc = if r.chance(1, 15) {
        json!({"kind": "err", "rc": 0, "scr": false, "body": [], "adds": []})
    } else {
        json!({"kind": "ok", "rc": *r.pick(&[0u64, 0, 2, 3, 5]), "scr": r.chance(1, 3), "body": body, "adds": sadds})
    };
    let input = json!({"k": "stack", "req": req, "cfg": cfg, "svc": svc});
    let obs = std::panic::catch_unwind(|| srvmw::run_stack(&input)).unwrap_or(json!({"panic": true}));
    json!({"ev": "stack", "in": {"req": input["req"], "cfg": input["cfg"], "svc": input["svc"]}, "obs": obs})
}

fn label(r: &mut Rng) -> Value {
    let pool: [&[u8]; 8] = [b"a", b"A", b"xa", b"b", b"example", b"EXAMPLE", b"xexample", b"com"];
    json!(r.pick(&pool).to_vec())
}

fn name(r: &mut Rng, max: u64) -> Value {
    let n = r.below(max + 1);
    Value::Array((0..n).map(|_| label(r)).collect())
}

fn main() {
    quiet_panics();
    let a: Vec<String> = std::env::args().collect();
    let (kind, path, seed, n) = (a[1].as_str(), a[2].as_str(), a[3].parse::<u64>().unwrap(), a[4].parse::<u64>().unwrap());
    let mut r = Rng::new(seed);
    let mut w = TraceWriter::create(path);
    if kind == "stack" {
        for _ in 0..n {
            w.event(stack_event(&mut r));
        }
    } else {
        let mut routes: Vec<Value> = vec![];
        let mut i = 0;
        while i < n {
            if routes.len() >= 7 || (i > 0 && r.chance(1, 60)) {
                routes.clear();
                w.event(json!({"ev": "reset"}));
                i += 1;
                continue;
            }
            if routes.is_empty() || r.chance(1, 8) {
                // sometimes a name that is there already, in another case
                let nm = name(&mut r, 3);
                routes.push(nm.clone());
                w.event(json!({"ev": "add", "name": nm}));
                i += 1;
                continue;
            }
            // a question at or below a route, or anywhere
            let q = if r.chance(2, 3) {
                let base = r.pick(&routes).clone();
                let mut v = name(&mut r, 2).as_array().unwrap().clone();
                v.extend(base.as_array().unwrap().iter().cloned());
                Value::Array(v)
            } else {
                name(&mut r, 4)
            };
            let (qd, edns, mw) = (*r.pick(&[1u64, 1, 1, 1, 2, 0]), r.chance(1, 2), r.chance(1, 2));
            let input = json!({"k": "route", "routes": routes, "q": q, "qd": qd, "edns": edns, "mw": mw});
            let obs = std::panic::catch_unwind(|| srvmw::run_route(&input)).unwrap_or(json!({"panic": true}));
            w.event(json!({"ev": "call", "q": q, "qd": qd, "edns": edns, "mw": mw, "obs": obs}));
            i += 1;
        }
    }
    w.finish();
}
