//! I->S recorder for X05: drives the real Notify(Xfr(next)) stack, the real
//! CallbackBatcher and the real semaphores on seeded random inputs far
//! outside TLC's grid and logs one event per public call.
//!
//! usage: record_notifyxfr <prefix> <seed> <ncalls>
//! writes <prefix>-calls.ndjson   (Trace_NotifyXfrReq.tla)
//!        <prefix>-batch.ndjson   (Trace_Batcher.tla)
//!        <prefix>-conc-n{1,2,3}.ndjson (Trace_NotifyXfrReqConc.tla)
//!
//! calls: random configurations (zone of 1..40 records of a random size,
//! difference sequences of 0..170 records avoiding 80..150 so that the
//! funneler either never or certainly blocks on its channel, serial base
//! anywhere incl. just below 2^32 so that old < cur wraps, key policy,
//! availability, compatibility mode, sync/async store, broken notify
//! target); on each, a stream of random requests (opcodes, QR, QDCOUNT 0..2,
//! QTYPEs, classes, names, answer/authority sections, keys, UDP hints,
//! reserved octets) through ONE stack object on one current-thread runtime
//! with paused clock.
#[path = "../notifyxfr.rs"]
mod notifyxfr;

use notifyxfr::*;
use serde_json::{json, Value};
use verif_harness::common::*;

fn pick_str(rng: &mut Rng, xs: &[&str]) -> String {
    xs[rng.below(xs.len() as u64) as usize].to_string()
}

fn random_cfg(rng: &mut Rng) -> Value {
    let dsz = |rng: &mut Rng| -> u64 {
        match rng.below(6) {
            0 => 0,
            1 | 2 | 3 => rng.below(8),
            4 => 20 + rng.below(15),
            _ => 80 + rng.below(6), // two of these: > 150 records in one sequence
        }
    };
    // keep the length of each possible IXFR stream out of the band 96..160:
    // the funneler then either never or certainly blocks on its channel
    let (d1, d2) = loop {
        let d1 = json!({"rem": dsz(rng), "add": dsz(rng)});
        let d2 = json!({"rem": dsz(rng), "add": dsz(rng)});
        let n = |d: &Value| d["rem"].as_u64().unwrap() + d["add"].as_u64().unwrap() + 2;
        let from_mid = n(&d2) + 2;
        let from_old = n(&d1) + n(&d2) + 2;
        let clear = |x: u64| x <= 95 || x >= 160;
        if clear(from_mid) && clear(from_old) {
            break (d1, d2);
        }
    };
    let base: u32 = match rng.below(4) {
        0 => 0,
        1 => 0u32.wrapping_sub(8),  // old, mid below 2^32; cur, new, hint wrapped
        2 => 0u32.wrapping_sub(11), // cur = 2^32 - 1, new = 0
        _ => rng.next() as u32,
    };
    json!({
        "needKey": rng.chance(1, 3), "avail": !rng.chance(1, 6), "broken": rng.chance(1, 5),
        "compat": rng.chance(1, 4), "store": if rng.chance(1, 5) { "async" } else { "sync" },
        "K": 1 + rng.below(40), "R": 26 + 2 * rng.below(30),
        "d1": d1, "d2": d2, "base": base, "conc": 1 + rng.below(3),
    })
}

fn random_req(rng: &mut Rng, cfg: &Value) -> Value {
    let xfrish = rng.chance(3, 5);
    let op = if xfrish { "QUERY".to_string() } else { pick_str(rng, &["QUERY", "NOTIFY", "NOTIFY", "NOTIFY", "UPDATE", "STATUS"]) };
    let qt = if xfrish { pick_str(rng, &["AXFR", "IXFR", "IXFR"]) } else { pick_str(rng, &["SOA", "SOA", "A", "AXFR", "IXFR", "ANY", "T99"]) };
    let qd = if rng.chance(1, 8) { rng.below(3) } else { 1 };
    let an = if rng.chance(1, 3) { pick_str(rng, &["soa", "a", "trunc"]) } else { "none".to_string() };
    let ns = if an == "trunc" { "none".to_string() }
             else { pick_str(rng, &["none", "a", "old", "mid", "gap", "cur", "new", "old", "mid"]) };
    let udp = rng.chance(1, 2);
    let hint: u64 = if udp && rng.chance(2, 3) { *rng.pick(&[512u64, 600, 1232, 1400]) } else { 0 };
    // reserved octets: even limits only, and never below zero
    let top: u64 = if udp { if hint == 0 { 512 } else { hint } } else { 65535 };
    let mut limit: u64 = match rng.below(5) {
        0 => top,
        1 => 60 + rng.below(60),
        2 => 150 + rng.below(500),
        _ => top.min(200 + rng.below(1500)),
    };
    limit = limit.min(top);
    // R is even and SOA (62) is even, the fixed part (25) is odd: an even
    // limit is never met exactly
    if limit % 2 == 1 {
        limit -= 1;
    }
    let _ = cfg;
    json!({
        "op": op, "qr": rng.chance(1, 8), "qd": qd, "qt": qt,
        "qc": pick_str(rng, &["IN", "IN", "IN", "CH", "C7"]),
        "zn": pick_str(rng, &["known", "known", "known", "deep", "unknown"]),
        "udp": udp, "hint": hint, "rsv": top - limit,
        "an": an, "ns": ns, "key": pick_str(rng, &["none", "good", "good", "bad"]),
    })
}

fn record_calls(path: &str, rng: &mut Rng, ncalls: usize) -> Value {
    let mut tw = TraceWriter::create(path);
    let mut stats = json!({"calls": 0, "panics": 0, "xfr_streams": 0, "multi_msg": 0, "notify_ok": 0,
                           "udp_soa_only": 0, "passed": 0, "refused": 0, "wrapped": 0});
    let mut done = 0usize;
    while done < ncalls {
        let cfg = random_cfg(rng);
        let w = mk_world(&cfg, None);
        let rt = new_runtime();
        let n = 5 + rng.below(25) as usize;
        for _ in 0..n {
            let req = random_req(rng, &cfg);
            let obs = rt.block_on(call_projected(&w, &req));
            let rs = obs["rs"].as_array().cloned().unwrap_or_default();
            let msgs = rs.iter().filter(|x| x["k"] == json!("msg")).count();
            let bump = |s: &mut Value, k: &str| s[k] = json!(s[k].as_u64().unwrap() + 1);
            bump(&mut stats, "calls");
            if rs.iter().any(|x| x["k"] == json!("panic")) { bump(&mut stats, "panics"); }
            if rs.iter().any(|x| x["k"] == json!("fb")) { bump(&mut stats, "xfr_streams"); }
            if msgs >= 3 { bump(&mut stats, "multi_msg"); }
            if !obs["cb"].as_array().unwrap().is_empty() && msgs == 1 && rs[0]["rc"] == json!(0) { bump(&mut stats, "notify_ok"); }
            if !obs["nx"].as_array().unwrap().is_empty() { bump(&mut stats, "passed"); }
            if msgs == 1 && rs.iter().any(|x| x["rc"] == json!(5)) { bump(&mut stats, "refused"); }
            if req["udp"] == json!(true) && msgs == 1 && rs[0]["an"] == json!(["S:cur"]) { bump(&mut stats, "udp_soa_only"); }
            if cfg["base"].as_u64().unwrap() > 0xffff_fff0 && msgs >= 1 && rs.iter().any(|x| x["an"].as_array().map(|a| a.len() > 2).unwrap_or(false)) { bump(&mut stats, "wrapped"); }
            let mut lcfg = cfg.clone();
            lcfg["base"] = json!(cfg["base"].as_u64().unwrap().to_string());
            tw.event(json!({"ev": "call", "cfg": lcfg, "req": req, "obs": obs}));
            done += 1;
        }
        drop(rt);
    }
    tw.finish();
    stats
}

fn record_batch(path: &str, rng: &mut Rng, nruns: usize) -> Value {
    let mut tw = TraceWriter::create(path);
    let (mut pushes, mut errs, mut mustfit, mut batches) = (0u64, 0u64, 0u64, 0u64);
    for _ in 0..nruns {
        // even sizes and even limits: header + question is 25 octets, so a
        // message never has exactly `limit` octets
        let lspan = if rng.chance(1, 4) { 1500 } else { 150 };
        let l = 2 * (40 + rng.below(lspan)) as usize;
        let rr = *rng.pick(&[0u16, 0, 0, 1, 2, 3, 5]);
        let mf = rng.chance(1, 5);
        let (mut b, st) = mk_batcher(Some(l), if rr == 0 { None } else { Some(rr) }, mf);
        tw.event(json!({"ev": "bnew", "H": FIXED, "L": l, "RR": rr, "MF": mf}));
        let n = rng.below(40) as usize;
        let mut dead = false;
        for k in 0..n {
            let sspan = if rng.chance(1, 6) { 300 } else { 40 };
            let mut s = 2 * (13 + rng.below(sspan)) as usize;
            if txt_wire_size(s) != s {
                s += 2;
            }
            let res = batcher_push(&mut b, k, s);
            pushes += 1;
            let out: Vec<Value> = st.batches.lock().unwrap().iter()
                .map(|x| json!({"recs": x["recs"], "fin": x["fin"], "size": x["size"]})).collect();
            tw.event(json!({"ev": "push", "s": s, "res": res, "out": out}));
            if res == "err" { errs += 1; }
            if res == "mustfit" { mustfit += 1; dead = true; break; }
        }
        if !dead {
            let res = batcher_finish(&mut b);
            let out: Vec<Value> = st.batches.lock().unwrap().iter()
                .map(|x| json!({"recs": x["recs"], "fin": x["fin"], "size": x["size"]})).collect();
            batches += out.len() as u64;
            tw.event(json!({"ev": "finish", "res": if res == "ok" { "fin" } else { res }, "out": out}));
        }
    }
    tw.finish();
    json!({"runs": nruns, "pushes": pushes, "errs": errs, "mustfit": mustfit, "batches": batches})
}

fn record_conc(prefix: &str, rng: &mut Rng, nscen: usize) -> Value {
    let mut total = 0u64;
    let mut over = 0u64;
    for n in 1..=3usize {
        let mut tw = TraceWriter::create(&format!("{}-conc-n{}.ndjson", prefix, n));
        for _ in 0..nscen {
            let k = 1 + rng.below((n + 2).min(4) as u64) as usize;
            let axfr = rng.chance(1, 2);
            let drops: Vec<usize> = (1..=k).filter(|_| rng.chance(1, 4)).collect();
            let input = json!({"n": n, "k": k, "xfr": if axfr { "axfr" } else { "ixfr" }, "drops": drops,
                               "zone_k": 1 + rng.below(30)});
            let mut log = vec![];
            let obs = run_conc(&input, &mut log);
            tw.event(json!({"ev": "scen", "n": n, "k": k}));
            for e in log {
                // the extra transfer at the end is transfer k+1
                if e["ev"] == json!("fresh") {
                    tw.event(json!({"ev": "start", "t": k + 1, "kind": if axfr { "axfr" } else { "ixfr" }}));
                    tw.event(json!({"ev": "read", "t": k + 1, "complete": e["complete"], "hang": false}));
                } else {
                    tw.event(e);
                }
            }
            total += 1;
            if obs["active"].as_u64().unwrap() > n as u64 { over += 1; }
        }
        tw.finish();
    }
    json!({"scenarios": total, "over_limit": over})
}

fn main() {
    quiet_panics();
    let args: Vec<String> = std::env::args().collect();
    let prefix = args.get(1).cloned().unwrap_or_else(|| "trace".into());
    let seed: u64 = args.get(2).and_then(|s| s.parse().ok()).unwrap_or_else(seed);
    let ncalls: usize = args.get(3).and_then(|s| s.parse().ok()).unwrap_or(1500);
    let mut rng = Rng::new(seed);
    let calls = record_calls(&format!("{}-calls.ndjson", prefix), &mut rng, ncalls);
    let batch = record_batch(&format!("{}-batch.ndjson", prefix), &mut rng, ncalls / 10 + 20);
    let conc = record_conc(&prefix, &mut rng, 4 + ncalls / 500);
    println!("RECORDED {}", json!({"calls": calls, "batch": batch, "conc": conc}));
}
