//! S->I executor for ClientStream / ClientDgram / ClientCompose behaviours.
//!
//! A case is a whole behaviour: `in.ops` is the list of environment steps,
//! `exp` the specification's projection after every step.  Each step is
//! performed on the real transport over in-memory sockets, the runtime is
//! run until nothing is runnable, and the projection is taken.
#[path = "../client.rs"]
mod client;

use client::*;
use serde_json::{json, Value};
use verif_harness::common::*;

fn num(v: &Value, k: &str) -> u64 {
    v.get(k).and_then(|x| x.as_u64()).unwrap_or(0)
}

fn run_stream(input: &Value, salt: u64) -> Value {
    let cfg = &input["cfg"];
    let nreq = num(cfg, "nreq") as usize;
    let ops = input["ops"].as_array().cloned().unwrap_or_default();
    // the client's stream accepts 5 or 64k octets per write call: the
    // projection must not depend on how a request is chunked
    let wchunk = if salt % 2 == 0 { 5 } else { 65536 };
    let rt = runtime();
    rt.block_on(async move {
        let (mut s, eff) = match StreamSession::with_conf(&cfg["conf"], wchunk) {
            Some(x) => x,
            None => return json!({"bad_conf": cfg["conf"]}),
        };
        // the length of a tick is the specification's (TickMs); 10 s unless
        // the case says otherwise
        if let Some(t) = cfg.get("tickms").and_then(|t| t.as_u64()) {
            s.tick = std::time::Duration::from_millis(t);
        }
        s.settle().await;
        let mut obs: Vec<Value> = vec![];
        for (i, op) in ops.iter().enumerate() {
            match op["op"].as_str().unwrap_or("") {
                "submit" => s.submit(num(op, "r"), num(op, "q")),
                "peer" => {
                    let split = (salt + i as u64) % 3 == 0;
                    s.peer_msg(&op["f"], split).await
                }
                "end" => s.peer_end(op["how"].as_str().unwrap_or("eof")),
                "wfail" => s.peer.stop_reading(),
                // the peer takes a few octets more (less than any request), then nothing
                "stall" => s.peer.write_credit(Some(3 + (salt as usize + i) % 9)),
                "unstall" => s.peer.write_credit(None),
                "drop" => s.drop_handles(),
                "tick" => s.tick().await,
                _ => return json!({"bad_op": op}),
            }
            s.settle().await;
            let mut p = s.projection(nreq);
            if obs.is_empty() {
                p["eff"] = eff.clone();
            }
            obs.push(p);
        }
        Value::Array(obs)
    })
}


/// ClientFlow cases: zone transfers with a consumer that calls
/// get_response() only when the case says so (a task fed with permits), a
/// peer that sends bursts, requests dropped mid-stream.
fn run_flow(input: &Value, salt: u64) -> Value {
    use domain::net::client::request::{Error, GetResponseMulti, SendRequestMulti};
    use std::sync::Arc;
    use tokio::sync::Semaphore;
    let cfg = &input["cfg"];
    let nreq = num(cfg, "nreq") as usize;
    let ops = input["ops"].as_array().cloned().unwrap_or_default();
    let wchunk = if salt % 2 == 0 { 5 } else { 65536 };
    let rt = runtime();
    rt.block_on(async move {
        let (mut s, _eff) = match StreamSession::with_conf(&cfg["conf"], wchunk) {
            Some(x) => x,
            None => return json!({"bad_conf": cfg["conf"]}),
        };
        s.settle().await;
        let mut consumers: std::collections::HashMap<u64, (Arc<Semaphore>, tokio::task::JoinHandle<()>)> =
            Default::default();
        let mut obs: Vec<Value> = vec![];
        for op in ops.iter() {
            let r = num(op, "r");
            match op["op"].as_str().unwrap_or("") {
                "submit" if num(op, "q") >= 500 => {
                    s.nreq = s.nreq.max(r as usize);
                    let conn = match &s.conn {
                        Some(c) => c,
                        None => return json!({"bad_op": op}),
                    };
                    let mut req: Box<dyn GetResponseMulti + Send + Sync> =
                        SendRequestMulti::send_request(conn, build_request_multi(num(op, "q")));
                    let sem = Arc::new(Semaphore::new(1));
                    let (sem2, comp) = (sem.clone(), s.comp.clone());
                    let fut = async move {
                        loop {
                            match sem2.acquire().await {
                                Ok(p) => p.forget(),
                                Err(_) => break,
                            }
                            let res = req.get_response().await;
                            let (o, stop) = match &res {
                                Ok(Some(m)) => (json!({"ok": abstract_msg(m.as_slice())}), false),
                                Ok(None) => (json!({"eof": true}), true),
                                Err(Error::WrongReplyForQuery) => (json!({"err": true}), false),
                                Err(_) => (json!({"err": true}), true),
                            };
                            comp.lock().unwrap().push((r, o, String::new()));
                            if stop {
                                break;
                            }
                        }
                    };
                    let h = tokio::spawn(counted(fut, &s.act));
                    consumers.insert(r, (sem, h));
                }
                "submit" => s.submit(r, num(op, "q")),
                "xfr" => {
                    // one write: the whole burst is on the wire at once
                    let mut all = vec![];
                    for f in op["fs"].as_array().cloned().unwrap_or_default() {
                        let m = build_peer_msg(&f);
                        all.extend_from_slice(&(m.len() as u16).to_be_bytes());
                        all.extend_from_slice(&m);
                    }
                    s.peer.push(&all);
                }
                "answer" => s.peer_msg(&op["f"], false).await,
                "consume" => match consumers.get(&r) {
                    Some((sem, _)) => sem.add_permits(num(op, "n") as usize),
                    None => return json!({"bad_op": op}),
                },
                "dropreq" => match consumers.remove(&r) {
                    Some((_, h)) => {
                        h.abort();
                        let _ = h.await;
                    }
                    None => return json!({"bad_op": op}),
                },
                _ => return json!({"bad_op": op}),
            }
            s.settle().await;
            let p = s.projection(nreq);
            let mut o = json!({"out": p["out"], "got": p["done"], "closed": p["closed"]});
            for k in ["hang", "clock_drift"] {
                if p.get(k).is_some() {
                    o[k] = p[k].clone();
                }
            }
            obs.push(o);
        }
        Value::Array(obs)
    })
}

/// One attempt at a dgram case; None = the library drew the same random ID
/// for two attempts, so symbolic IDs cannot be mapped (the case is re-run).
fn try_dgram(input: &Value) -> Option<Value> {
    use domain::base::Message;
    use domain::net::client::request::SendRequest;
    use std::sync::{Arc, Mutex};
    let cfg = &input["cfg"];
    let ops = input["ops"].as_array().cloned().unwrap_or_default();
    let rt = runtime();
    rt.block_on(async move {
        let act = Activity::default();
        let net = DgramNet::new(&act);
        {
            let mut g = net.inner.lock().unwrap();
            let at = num(&cfg["fault"], "at") as usize;
            match cfg["fault"]["kind"].as_str().unwrap_or("none") {
                "connect" => g.connect_fail = Some(at - 1),
                "send" => g.send_fail = Some((at - 1, false)),
                "short" => g.send_fail = Some((at - 1, true)),
                _ => {}
            }
        }
        let (conn, eff) = match dgram_conn(&net, &cfg["conf"]) {
            Some(x) => x,
            None => return Some(json!({"bad_conf": cfg["conf"]})),
        };
        let comp: Completions = Arc::new(Mutex::new(vec![]));
        let mut clock = Clock::new();
        let mut hang = false;
        let mut obs = vec![];
        let mut collision = false;
        let mut t_submit: u64 = 0;
        let mut t_done: i64 = -1;
        // IDs of the datagrams sent so far, by attempt (socket)
        let ids_of = |net: &DgramNet| -> Vec<u16> {
            (0..net.nsocks())
                .filter_map(|i| net.sent(i).first().and_then(|d| Message::from_slice(d).ok().map(|m| m.header().id())))
                .collect()
        };
        for op in ops.iter() {
            match op["op"].as_str().unwrap_or("") {
                "submit" => {
                    let req = SendRequest::send_request(&conn, build_request(num(op, "q")));
                    spawn_waiter(req, 1, &comp, &act);
                    t_submit = clock.ticks();
                }
                "deliver" => {
                    let ids = ids_of(&net);
                    let cur = net.nsocks().saturating_sub(1);
                    let d = &op["d"];
                    let dgram = match d["kind"].as_str().unwrap_or("") {
                        "short" => Ok(vec![1u8, 2, 3, 4, 5, 6, 7]),
                        "ioerr" => Err(()),
                        _ => {
                            let mut f = d["f"].clone();
                            let sym = num(&f, "id") as usize;
                            let real = if sym >= 1 && sym <= ids.len() {
                                ids[sym - 1]
                            } else {
                                (0..=u16::MAX).find(|x| !ids.contains(x)).unwrap_or(0)
                            };
                            f["id"] = json!(real);
                            Ok(build_peer_msg(&f))
                        }
                    };
                    net.deliver(cur, dgram);
                }
                "tick" => clock.advance(TICK).await,
                _ => return Some(json!({"bad_op": op})),
            }
            if !settle(&act).await {
                hang = true;
            }
            let ids = ids_of(&net);
            for (i, a) in ids.iter().enumerate() {
                if ids[..i].contains(a) {
                    collision = true;
                }
            }
            let sent: Vec<Value> = (0..net.nsocks())
                .map(|i| match net.sent(i).first() {
                    Some(d) => abstract_dgram_request(d),
                    None => json!(-1),
                })
                .collect();
            let done: Vec<Value> = comp
                .lock()
                .unwrap()
                .iter()
                .map(|(_, o, _)| {
                    let mut o = o.clone();
                    if let Some(f) = o.get_mut("ok") {
                        // real ID -> the attempt that drew it
                        let real = f["id"].as_u64().unwrap_or(0) as u16;
                        f["id"] = match ids.iter().position(|x| *x == real) {
                            Some(p) => json!(p + 1),
                            None => json!(99),
                        };
                    }
                    o
                })
                .collect();
            let waiting = net.nsocks() > 0 && net.open(net.nsocks() - 1) && done.is_empty();
            if t_done < 0 && !done.is_empty() {
                t_done = (clock.ticks() - t_submit) as i64;
            }
            let mut p = json!({"sent": sent, "done": done, "waiting": waiting, "t": t_done, "eff": eff,
                               "rbuf": net.rbuf()});
            if hang {
                p["hang"] = json!(true);
            }
            if !clock.in_step() {
                p["clock_drift"] = json!(true);
            }
            obs.push(p);
        }
        if collision {
            None
        } else {
            Some(Value::Array(obs))
        }
    })
}

fn run_dgram(input: &Value) -> Value {
    for _ in 0..8 {
        if let Some(v) = try_dgram(input) {
            return v;
        }
    }
    json!({"id_collision_every_time": true})
}


/// dgram with many requests at once (ClientDgramPar.tla): bursts of requests
/// that are never answered; observed: sockets opened, sockets open now,
/// requests completed.
fn run_dgpar(input: &Value) -> Value {
    use domain::net::client::request::SendRequest;
    use std::sync::{Arc, Mutex};
    let cfg = &input["cfg"];
    let ops = input["ops"].as_array().cloned().unwrap_or_default();
    let tick = std::time::Duration::from_millis(cfg.get("tickms").and_then(|t| t.as_u64()).unwrap_or(10_000));
    let rt = runtime();
    rt.block_on(async move {
        let act = Activity::default();
        let net = DgramNet::new(&act);
        let (conn, eff) = match dgram_conn(&net, &cfg["conf"]) {
            Some(x) => x,
            None => return json!({"bad_conf": cfg["conf"]}),
        };
        let comp: Completions = Arc::new(Mutex::new(vec![]));
        let mut clock = Clock::new();
        let mut hang = false;
        let mut next_r = 0u64;
        let mut obs = vec![];
        for op in ops.iter() {
            match op["op"].as_str().unwrap_or("") {
                "burst" => {
                    for _ in 0..num(op, "n") {
                        next_r += 1;
                        let req = SendRequest::send_request(&conn, build_request(1 + next_r % 50));
                        spawn_waiter(req, next_r, &comp, &act);
                    }
                }
                "tick" => clock.advance(tick).await,
                _ => return json!({"bad_op": op}),
            }
            if !hang && !settle(&act).await {
                hang = true;
            }
            let (ndone, nok) = {
                let g = comp.lock().unwrap();
                (g.len(), g.iter().filter(|(_, o, _)| o.get("ok").is_some()).count())
            };
            let mut p = json!({"nsock": net.nsocks(), "open": net.nopen(), "ndone": ndone, "eff": eff});
            if nok > 0 {
                p["answered"] = json!(nok); // nothing was ever delivered
            }
            if hang {
                p["hang"] = json!(true);
            }
            if !clock.in_step() {
                p["clock_drift"] = json!(true);
            }
            obs.push(p);
        }
        Value::Array(obs)
    })
}

/// multi_stream over a mock connector.  One tick = 100 s, longer than any
/// back-off of multi_stream (at most 60 s), so a Delay ends with the next tick.
fn run_multi(input: &Value) -> Value {
    use domain::net::client::multi_stream;
    use domain::net::client::request::SendRequest;
    use std::sync::{Arc, Mutex};
    use std::time::Duration;
    let cfg = &input["cfg"];
    // the length of a tick is the specification's (TickMs)
    let tick = Duration::from_millis(cfg.get("tickms").and_then(|t| t.as_u64()).unwrap_or(100_000));
    let nreq = num(cfg, "nreq") as usize;
    let ops = input["ops"].as_array().cloned().unwrap_or_default();
    let rt = runtime();
    rt.block_on(async move {
        let act = Activity::default();
        let connector = StreamConnector::new(&act);
        let mcfg = match ms_config(&cfg["conf"]) {
            Some(c) => c,
            None => return json!({"bad_conf": cfg["conf"]}),
        };
        let eff = ms_eff(&mcfg);
        type Req = domain::net::client::request::RequestMessage<Vec<u8>>;
        let (conn, transport) = if cfg["conf"]["route"] == "conn_new" {
            multi_stream::Connection::<Req>::new(connector.clone())
        } else {
            multi_stream::Connection::<Req>::with_config(connector.clone(), mcfg)
        };
        tokio::spawn(counted(transport.run(), &act));
        let comp: Completions = Arc::new(Mutex::new(vec![]));
        let mut clock = Clock::new();
        let mut now: u64 = 0;
        let mut t_submit = vec![0u64; nreq + 1];
        let mut t_done = vec![-1i64; nreq + 1];
        let mut hang = !settle(&act).await;
        let mut obs = vec![];
        for op in ops.iter() {
            let r = num(op, "r");
            let c = (num(op, "c") as usize).wrapping_sub(1);
            match op["op"].as_str().unwrap_or("") {
                "submit" => {
                    let req = SendRequest::send_request(&conn, build_request(num(op, "q")));
                    spawn_waiter(req, r, &comp, &act);
                    t_submit[r as usize] = now;
                }
                "conn_ok" => {
                    connector.resolve(true);
                }
                "conn_fail" => {
                    connector.resolve(false);
                }
                "reply" | "wrong" => {
                    if let Some(peer) = connector.peer(c) {
                        // the request for question r carries q = r
                        if let Some(id) = id_of_request(&peer, r) {
                            let q = if op["op"] == "reply" { r } else { r + 10 };
                            let f = json!({"id": id, "qr": true, "q": q, "rcode": 0, "body": false, "tc": false, "ka": -1});
                            peer.push_frame(&build_peer_msg(&f));
                        }
                    }
                }
                "close" => {
                    if let Some(peer) = connector.peer(c) {
                        peer.close();
                    }
                }
                "tick" => {
                    clock.advance(tick).await;
                    now += 1;
                }
                _ => return json!({"bad_op": op}),
            }
            if !hang && !settle(&act).await {
                hang = true;
            }
            let written: Vec<Vec<bool>> = (0..connector.npeers())
                .map(|i| {
                    let p = connector.peer(i).unwrap();
                    (1..=nreq as u64).map(|q| times_written(&p, q) > 0).collect()
                })
                .collect();
            let dup = (0..connector.npeers()).any(|i| {
                let p = connector.peer(i).unwrap();
                (1..=nreq as u64).any(|q| times_written(&p, q) > 1)
            });
            let mut done: Vec<Vec<Value>> = vec![vec![]; nreq];
            for (r, o, _) in comp.lock().unwrap().iter() {
                let r = *r as usize;
                if t_done[r] < 0 {
                    t_done[r] = (now - t_submit[r]) as i64;
                }
                done[r - 1].push(json!({"ok": o.get("ok").is_some(), "t": t_done[r]}));
            }
            let mut p = json!({"nconnect": connector.calls(), "written": written, "done": done, "eff": eff});
            if dup {
                p["written_twice"] = json!(true);
            }
            if hang {
                p["hang"] = json!(true);
            }
            if !clock.in_step() {
                p["clock_drift"] = json!(true);
            }
            obs.push(p);
        }
        Value::Array(obs)
    })
}

/// dgram_stream: the real dgram transport over mock sockets and the real
/// multi_stream over the mock connector.  One tick = 10 s.
fn try_dgst(input: &Value) -> Option<Value> {
    use domain::base::Message;
    use domain::net::client::request::SendRequest;
    use domain::net::client::dgram_stream;
    use std::sync::{Arc, Mutex};
    let cfg = &input["cfg"];
    let ops = input["ops"].as_array().cloned().unwrap_or_default();
    let rt = runtime();
    rt.block_on(async move {
        let act = Activity::default();
        let net = DgramNet::new(&act);
        let connector = StreamConnector::new(&act);
        let xcfg = match x_config(&cfg["conf"]) {
            Some(c) => c,
            None => return Some(json!({"bad_conf": cfg["conf"]})),
        };
        let eff = x_eff(&xcfg);
        type Req = domain::net::client::request::RequestMessage<Vec<u8>>;
        let (conn, transport) = if cfg["conf"]["route"] == "conn_new" {
            dgram_stream::Connection::<DgramNet, Req>::new(net.clone(), connector.clone())
        } else {
            dgram_stream::Connection::<DgramNet, Req>::with_config(net.clone(), connector.clone(), xcfg)
        };
        tokio::spawn(counted(transport.run(), &act));
        let comp: Completions = Arc::new(Mutex::new(vec![]));
        let mut clock = Clock::new();
        // the length of a tick is the specification's (TickMs)
        let tick = std::time::Duration::from_millis(cfg.get("tickms").and_then(|t| t.as_u64()).unwrap_or(10_000));
        let mut now: i64 = 0;
        let mut t_done: i64 = -1;
        let mut hang = !settle(&act).await;
        let mut obs = vec![];
        let mut collision = false;
        let ids_of = |net: &DgramNet| -> Vec<u16> {
            (0..net.nsocks())
                .filter_map(|i| net.sent(i).first().and_then(|d| Message::from_slice(d).ok().map(|m| m.header().id())))
                .collect()
        };
        for op in ops.iter() {
            let c = (num(op, "c") as usize).wrapping_sub(1);
            match op["op"].as_str().unwrap_or("") {
                "submit" => {
                    let req = SendRequest::send_request(&conn, build_request(num(op, "q")));
                    spawn_waiter(req, 1, &comp, &act);
                }
                "deliver" => {
                    let ids = ids_of(&net);
                    let cur = net.nsocks().saturating_sub(1);
                    let d = &op["d"];
                    let dgram = match d["kind"].as_str().unwrap_or("") {
                        "short" => Ok(vec![1u8, 2, 3]),
                        _ => {
                            let mut f = d["f"].clone();
                            let sym = num(&f, "id") as usize;
                            let real = if sym >= 1 && sym <= ids.len() {
                                ids[sym - 1]
                            } else {
                                (0..=u16::MAX).find(|x| !ids.contains(x)).unwrap_or(0)
                            };
                            f["id"] = json!(real);
                            Ok(build_peer_msg(&f))
                        }
                    };
                    net.deliver(cur, dgram);
                }
                "conn_ok" => {
                    connector.resolve(true);
                }
                "conn_fail" => {
                    connector.resolve(false);
                }
                "reply" | "wrong" => {
                    if let Some(peer) = connector.peer(c) {
                        if let Some(id) = id_of_request(&peer, 1) {
                            let q = if op["op"] == "reply" { 1 } else { 11 };
                            // stream answers carry a keepalive option: it tells the legs apart
                            let f = json!({"id": id, "qr": true, "q": q, "rcode": 0, "body": true, "tc": false, "ka": 7});
                            peer.push_frame(&build_peer_msg(&f));
                        }
                    }
                }
                "close" => {
                    if let Some(peer) = connector.peer(c) {
                        peer.close();
                    }
                }
                "tick" => {
                    clock.advance(tick).await;
                    now += 1;
                }
                _ => return Some(json!({"bad_op": op})),
            }
            if !hang && !settle(&act).await {
                hang = true;
            }
            let ids = ids_of(&net);
            for (i, a) in ids.iter().enumerate() {
                if ids[..i].contains(a) {
                    collision = true;
                }
            }
            let udp: Vec<Value> = (0..net.nsocks())
                .map(|i| match net.sent(i).first() {
                    Some(d) => abstract_dgram_request(d),
                    None => json!(-1),
                })
                .collect();
            let written: Vec<Vec<bool>> = (0..connector.npeers())
                .map(|i| vec![times_written(&connector.peer(i).unwrap(), 1) > 0])
                .collect();
            let mut done = vec![];
            for (_, o, _) in comp.lock().unwrap().iter() {
                if t_done < 0 {
                    t_done = now; // submit is the first operation, at tick 0
                }
                done.push(match o.get("ok") {
                    Some(f) => json!({"ok": true,
                                      "via": if f["ka"].as_i64().unwrap_or(-1) < 0 { "udp" } else { "tcp" },
                                      "tc": f["tc"],
                                      "rcode": if f["ka"].as_i64().unwrap_or(-1) < 0 { f["rcode"].clone() } else { json!(0) },
                                      "t": t_done}),
                    None => json!({"ok": false,
                                   "via": if connector.calls() > 0 { "tcp" } else { "udp" },
                                   "tc": false, "rcode": 0, "t": t_done}),
                });
            }
            let mut p = json!({"udp": udp, "nconnect": connector.calls(), "written": written, "done": done,
                               "eff": eff});
            if hang {
                p["hang"] = json!(true);
            }
            if !clock.in_step() {
                p["clock_drift"] = json!(true);
            }
            obs.push(p);
        }
        if collision { None } else { Some(Value::Array(obs)) }
    })
}

fn run_dgst(input: &Value) -> Value {
    for _ in 0..8 {
        if let Some(v) = try_dgst(input) {
            return v;
        }
    }
    json!({"id_collision_every_time": true})
}

/// A configuration object on its own: the calls one by one, what the
/// getters say after each.
fn run_config(input: &Value) -> Value {
    let mut obj = match CfgObj::make(input["obj"].as_str().unwrap_or(""), input["route"].as_str().unwrap_or("")) {
        Some(o) => o,
        None => return json!({"bad_obj": input["obj"]}),
    };
    let mut obs = vec![];
    for k in input["calls"].as_array().cloned().unwrap_or_default() {
        if !obj.call(&k) {
            return json!({"bad_call": k});
        }
        obs.push(obj.eff());
    }
    Value::Array(obs)
}

fn main() {
    if !freeze_clock() {
        println!("TOOLERROR clock interposition does not work on this platform");
        std::process::exit(2);
    }
    let mut n: u64 = 0;
    run_cases(|input| {
        n += 1;
        match input["kind"].as_str() {
            Some("stream") => run_stream(input, n),
            Some("flow") => run_flow(input, n),
            Some("dgram") => run_dgram(input),
            Some("dgpar") => run_dgpar(input),
            Some("multi") => run_multi(input),
            Some("dgst") => run_dgst(input),
            Some("config") => run_config(input),
            _ => json!({"bad_case": true}),
        }
    });
}
