//! S->I executor for ClientStream / ClientDgram / ClientCompose behaviours.
//!
//! A case is a whole behaviour: `in.ops` is the list of environment steps,
//! `exp` the specification's projection after every step.  Each step is
//! performed on the real transport over in-memory sockets, the runtime is
//! run until nothing is runnable, and the projection is taken.
#[path = "../client.rs"]
mod client;

use client::*;
use serde_json::{json, Value};
use verif_harness::common::*;

fn num(v: &Value, k: &str) -> u64 {
    v.get(k).and_then(|x| x.as_u64()).unwrap_or(0)
}

fn run_stream(input: &Value, salt: u64) -> Value {
    let cfg = &input["cfg"];
    let nreq = num(cfg, "nreq") as usize;
    let ops = input["ops"].as_array().cloned().unwrap_or_default();
    // the client's stream accepts 5 or 64k octets per write call: the
    // projection must not depend on how a request is chunked
    let wchunk = if salt % 2 == 0 { 5 } else { 65536 };
    let rt = runtime();
    rt.block_on(async move {
        let mut s = StreamSession::new(num(cfg, "rt"), num(cfg, "idle"), wchunk);
        s.settle().await;
        let mut obs = vec![];
        for (i, op) in ops.iter().enumerate() {
            match op["op"].as_str().unwrap_or("") {
                "submit" => s.submit(num(op, "r"), num(op, "q")),
                "peer" => {
                    let split = (salt + i as u64) % 3 == 0;
                    s.peer_msg(&op["f"], split).await
                }
                "end" => s.peer_end(op["how"].as_str().unwrap_or("eof")),
                "wfail" => s.peer.stop_reading(),
                "drop" => s.drop_handles(),
                "tick" => s.tick().await,
                _ => return json!({"bad_op": op}),
            }
            s.settle().await;
            obs.push(s.projection(nreq));
        }
        Value::Array(obs)
    })
}


/// One attempt at a dgram case; None = the library drew the same random ID
/// for two attempts, so symbolic IDs cannot be mapped (the case is re-run).
fn try_dgram(input: &Value) -> Option<Value> {
    use domain::base::Message;
    use domain::net::client::request::SendRequest;
    use std::sync::{Arc, Mutex};
    let cfg = &input["cfg"];
    let ops = input["ops"].as_array().cloned().unwrap_or_default();
    let rt = runtime();
    rt.block_on(async move {
        let act = Activity::default();
        let net = DgramNet::new(&act);
        {
            let mut g = net.inner.lock().unwrap();
            let at = num(&cfg["fault"], "at") as usize;
            match cfg["fault"]["kind"].as_str().unwrap_or("none") {
                "connect" => g.connect_fail = Some(at - 1),
                "send" => g.send_fail = Some((at - 1, false)),
                "short" => g.send_fail = Some((at - 1, true)),
                _ => {}
            }
        }
        let conn = dgram_conn(&net, num(cfg, "rd"), num(cfg, "retries") as u8, 100);
        let comp: Completions = Arc::new(Mutex::new(vec![]));
        let mut clock = Clock::new();
        let mut hang = false;
        let mut obs = vec![];
        let mut collision = false;
        // IDs of the datagrams sent so far, by attempt (socket)
        let ids_of = |net: &DgramNet| -> Vec<u16> {
            (0..net.nsocks())
                .filter_map(|i| net.sent(i).first().and_then(|d| Message::from_slice(d).ok().map(|m| m.header().id())))
                .collect()
        };
        for op in ops.iter() {
            match op["op"].as_str().unwrap_or("") {
                "submit" => {
                    let req = SendRequest::send_request(&conn, build_request(num(op, "q")));
                    spawn_waiter(req, 1, &comp, &act);
                }
                "deliver" => {
                    let ids = ids_of(&net);
                    let cur = net.nsocks().saturating_sub(1);
                    let d = &op["d"];
                    let dgram = match d["kind"].as_str().unwrap_or("") {
                        "short" => Ok(vec![1u8, 2, 3, 4, 5, 6, 7]),
                        "ioerr" => Err(()),
                        _ => {
                            let mut f = d["f"].clone();
                            let sym = num(&f, "id") as usize;
                            let real = if sym >= 1 && sym <= ids.len() {
                                ids[sym - 1]
                            } else {
                                (0..=u16::MAX).find(|x| !ids.contains(x)).unwrap_or(0)
                            };
                            f["id"] = json!(real);
                            Ok(build_peer_msg(&f))
                        }
                    };
                    net.deliver(cur, dgram);
                }
                "tick" => clock.advance(TICK).await,
                _ => return Some(json!({"bad_op": op})),
            }
            if !settle(&act).await {
                hang = true;
            }
            let ids = ids_of(&net);
            for (i, a) in ids.iter().enumerate() {
                if ids[..i].contains(a) {
                    collision = true;
                }
            }
            let sent: Vec<Value> = (0..net.nsocks())
                .map(|i| match net.sent(i).first() {
                    Some(d) => abstract_request(d)["q"].clone(),
                    None => json!(-1),
                })
                .collect();
            let done: Vec<Value> = comp
                .lock()
                .unwrap()
                .iter()
                .map(|(_, o, _)| {
                    let mut o = o.clone();
                    if let Some(f) = o.get_mut("ok") {
                        // real ID -> the attempt that drew it
                        let real = f["id"].as_u64().unwrap_or(0) as u16;
                        f["id"] = match ids.iter().position(|x| *x == real) {
                            Some(p) => json!(p + 1),
                            None => json!(99),
                        };
                    }
                    o
                })
                .collect();
            let waiting = net.nsocks() > 0 && net.open(net.nsocks() - 1) && done.is_empty();
            let mut p = json!({"sent": sent, "done": done, "waiting": waiting});
            if hang {
                p["hang"] = json!(true);
            }
            if !clock.in_step() {
                p["clock_drift"] = json!(true);
            }
            obs.push(p);
        }
        if collision {
            None
        } else {
            Some(Value::Array(obs))
        }
    })
}

fn run_dgram(input: &Value) -> Value {
    for _ in 0..8 {
        if let Some(v) = try_dgram(input) {
            return v;
        }
    }
    json!({"id_collision_every_time": true})
}

fn main() {
    if !freeze_clock() {
        println!("TOOLERROR clock interposition does not work on this platform");
        std::process::exit(2);
    }
    let mut n: u64 = 0;
    run_cases(|input| {
        n += 1;
        match input["kind"].as_str() {
            Some("stream") => run_stream(input, n),
            Some("dgram") => run_dgram(input),
            _ => json!({"bad_case": true}),
        }
    });
}
