//! S->I executor for the C05 cases generated from spec/MC_Rdata.tla.
#[path = "../rdata.rs"]
mod rdata;
use serde_json::json;
use verif_harness::common::*;

fn main() {
    run_cases(|input| {
        if input["mode"].as_str() == Some("bitmap") {
            let adds: Vec<u16> = input["adds"].as_array().map(|a| a.iter().map(|x| x.as_u64().unwrap_or(0) as u16).collect()).unwrap_or_default();
            let probe: Vec<u16> = input["probe"].as_array().map(|a| a.iter().map(|x| x.as_u64().unwrap_or(0) as u16).collect()).unwrap_or_default();
            return rdata::observe_bitmap(&adds, &probe);
        }
        match input["mode"].as_str() {
            Some("svcparams") => {
                let pushes: Vec<(u16, Vec<u8>)> = input["pushes"].as_array().unwrap().iter()
                    .map(|x| (x["k"].as_u64().unwrap() as u16, bytes_of(&x["v"]))).collect();
                return rdata::observe_svcparams(&pushes);
            }
            Some("txt") => {
                let ops: Vec<(String, usize)> = input["ops"].as_array().unwrap().iter()
                    .map(|x| (x["op"].as_str().unwrap().to_string(), x["n"].as_u64().unwrap() as usize)).collect();
                return rdata::observe_txt(&ops);
            }
            Some("optbuild") => {
                let pushes: Vec<serde_json::Value> = input["pushes"].as_array().cloned().unwrap_or_default();
                return rdata::optbuild::observe_optbuild(&pushes);
            }
            Some("ctor") => {
                let fields: Vec<serde_json::Value> = input["fields"].as_array().cloned().unwrap_or_default();
                return rdata::ctor::observe_ctor(input["rtype"].as_u64().unwrap_or(0) as u16, &fields,
                                                 input["strictOpts"].as_bool().unwrap_or(false));
            }
            Some("ctorlong") => {
                let fields: Vec<serde_json::Value> = input["fields"].as_array().cloned().unwrap_or_default();
                return rdata::ctor::observe_ctor_long(input["rtype"].as_u64().unwrap_or(0) as u16, &fields,
                    input["n"].as_u64().unwrap_or(0) as usize, input["b"].as_u64().unwrap_or(0) as u8,
                    input["checked"].as_bool().unwrap_or(false));
            }
            Some("alpn") => {
                let ids: Vec<Vec<u8>> = input["ids"].as_array().unwrap().iter().map(bytes_of).collect();
                return rdata::observe_alpn(&ids);
            }
            _ => {}
        }
        let msg = bytes_of_wide(&input["msg"]);
        let may = input["mayCompress"].as_bool().unwrap_or(false);
        let strict = input["strictOpts"].as_bool().unwrap_or(false);
        let obs = rdata::observe_rdata(&msg, may, strict);
        if obs["parse"] == "ok" {
            // the library must report the type the record was sent with
            let _ = input["rtype"].as_u64();
        }
        let _ = json!(null);
        obs
    });
}

fn bytes_of_wide(v: &serde_json::Value) -> Vec<u8> {
    v.as_array()
        .map(|a| a.iter().map(|x| x.as_u64().unwrap_or(0) as u8).collect())
        .unwrap_or_default()
}
