//! S->I executor for Denial.tla / MC_ZoneBuild.tla cases (C13).
#[path = "../denial.rs"]
mod denial;

use serde_json::json;
use verif_harness::common::run_cases;

fn main() {
    run_cases(|input| match input["kind"].as_str() {
        Some("nsec") => denial::nsec_case(input),
        Some("nsec3") => denial::nsec3_case(input),
        Some("bitmap") => denial::bitmap_case(input),
        Some("zonebuild") => denial::zonebuild_case(input),
        Some("n3hash") => denial::n3hash_case(input),
        Some("salt") => denial::salt_case(input),
        Some("n3flags") => denial::n3flags_case(input),
        _ => json!({"bad_case": true}),
    });
}
