//! S->I executor for HeaderAlg.tla cases (spec/MC_HeaderAlgGen.tla).
#[path = "../headeralg.rs"]
mod headeralg;

use domain::base::header::Flags;
use domain::base::iana::{OptRcode, Rcode, TsigRcode};
use domain::base::message_builder::MessageBuilder;
use domain::base::name::ToLabelIter;
use domain::base::{Message, Name, ParsedRecord, ToName};
use domain::rdata::A;
use headeralg::*;
use serde_json::{json, Value};
use std::str::FromStr;
use verif_harness::common::*;

fn op_of(v: &Value) -> (String, Vec<i64>) {
    (v["k"].as_str().unwrap_or("").to_string(), ints(&v["a"]))
}

/// behaviours: the projection after every operation
fn beh(input: &Value) -> Value {
    let init = &input["init"];
    let g = init["g"].as_i64().unwrap_or(-1);
    let h0 = bytes_of(&init["h"]);
    let rb: Vec<(usize, Vec<u8>, bool)> = input["rb"]
        .as_array()
        .map(|a| {
            a.iter()
                .map(|e| (e["i"].as_u64().unwrap_or(0) as usize, bytes_of(&e["h"]), e["mp"].as_i64() == Some(1)))
                .collect()
        })
        .unwrap_or_default();
    let mut out = vec![];
    if g == -1 {
        let o0 = bytes_of(&init["o"][0]);
        let mut p = Plain::new(&h0, &o0);
        for (i, opv) in input["ops"].as_array().unwrap().iter().enumerate() {
            let (k, a) = op_of(opv);
            let mut r = p.apply(&k, &a);
            if let Some((_, h, mp)) = rb.iter().find(|e| e.0 == i + 1) {
                // a step on which a named deviation may show: record what
                // happened, then continue from the ideal state
                let proj = p.project(r);
                if r == 2 && *mp {
                    p.rebase(h);
                    r = 0;
                    out.push(p.project(r));
                } else {
                    out.push(proj);
                    p.rebase(h);
                }
                continue;
            }
            out.push(p.project(r));
        }
    } else {
        let mut b = Builder::new();
        for (i, opv) in input["ops"].as_array().unwrap().iter().enumerate() {
            let (k, a) = op_of(opv);
            let (mut r, c) = b.apply(&k, &a);
            // request_axfr reports the id it drew in c; it is not compared
            let c: Vec<i64> = if k == "request_axfr" { vec![] } else { c };
            if let Some((_, h, mp)) = rb.iter().find(|e| e.0 == i + 1) {
                if r == 2 && *mp {
                    b.rebase(h);
                    r = 0;
                    out.push(b.project(r, &c));
                } else {
                    out.push(b.project(r, &c));
                    b.rebase(h);
                }
                continue;
            }
            out.push(b.project(r, &c));
        }
    }
    Value::Array(out)
}

/// every operation applied to a fresh copy of the initial header
fn indep(input: &Value) -> Value {
    let init = &input["init"];
    let h0 = bytes_of(&init["h"]);
    let o0 = bytes_of(&init["o"][0]);
    let p0 = Plain::new(&h0, &o0);
    let x0 = p0.project(0)["x"].clone();
    let mut steps = vec![];
    for opv in input["ops"].as_array().unwrap() {
        let (k, a) = op_of(opv);
        let mut p = Plain::new(&h0, &o0);
        let r = p.apply(&k, &a);
        let pr = p.project(r);
        // the OPT header must not move when the message header is written
        let r = if pr["o"][0] == jb(&o0) { pr["r"].clone() } else { json!(75) };
        steps.push(json!([pr["h"], r]));
    }
    json!({"x0": x0, "steps": steps})
}

fn rcode_case(input: &Value) -> Value {
    let v = input["v"].as_u64().unwrap_or(0) as u16;
    let m = OptRcode::masked_from_int(v);
    let (lo, ext) = m.to_parts();
    let mut sound = lo == m.rcode() && ext == m.ext();
    let join = OptRcode::from_parts(lo, ext);
    let checked = OptRcode::checked_from_int(v);
    if let Some(c) = checked {
        sound &= c.to_int() == v;
    }
    sound &= OptRcode::try_from(v).is_ok() == checked.is_some();
    sound &= TsigRcode::from(m).to_int() == m.to_int();
    sound &= OptRcode::from(lo).to_int() == lo.to_int() as u16 && !OptRcode::from(lo).is_ext();
    let text = format!("{}", m);
    if !text.chars().next().map(|c| c.is_ascii_digit()).unwrap_or(true) {
        sound &= OptRcode::from_str(&text) == Ok(m) && m.to_mnemonic_str() == Some(text.as_str());
    } else {
        sound &= m.to_mnemonic_str().is_none();
    }
    let b = v as u8;
    let rc8 = Rcode::checked_from_int(b);
    if let Some(c) = rc8 {
        sound &= c.to_int() == b;
    }
    sound &= Rcode::try_from(b).is_ok() == rc8.is_some();
    let text4 = format!("{}", lo);
    if !text4.chars().next().map(|c| c.is_ascii_digit()).unwrap_or(true) {
        sound &= Rcode::from_str(&text4) == Ok(lo);
    }
    json!({
        "low": lo.to_int(), "ext": ext, "isext": m.is_ext() as i64, "join": join.to_int(),
        "masked": if sound { m.to_int() as i64 } else { -1 },
        "checked": checked.is_some() as i64,
        "rc8": rc8.is_some() as i64, "rc8m": Rcode::masked_from_int(b).to_int(),
        "text": text, "text4": text4,
    })
}

fn flags_case(input: &Value) -> Value {
    let m = input["m"].as_i64().unwrap_or(0);
    let f = flags_of_mask(m);
    let text = format!("{}", f);
    let back = match Flags::from_str(&text) {
        Ok(f2) => mask_of_flags(f2),
        Err(_) => -1,
    };
    // lower case reads the same
    let back = match Flags::from_str(&text.to_lowercase()) {
        Ok(f2) if mask_of_flags(f2) == back => back,
        _ => -2,
    };
    json!({"text": text, "back": back})
}

fn flagparse_case(input: &Value) -> Value {
    let toks: Vec<String> = input["toks"]
        .as_array()
        .map(|a| a.iter().map(|t| t.as_str().unwrap_or("").to_string()).collect())
        .unwrap_or_default();
    let s = toks.join(" ");
    json!({"mask": match Flags::from_str(&s) { Ok(f) => mask_of_flags(f), Err(_) => -1 }})
}

fn ids_of_section<'a, I>(it: I) -> Vec<i64>
where
    I: Iterator<Item = Result<ParsedRecord<'a, Vec<u8>>, domain::base::wire::ParseError>>,
{
    let mut out = vec![];
    for rr in it {
        let rr = match rr {
            Ok(rr) => rr,
            Err(_) => {
                out.push(-1);
                break;
            }
        };
        match rr.to_record::<A>() {
            Ok(Some(r)) => {
                let id = r.data().addr().octets()[3] as i64;
                let want = id_record(id);
                let name: Name<Vec<u8>> = r.owner().to_name();
                if name.as_slice() == want.0.as_slice() && r.ttl().as_secs() == want.1 {
                    out.push(id)
                } else {
                    out.push(-2)
                }
            }
            _ => out.push(-3),
        }
    }
    out
}

fn copy_case(input: &Value) -> Value {
    let src = input["src"].as_array().unwrap();
    let keep = ints(&input["keep"]);
    let cap = input["cap"].as_i64().unwrap_or(99);
    let pre = ints(&input["pre"]);
    let w = input["w"].as_u64().unwrap_or(0) as u16;
    // source: all header bits set, one question, the three record sections
    let mut sb = MessageBuilder::new_vec().question();
    sb.push(question(1)).unwrap();
    let mut sb = sb.answer();
    for i in ints(&src[0]) {
        sb.push(id_record(i)).unwrap();
    }
    let mut sb = sb.authority();
    for i in ints(&src[1]) {
        sb.push(id_record(i)).unwrap();
    }
    let mut sb = sb.additional();
    for i in ints(&src[2]) {
        sb.push(id_record(i)).unwrap();
    }
    let mut octs = sb.finish();
    for b in octs[..4].iter_mut() {
        *b = 0xFF;
    }
    let source = Message::from_octets(octs).unwrap();
    // destination
    let mut db = MessageBuilder::new_vec();
    set_word(&mut db, w, 0x0102);
    let mut db = db.answer();
    for i in &pre {
        db.push(id_record(*i)).unwrap();
    }
    let reclen = id_record(1).0.compose_len() as usize + 10 + 4;
    if cap < 50 {
        let lim = db.as_slice().len() + (cap as usize) * reclen + 1;
        db.set_push_limit(lim);
    }
    let res = source.copy_records(db, |rr| match rr.into_record::<A>() {
        Ok(Some(r)) if keep.contains(&(r.data().addr().octets()[3] as i64)) => Some(r),
        _ => None,
    });
    match res {
        Err(_) => json!({"ok": 0}),
        Ok(ab) => {
            let m: Message<Vec<u8>> = ab.into_message();
            let c = m.header_counts();
            let hw = ((m.as_slice()[2] as u64) << 8) | m.as_slice()[3] as u64;
            let idok = m.header().id() == 0x0102 && c.qdcount() == 0;
            let (an, ns, ar) = match m.sections() {
                Ok((_, an, ns, ar)) => (ids_of_section(an), ids_of_section(ns), ids_of_section(ar)),
                Err(_) => (vec![-9], vec![], vec![]),
            };
            json!({"ok": if idok { 1 } else { -1 }, "sec": [an, ns, ar],
                   "counts": [c.ancount(), c.nscount(), c.arcount()], "w": hw})
        }
    }
}

fn dig_case(input: &Value) -> Value {
    let d = &input["d"];
    let w = d["w"].as_u64().unwrap_or(0) as u16;
    let id = d["id"].as_u64().unwrap_or(0) as u16;
    let nq = d["nq"].as_u64().unwrap_or(0) as usize;
    let (an, ns, ar) = (d["an"].as_i64().unwrap_or(0), d["ns"].as_i64().unwrap_or(0), d["ar"].as_i64().unwrap_or(0));
    let opt = ints(&d["opt"]);
    let optfirst = d["optfirst"].as_i64() == Some(1);
    let mut b = MessageBuilder::new_vec().question();
    for i in 0..nq {
        b.push(question(i)).unwrap();
    }
    let mut b = b.answer();
    for i in 0..an {
        b.push(id_record(i + 1)).unwrap();
    }
    let mut b = b.authority();
    for i in 0..ns {
        b.push(id_record(i + 11)).unwrap();
    }
    let mut b = b.additional();
    let push_opt = |b: &mut domain::base::message_builder::AdditionalBuilder<Vec<u8>>| {
        if !opt.is_empty() {
            b.opt(|o| {
                o.set_udp_payload_size(opt[0] as u16);
                o.set_rcode(OptRcode::from_parts(Rcode::NOERROR, opt[1] as u8));
                o.set_version(opt[2] as u8);
                o.set_dnssec_ok(opt[3] != 0);
                Ok(())
            })
            .unwrap();
        }
    };
    if optfirst {
        push_opt(&mut b);
    }
    for i in 0..ar {
        b.push(id_record(i + 21)).unwrap();
    }
    if !optfirst {
        push_opt(&mut b);
    }
    let mut octs = b.finish();
    octs[0] = (id >> 8) as u8;
    octs[1] = id as u8;
    octs[2] = (w >> 8) as u8;
    octs[3] = w as u8;
    let msg = Message::from_octets(octs).unwrap();
    let text = format!("{}", msg.display_dig_style());
    parse_dig(&text)
}

/// Reads the values back out of the dig-style text.
fn parse_dig(text: &str) -> Value {
    let lines: Vec<&str> = text.lines().collect();
    let bad = |why: &str| json!({"unparsed": why, "text": text});
    if lines.len() < 2 {
        return bad("short");
    }
    let l0 = match lines[0].strip_prefix(";; ->>HEADER<<- opcode: ") {
        Some(r) => r,
        None => return bad("line 1"),
    };
    let p: Vec<&str> = l0.split(", ").collect();
    if p.len() != 3 {
        return bad("line 1 parts");
    }
    let opcode = p[0].to_string();
    let rcode = match p[1].strip_prefix("rcode: ") {
        Some(r) => r.to_string(),
        None => return bad("rcode"),
    };
    let id: i64 = match p[2].strip_prefix("id: ").and_then(|s| s.parse().ok()) {
        Some(v) => v,
        None => return bad("id"),
    };
    let l1 = match lines[1].strip_prefix(";; flags: ") {
        Some(r) => r,
        None => return bad("line 2"),
    };
    let (fl, rest) = match l1.split_once("; ") {
        Some(x) => x,
        None => return bad("line 2 split"),
    };
    let flags: Vec<&str> = fl.split(' ').filter(|s| !s.is_empty()).collect();
    let mut counts = vec![];
    for (part, label) in rest.split(", ").zip(["QUERY: ", "ANSWER: ", "AUTHORITY: ", "ADDITIONAL: "]) {
        match part.strip_prefix(label).and_then(|s| s.parse::<i64>().ok()) {
            Some(v) => counts.push(v),
            None => return bad("counts"),
        }
    }
    if counts.len() != 4 {
        return bad("counts len");
    }
    let mut sec = [0i64; 4];
    let mut cur: Option<usize> = None;
    let mut edns: Vec<i64> = vec![];
    for l in &lines[2..] {
        if l.is_empty() {
            cur = None;
            continue;
        }
        if let Some(r) = l.strip_prefix("; EDNS: version ") {
            // "; EDNS: version V; flags: B; udp: N"
            let parts: Vec<&str> = r.split("; ").collect();
            if parts.len() == 3 {
                let v = parts[0].parse::<i64>().unwrap_or(-1);
                let f = match parts[1].strip_prefix("flags: ") {
                    Some("true") | Some("do") => 1,
                    Some("false") | Some("") => 0,
                    _ => -1,
                };
                let u = parts[2].strip_prefix("udp: ").and_then(|s| s.parse::<i64>().ok()).unwrap_or(-1);
                edns = vec![v, f, u];
            } else {
                return bad("edns");
            }
            continue;
        }
        match *l {
            ";; QUESTION SECTION:" => cur = Some(0),
            ";; ANSWER SECTION:" => cur = Some(1),
            ";; AUTHORITY SECTION:" => cur = Some(2),
            ";; ADDITIONAL SECTION:" => cur = Some(3),
            ";; OPT PSEUDOSECTION:" => cur = None,
            _ => {
                if let Some(s) = cur {
                    if l.contains("<invalid") {
                        return bad("invalid");
                    }
                    sec[s] += 1;
                }
            }
        }
    }
    json!({"opcode": opcode, "rcode": rcode, "id": id, "flags": flags, "counts": counts,
           "lines": sec.to_vec(), "edns": edns})
}

fn main() {
    run_cases(|input| match input["t"].as_str().unwrap_or("") {
        "beh" => beh(input),
        "indep" => indep(input),
        "rcode" => rcode_case(input),
        "flags" => flags_case(input),
        "flagparse" => flagparse_case(input),
        "copy" => copy_case(input),
        "dig" => dig_case(input),
        _ => json!({"unknown": true}),
    });
}
