//! I->S recorder for the presentation round trip (C06).
//!
//! usage: record_present <trace.ndjson> <seed> <n>
//!
//! Random records of the types Presentation.tla / ZoneFile.tla model (TXT,
//! HINFO, NS/CNAME/PTR/DNAME, MX, RFC 3597 generic), with names and strings
//! over all 256 octet values and up to the length limits, are written by
//! the library in its four forms and read back by the library's reader;
//! likewise the carriers of the restricted-alphabet token fields (CAA, NSEC,
//! TLSA, NSEC3PARAM) over everything their constructors admit.
//! One event per (record, kind): the record (wire), the text, the outcome.
#[path = "../zf.rs"]
mod zf;
#[path = "../present_types.rs"]
mod present_types;
use serde_json::json;
use verif_harness::common::*;

const SPECIAL: &[u8] = b" \"();.@$\\#\x00\x7f\xff\n\t0aZ-";

fn octs(rng: &mut Rng, min: usize, max: usize) -> Vec<u8> {
    let n = min + rng.below((max - min + 1) as u64) as usize;
    (0..n).map(|_| match rng.below(3) { 0 => rng.next() as u8, 1 => *rng.pick(SPECIAL), _ => b'a' + rng.below(26) as u8 }).collect()
}

/// label octets: mostly letters/digits and octets the code's writer escapes,
/// now and then one of the octets it does not ('"', ';', '(', ')', '$')
fn label(rng: &mut Rng, max: usize) -> Vec<u8> {
    let n = 1 + rng.below(max as u64) as usize;
    (0..n).map(|_| match rng.below(24) {
        0 => *rng.pick(b"\"();$"),
        1..=4 => *rng.pick(b" .\\@#\x00\x7f\xff\n\t-"),
        5..=7 => { let b = rng.next() as u8; if b"\"();$".contains(&b) { b'x' } else { b } }
        _ => b'a' + rng.below(26) as u8,
    }).collect()
}

fn name(rng: &mut Rng) -> Vec<u8> {
    let mut v = vec![];
    let labels = rng.below(4);
    for _ in 0..labels {
        let max = if rng.chance(1, 10) { 63 } else { 6 };
        let l = label(rng, max);
        if v.len() + l.len() + 2 > 250 { break; }
        v.push(l.len() as u8);
        v.extend_from_slice(&l);
    }
    v.push(0);
    v
}

fn cs(rng: &mut Rng) -> Vec<u8> {
    let max = match rng.below(10) { 0 => 255, 1 => 0, _ => 8 };
    let s = octs(rng, 0, max);
    let mut v = vec![s.len() as u8];
    v.extend_from_slice(&s);
    v
}

fn shuffled<T: Clone>(rng: &mut Rng, xs: &[T], n: usize) -> Vec<T> {
    let mut v = xs.to_vec();
    for i in (1..v.len()).rev() {
        let j = rng.below(i as u64 + 1) as usize;
        v.swap(i, j);
    }
    v.truncate(n.min(v.len()));
    v
}

/// SVCB RDATA: priority, a plain target, parameters in ascending key order
/// whose list values are in random order (the order inside a list is data).
/// Keys whose text contains '9' or 'z', no-default-alpn, and values with
/// characters the value writer leaves bare are left to the type sweep
/// (known deviations there).
fn svcb(rng: &mut Rng) -> Vec<u8> {
    let mut v = vec![0, 1 + rng.below(5) as u8];
    v.extend_from_slice(b"\x03svc\x02ex\x00");
    let p = |k: u16, val: Vec<u8>| -> Vec<u8> { [k.to_be_bytes().to_vec(), (val.len() as u16).to_be_bytes().to_vec(), val].concat() };
    if rng.chance(2, 3) {
        let n = 1 + rng.below(4) as usize;
        let ids = shuffled(rng, &[&b"h2"[..], b"h3", b"http/1.1", b"dot", b"doq"], n);
        v.extend(p(1, ids.iter().flat_map(|i| [vec![i.len() as u8], i.to_vec()].concat()).collect()));
    }
    if rng.chance(1, 2) { v.extend(p(3, (rng.next() as u16).to_be_bytes().to_vec())); }
    if rng.chance(1, 2) { let n = 1 + rng.below(4) as usize; v.extend(p(4, rng.bytes(4 * n))); }
    if rng.chance(1, 4) { let n = 1 + rng.below(20) as usize; v.extend(p(5, rng.bytes(n))); }
    if rng.chance(1, 2) { let n = 1 + rng.below(3) as usize; v.extend(p(6, rng.bytes(16 * n))); }
    if rng.chance(1, 2) {
        let n = 1 + rng.below(5) as usize;
        let mut gs: Vec<u16> = vec![];
        while gs.len() < n { let g = rng.next() as u16; if !gs.contains(&g) { gs.push(g); } }
        v.extend(p(9, gs.iter().flat_map(|g| g.to_be_bytes()).collect()));
    }
    if rng.chance(1, 3) {
        let n = rng.below(6) as usize;
        v.extend(p(65280 + rng.below(9) as u16, (0..n).map(|_| b'a' + rng.below(26) as u8).collect()));
    }
    v
}

/// a number of the type's range: its ends, where the number of digits changes, or any
fn bounded(rng: &mut Rng, max: u32) -> u32 {
    match rng.below(4) {
        0 => *rng.pick(&[0u32, 1, 9, 10, 99, 100, 249, 250, 255, 256, 999, 1000, 9999, 10000, 65529, 65530, 65535]) % (max + 1),
        1 => max - rng.below(7) as u32,
        _ => (rng.next() % (max as u64 + 1)) as u32,
    }
}

/// Carrier records of the restricted-alphabet token fields, over everything
/// the constructors admit: a CAA tag of ASCII letters (both cases) and digits,
/// 1 to 255 characters; integers at and between the ends of their ranges; type
/// bitmaps over mnemonics and TYPEnnn; salts of any octets, also none.
fn field_record(rng: &mut Rng) -> (u16, Vec<u8>) {
    const ALNUM: &[u8] = b"ABCDEFGHIJKLMNOPQRSTUVWXYZabcdefghijklmnopqrstuvwxyz0123456789AZaz09";
    match rng.below(4) {
        0 => {
            let n = match rng.below(12) { 0 => 255, 1 => 1, _ => 1 + rng.below(15) as usize };
            let tag: Vec<u8> = (0..n).map(|_| *rng.pick(ALNUM)).collect();
            let val = octs(rng, 0, 12);
            (257, [vec![bounded(rng, 255) as u8, n as u8], tag, val].concat())
        }
        1 => {
            let k = rng.below(7) as usize;
            let mut types: Vec<u16> = vec![];
            while types.len() < k {
                let t = match rng.below(3) { 0 => 1 + rng.below(65) as u16, 1 => *rng.pick(&[99u16, 100, 101, 102, 103, 104, 105, 106, 107, 108, 109, 128, 249, 250, 251, 252, 253, 254, 255, 256, 257, 258, 259, 260, 32768, 32769, 32770, 65535, 0]),
                                              _ => rng.next() as u16 };
                if !types.contains(&t) { types.push(t); }
            }
            (47, [name(rng), present_types::bitmap(&types)].concat())
        }
        2 => {
            let k = 1 + rng.below(20) as usize;
            (52, [vec![bounded(rng, 255) as u8, bounded(rng, 255) as u8, bounded(rng, 255) as u8], rng.bytes(k)].concat())
        }
        _ => {
            let k = if rng.chance(1, 4) { 0 } else { 1 + rng.below(8) as usize };
            (51, [vec![bounded(rng, 255) as u8, bounded(rng, 255) as u8], (bounded(rng, 65535) as u16).to_be_bytes().to_vec(),
                  vec![k as u8], rng.bytes(k)].concat())
        }
    }
}

/// one random record: (owner, class, ttl, rtype, rdata), wire forms
fn gen_record(rng: &mut Rng) -> (Vec<u8>, u16, u32, u16, Vec<u8>) {
    let owner = name(rng);
    let class = *rng.pick(&[1u16, 1, 1, 3, 4, 254, 255, 4660]);
    let ttl = *rng.pick(&[0u32, 1, 3600, 86400, 2147483647]);
    let (rtype, rdata): (u16, Vec<u8>) = match rng.below(18) {
        13..=17 => field_record(rng),
        0 | 1 => (16, { let k = 1 + rng.below(3); (0..k).flat_map(|_| cs(rng)).collect() }),
        2 => (13, [cs(rng), cs(rng)].concat()),
        3 => (*rng.pick(&[2u16, 5, 12, 39]), name(rng)),
        4 => (15, [rng.pick(&[0u16, 10, 65535]).to_be_bytes().to_vec(), name(rng)].concat()),
        5 => (*rng.pick(&[65280u16, 1234]), { let k = rng.below(40) as usize; rng.bytes(k) }),
        // binary fields in Base32hex / Base64 / Base16: every length residue,
        // random last octets (the specification abstains on these types; the
        // round-trip law itself is checked)
        6 | 7 => (50, { // NSEC3: alg flags iterations salt hash bitmap
            let salt = { let k = rng.below(6) as usize; rng.bytes(k) };
            let hmax = if rng.chance(1, 6) { 64 } else { 12 };
            let hash = { let k = 1 + rng.below(hmax) as usize; rng.bytes(k) };
            [vec![1, rng.below(2) as u8], (rng.next() as u16).to_be_bytes().to_vec(), vec![salt.len() as u8], salt,
             vec![hash.len() as u8], hash, vec![0, 1, 0x40]].concat() }),
        8 => (48, { let k = 1 + rng.below(40) as usize; [vec![1, 1, 3, 13], rng.bytes(k)].concat() }),
        9 => (61, { let k = 1 + rng.below(40) as usize; rng.bytes(k) }),
        10 => (43, { let k = 1 + rng.below(40) as usize; [vec![0, 7, 8, 2], rng.bytes(k)].concat() }),
        // SVCB / HTTPS with list-valued parameters in random (not sorted) order
        _ => (*rng.pick(&[64u16, 65]), svcb(rng)),
    };
    (owner, class, ttl, rtype, rdata)
}

fn main() {
    quiet_panics();
    let args: Vec<String> = std::env::args().collect();
    let path = args.get(1).expect("trace path");
    let seed: u64 = args.get(2).and_then(|s| s.parse().ok()).unwrap_or_else(seed);
    let n: u64 = args.get(3).and_then(|s| s.parse().ok()).unwrap_or(300);
    let mut rng = Rng::new(seed);
    let mut tw = TraceWriter::create(path);
    tw.event(json!({"ev": "devs", "open": open_devs()}));
    let (mut eq, mut neq) = (0u64, 0u64);
    for _ in 0..n {
        let (owner, class, ttl, rtype, rdata) = gen_record(&mut rng);
        let rec = match zf::record_from_wire(&owner, class, ttl, rtype, &rdata) {
            Ok(r) => r,
            Err(e) => { eprintln!("generator produced bad wire: {}", e); std::process::exit(2); }
        };
        let origin: &[u8] = if rng.chance(1, 2) { b"\x02ex\x00" } else { b"" };
        for kind in ["simple", "tabbed", "multiline", "display"] {
            let text = zf::write_record(&rec, kind);
            let res = observe(|| zf::read_all(text.as_bytes(), &zf::ReadOpts {
                origin: if origin.is_empty() { None } else { Some(origin) }, default_class: None, allow_invalid: false }));
            let back = observe(|| zf::read_back(&rec, text.as_bytes(), if origin.is_empty() { None } else { Some(origin) }));
            if back == json!("eq") { eq += 1; } else { neq += 1; }
            tw.event(json!({"ev": "rt", "kind": kind, "origin": json_bytes(origin),
                "rec": {"owner": json_bytes(&owner), "class": class, "ttl": ttl, "rtype": rtype, "rdata": json_bytes(&rdata)},
                "text": json_bytes(text.as_bytes()), "res": res, "eq": back == json!("eq")}));
        }
    }
    // zones: several records in one file, written record by record ("cat",
    // a kind per record) or through one FormatWriter ("fmt"), read by a reader
    // set up by a random route and configured at random
    let has_root = |owner: &[u8], rtype: u16, rdata: &[u8]| owner == [0] || ([2u16, 5, 12, 39].contains(&rtype) && rdata == [0])
        || (rtype == 15 && rdata.len() == 3)
        // further name-bearing types the generator produces (NSEC next name, SOA, SRV, RRSIG,
        // SVCB / HTTPS targets, RP, MINFO, AFSDB, RT, KX, NAPTR): a root name may occur in their
        // data, so inside zones they are never written through fmt::Display (single-record
        // events keep doing so, where the deviation D_display_root_dot is accounted for)
        || [47u16, 6, 33, 46, 64, 65, 17, 14, 18, 21, 36, 35].contains(&rtype);
    let n_zones = n / 4;
    let (mut zeq, mut zerr) = (0u64, 0u64);
    for _ in 0..n_zones {
        let k = 2 + rng.below(4) as usize;
        let uniform = rng.chance(1, 2);
        let mode = if rng.chance(1, 3) { "fmt" } else { "cat" };
        let fmt_kind = *rng.pick(&["simple", "tabbed", "multiline"]);
        let mut recs = vec![];
        let mut wires = vec![];
        let mut kinds: Vec<&str> = vec![];
        let mut first_class = 1u16;
        // two zones in three consist of the types whose reading ZoneFile.tla decides
        let modelled = rng.chance(2, 3);
        while recs.len() < k {
            let (owner, mut class, ttl, rtype, rdata) = gen_record(&mut rng);
            if modelled && ![16u16, 13, 2, 5, 12, 39, 15, 65280, 1234].contains(&rtype) { continue; }
            if recs.is_empty() { first_class = class; } else if uniform { class = first_class; }
            let rec = match zf::record_from_wire(&owner, class, ttl, rtype, &rdata) {
                Ok(r) => r,
                Err(e) => { eprintln!("generator produced bad wire: {}", e); std::process::exit(2); }
            };
            // fmt::Display of a root name is a known deviation; keep it to the single-record events
            let kind = if mode == "fmt" { fmt_kind } else if has_root(&owner, rtype, &rdata) { *rng.pick(&["simple", "tabbed", "multiline"]) }
                       else { *rng.pick(&["simple", "tabbed", "multiline", "display"]) };
            kinds.push(kind);
            wires.push(json!({"owner": json_bytes(&owner), "class": class, "ttl": ttl, "rtype": rtype, "rdata": json_bytes(&rdata)}));
            recs.push(rec);
        }
        let text = if mode == "fmt" { zf::write_zone_fmt(&recs, fmt_kind) }
                   else { recs.iter().zip(kinds.iter()).map(|(r, k)| zf::write_record(r, k)).collect::<String>() };
        let origin: &[u8] = if rng.chance(1, 2) { b"\x02ex\x00" } else { b"" };
        let dclass: Option<u16> = match rng.below(4) { 0 => Some(first_class), 1 => Some(*rng.pick(&[1u16, 3])), _ => None };
        let allow = rng.chance(1, 2);
        let ctor = *rng.pick(zf::CTOR_ROUTES);
        let opts = zf::ReadOpts { origin: if origin.is_empty() { None } else { Some(origin) }, default_class: dclass, allow_invalid: allow };
        let res = observe(|| zf::read_all_via(ctor, text.as_bytes(), &opts));
        if res["err"] == json!(true) { zerr += 1; } else { zeq += 1; }
        tw.event(json!({"ev": "zone", "mode": mode, "kinds": kinds, "ctor": ctor,
            "cfg": {"origin": json_bytes(origin), "dclass": dclass.map(|c| c as i64).unwrap_or(-1), "allow": allow},
            "recs": wires, "text": json_bytes(text.as_bytes()), "res": res}));
    }
    let k = tw.finish();
    println!("RECORDED {}", json!({"events": k, "records": n, "equal": eq, "not_equal": neq,
                                   "zones": n_zones, "zones_read_through": zeq, "zones_ended_by_error": zerr}));
}
