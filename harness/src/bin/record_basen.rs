//! I->S recorder: drives the real decoders with long random texts (valid
//! encodings, mutated encodings, random characters), one event per public
//! call; and, symbol by symbol, the real SymbolConverters (one event per
//! `process_symbol` / `process_tail`), `IterScanner::convert_token` /
//! `convert_entry` and `Nsec3Salt::scan` with the same texts written with
//! every kind of symbol (plain, simple escape, decimal escape).
//! usage: record_basen <out.ndjson> <seed> <max-events>
use domain::base::scan::{ConvertSymbols, EntrySymbol, IterScanner, Scanner, Symbol};
use domain::rdata::nsec3::Nsec3Salt;
use domain::utils::{base16, base32, base64};
use serde_json::{json, Value};
use std::panic::{catch_unwind, AssertUnwindSafe};
use verif_harness::common::*;

enum Dec {
    B16(base16::Decoder<Vec<u8>>),
    B32(base32::Decoder<Vec<u8>>),
    B64(base64::Decoder<Vec<u8>>),
}

/// An entry symbol as logged: {"k": "c"|"s"|"d"|"e", "v": n}
fn sym_json(s: &EntrySymbol) -> Value {
    match s {
        EntrySymbol::Symbol(Symbol::Char(c)) => json!({"k": "c", "v": *c as u32}),
        EntrySymbol::Symbol(Symbol::SimpleEscape(v)) => json!({"k": "s", "v": *v}),
        EntrySymbol::Symbol(Symbol::DecimalEscape(v)) => json!({"k": "d", "v": *v}),
        EntrySymbol::EndOfToken => json!({"k": "e", "v": 0}),
    }
}

fn res_of(r: Result<Vec<u8>, ()>) -> Value {
    match r {
        Ok(v) => json!({"ok": json_bytes(&v)}),
        Err(_) => json!({"err": true}),
    }
}

/// Write `text` with a random kind of symbol per character, a few odd
/// symbols thrown in.  `parsed`: only symbols a string token can express
/// (`\X` for printable non-digit X; no plain backslash).
fn symbols_for(rng: &mut Rng, text: &[char], parsed: bool, tokens: bool) -> Vec<EntrySymbol> {
    let mut v = vec![];
    let escapable = |c: char| c.is_ascii() && (c as u8) >= 0x20 && (c as u8) < 0x7F && !c.is_ascii_digit();
    let escapes = rng.chance(2, 3);
    for &c in text {
        if tokens && rng.chance(1, 8) {
            v.push(EntrySymbol::EndOfToken);
        }
        let k = if escapes { rng.below(12) } else { 99 };
        let s = match k {
            0 if escapable(c) || (!parsed && c.is_ascii()) => Symbol::SimpleEscape(c as u8),
            1 if c.is_ascii() && rng.chance(1, 3) => Symbol::DecimalEscape(c as u8),
            _ if c == '\\' => Symbol::SimpleEscape(b'\\'),
            _ => Symbol::Char(c),
        };
        v.push(EntrySymbol::Symbol(s));
        if escapes && rng.chance(1, 40) {
            let o = rng.next() as u8;
            v.push(EntrySymbol::Symbol(match rng.below(3) {
                0 => Symbol::DecimalEscape(o),
                1 if !parsed || escapable(o as char) => Symbol::SimpleEscape(o),
                _ => Symbol::Char(if o == b'\\' { 'é' } else { o as char }),
            }));
        }
    }
    v
}

/// the string tokens that stand for the symbols
fn written(esyms: &[EntrySymbol]) -> Vec<String> {
    let mut toks = vec![String::new()];
    for s in esyms {
        let t = toks.last_mut().unwrap();
        match s {
            EntrySymbol::EndOfToken => {
                if !t.is_empty() {
                    toks.push(String::new());
                }
            }
            EntrySymbol::Symbol(Symbol::Char(c)) => t.push(*c),
            EntrySymbol::Symbol(Symbol::SimpleEscape(v)) => {
                t.push('\\');
                t.push(*v as char);
            }
            EntrySymbol::Symbol(Symbol::DecimalEscape(v)) => t.push_str(&format!("\\{:03}", v)),
        }
    }
    if toks.last().unwrap().is_empty() {
        toks.pop();
    }
    toks
}

fn conv_events<C: ConvertSymbols<EntrySymbol, std::io::Error>>(
    w: &mut TraceWriter,
    mut c: C,
    esyms: &[EntrySymbol],
) {
    for s in esyms {
        let r = catch_unwind(AssertUnwindSafe(|| {
            c.process_symbol(*s).map(|d| d.map(|d| d.to_vec()).unwrap_or_default()).map_err(|_| ())
        }));
        let mut e = sym_json(s);
        match r {
            Ok(r) => {
                let stop = r.is_err();
                e["ev"] = json!("csym");
                e["res"] = res_of(r);
                w.event(e);
                if stop {
                    return; // a scanner abandons the conversion here
                }
            }
            Err(_) => {
                e["ev"] = json!("csym");
                e["res"] = json!({"panic": true});
                w.event(e);
                return;
            }
        }
    }
    let r = catch_unwind(AssertUnwindSafe(|| {
        c.process_tail().map(|d| d.map(|d| d.to_vec()).unwrap_or_default()).map_err(|_| ())
    }));
    w.event(json!({"ev": "ctail", "res": match r { Ok(r) => res_of(r), Err(_) => json!({"panic": true}) }}));
}

/// One run at the symbol level.
fn symbol_run(w: &mut TraceWriter, rng: &mut Rng, codec: &'static str, text: &[char]) {
    match rng.below(4) {
        0 | 1 => {
            // the converter driven call by call, any symbol, token boundaries
            let esyms = symbols_for(rng, text, false, true);
            w.event(json!({"ev": "cnew", "codec": codec}));
            match codec {
                "b16" => conv_events(w, base16::SymbolConverter::new(), &esyms),
                "b32" => conv_events(w, base32::SymbolConverter::new(), &esyms),
                _ => conv_events(w, base64::SymbolConverter::new(), &esyms),
            }
        }
        2 => {
            // IterScanner over the written form
            let entry = rng.chance(1, 2);
            let esyms = symbols_for(rng, text, true, entry);
            let toks = written(&esyms);
            if toks.is_empty() {
                return;
            }
            let r = catch_unwind(AssertUnwindSafe(|| {
                let mut sc = IterScanner::<_, Vec<u8>>::new(toks.clone());
                let r = match (codec, entry) {
                    ("b16", true) => sc.convert_entry(base16::SymbolConverter::new()),
                    ("b32", true) => sc.convert_entry(base32::SymbolConverter::new()),
                    (_, true) => sc.convert_entry(base64::SymbolConverter::new()),
                    ("b16", false) => sc.convert_token(base16::SymbolConverter::new()),
                    ("b32", false) => sc.convert_token(base32::SymbolConverter::new()),
                    (_, false) => sc.convert_token(base64::SymbolConverter::new()),
                };
                r.map_err(|_| ())
            }));
            w.event(json!({"ev": "iscan", "codec": codec, "via": if entry { "entry" } else { "token" },
                           "syms": esyms.iter().map(sym_json).collect::<Vec<_>>(),
                           "res": match r { Ok(r) => res_of(r), Err(_) => json!({"panic": true}) }}));
        }
        _ => {
            // the NSEC3 salt: "-" or Base16, one token
            let mut t: Vec<char> = if codec == "b16" { text.to_vec() } else { vec![] };
            t.truncate(40);
            match rng.below(5) {
                0 => t = vec!['-'],
                1 => t.insert(0, '-'),
                2 => t.push('-'),
                _ => {}
            }
            let esyms = symbols_for(rng, &t, true, false);
            let toks = written(&esyms);
            if toks.len() != 1 {
                return;
            }
            let r = catch_unwind(AssertUnwindSafe(|| {
                let mut sc = IterScanner::<_, Vec<u8>>::new(toks.clone());
                Nsec3Salt::scan(&mut sc).map(|s: Nsec3Salt<Vec<u8>>| s.as_slice().to_vec()).map_err(|_| ())
            }));
            w.event(json!({"ev": "salt", "syms": esyms.iter().map(sym_json).collect::<Vec<_>>(),
                           "res": match r { Ok(r) => res_of(r), Err(_) => json!({"panic": true}) }}));
        }
    }
}

fn main() {
    quiet_panics();
    let args: Vec<String> = std::env::args().collect();
    let mut w = TraceWriter::create(&args[1]);
    let mut rng = Rng::new(args[2].parse().unwrap_or(1));
    let max: u64 = args[3].parse().unwrap_or(1500);
    let odd = ['=', '!', ' ', 'é', 'W', 'g', 'z', '-', '_'];
    let mut sym_events: u64 = 0; // the symbol-level runs come on top of the decoder budget
    while w.n - sym_events < max {
        let codec: &'static str = *rng.pick(&["b16", "b32", "b64"]);
        // text: encode random octets, then maybe mutate
        let n = if rng.chance(1, 4) { rng.below(60) } else { rng.below(12) } as usize;
        let octs = rng.bytes(n);
        let mut text: Vec<char> = match codec {
            "b16" => base16::encode_string(&octs),
            "b32" => base32::encode_string_hex(&octs),
            _ => base64::encode_string(&octs),
        }
        .chars()
        .collect();
        if rng.chance(1, 3) {
            // lower-case some characters (legal for b16/b32, changes value for b64)
            for c in text.iter_mut() {
                if rng.chance(1, 2) {
                    *c = c.to_ascii_lowercase();
                }
            }
        }
        match rng.below(6) {
            0 if !text.is_empty() => {
                let i = rng.below(text.len() as u64) as usize;
                text[i] = *rng.pick(&odd);
            }
            1 if !text.is_empty() => {
                let k = rng.below(text.len() as u64) as usize;
                text.truncate(k);
            }
            2 => {
                for _ in 0..rng.below(4) {
                    text.push(*rng.pick(&odd));
                }
            }
            3 => {
                let i = rng.below(text.len() as u64 + 1) as usize;
                text.insert(i, *rng.pick(&odd));
            }
            _ => {}
        }
        for _ in 0..3 {
            let n0 = w.n;
            let mut short = text.clone();
            if rng.chance(2, 3) {
                // a cut at a group boundary keeps most of the short texts valid
                short.truncate(4 * (1 + rng.below(5) as usize));
            }
            symbol_run(&mut w, &mut rng, codec, &short);
            sym_events += w.n - n0;
        }
        w.event(json!({"ev": "new", "codec": codec}));
        let mut d = match codec {
            "b16" => Dec::B16(base16::Decoder::new()),
            "b32" => Dec::B32(base32::Decoder::new_hex()),
            _ => Dec::B64(base64::Decoder::new()),
        };
        let mut dead = false;
        for c in &text {
            let r = catch_unwind(AssertUnwindSafe(|| match &mut d {
                Dec::B16(d) => d.push(*c).is_ok(),
                Dec::B32(d) => d.push(*c).is_ok(),
                Dec::B64(d) => d.push(*c).is_ok(),
            }));
            let res = match r {
                Ok(true) => "ok",
                Ok(false) => "err",
                Err(_) => {
                    dead = true;
                    "panic"
                }
            };
            w.event(json!({"ev": "push", "c": *c as u32, "res": res}));
            if dead {
                break;
            }
        }
        if dead {
            continue;
        }
        let fin: Value = match catch_unwind(AssertUnwindSafe(|| match d {
            Dec::B16(d) => d.finalize().map_err(|_| ()),
            Dec::B32(d) => d.finalize().map_err(|_| ()),
            Dec::B64(d) => d.finalize().map_err(|_| ()),
        })) {
            Ok(Ok(v)) => json!({"ok": json_bytes(&v)}),
            Ok(Err(_)) => json!({"err": true}),
            Err(_) => json!({"panic": true}),
        };
        w.event(json!({"ev": "fin", "res": fin}));
    }
    let n = w.finish();
    println!("events {}", n);
}
