//! I->S recorder: drives the real decoders with long random texts (valid
//! encodings, mutated encodings, random characters), one event per public
//! call.  usage: record_basen <out.ndjson> <seed> <max-events>
use domain::utils::{base16, base32, base64};
use serde_json::{json, Value};
use std::panic::{catch_unwind, AssertUnwindSafe};
use verif_harness::common::*;

enum Dec {
    B16(base16::Decoder<Vec<u8>>),
    B32(base32::Decoder<Vec<u8>>),
    B64(base64::Decoder<Vec<u8>>),
}

fn main() {
    quiet_panics();
    let args: Vec<String> = std::env::args().collect();
    let mut w = TraceWriter::create(&args[1]);
    let mut rng = Rng::new(args[2].parse().unwrap_or(1));
    let max: u64 = args[3].parse().unwrap_or(1500);
    let odd = ['=', '!', ' ', 'é', 'W', 'g', 'z', '-', '_'];
    while w.n < max {
        let codec = *rng.pick(&["b16", "b32", "b64"]);
        // text: encode random octets, then maybe mutate
        let n = if rng.chance(1, 4) { rng.below(60) } else { rng.below(12) } as usize;
        let octs = rng.bytes(n);
        let mut text: Vec<char> = match codec {
            "b16" => base16::encode_string(&octs),
            "b32" => base32::encode_string_hex(&octs),
            _ => base64::encode_string(&octs),
        }
        .chars()
        .collect();
        if rng.chance(1, 3) {
            // lower-case some characters (legal for b16/b32, changes value for b64)
            for c in text.iter_mut() {
                if rng.chance(1, 2) {
                    *c = c.to_ascii_lowercase();
                }
            }
        }
        match rng.below(6) {
            0 if !text.is_empty() => {
                let i = rng.below(text.len() as u64) as usize;
                text[i] = *rng.pick(&odd);
            }
            1 if !text.is_empty() => {
                let k = rng.below(text.len() as u64) as usize;
                text.truncate(k);
            }
            2 => {
                for _ in 0..rng.below(4) {
                    text.push(*rng.pick(&odd));
                }
            }
            3 => {
                let i = rng.below(text.len() as u64 + 1) as usize;
                text.insert(i, *rng.pick(&odd));
            }
            _ => {}
        }
        w.event(json!({"ev": "new", "codec": codec}));
        let mut d = match codec {
            "b16" => Dec::B16(base16::Decoder::new()),
            "b32" => Dec::B32(base32::Decoder::new_hex()),
            _ => Dec::B64(base64::Decoder::new()),
        };
        let mut dead = false;
        for c in &text {
            let r = catch_unwind(AssertUnwindSafe(|| match &mut d {
                Dec::B16(d) => d.push(*c).is_ok(),
                Dec::B32(d) => d.push(*c).is_ok(),
                Dec::B64(d) => d.push(*c).is_ok(),
            }));
            let res = match r {
                Ok(true) => "ok",
                Ok(false) => "err",
                Err(_) => {
                    dead = true;
                    "panic"
                }
            };
            w.event(json!({"ev": "push", "c": *c as u32, "res": res}));
            if dead {
                break;
            }
        }
        if dead {
            continue;
        }
        let fin: Value = match catch_unwind(AssertUnwindSafe(|| match d {
            Dec::B16(d) => d.finalize().map_err(|_| ()),
            Dec::B32(d) => d.finalize().map_err(|_| ()),
            Dec::B64(d) => d.finalize().map_err(|_| ()),
        })) {
            Ok(Ok(v)) => json!({"ok": json_bytes(&v)}),
            Ok(Err(_)) => json!({"err": true}),
            Err(_) => json!({"panic": true}),
        };
        w.event(json!({"ev": "fin", "res": fin}));
    }
    let n = w.finish();
    println!("events {}", n);
}
