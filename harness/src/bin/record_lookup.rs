//! X09 I->S recorder: random runs of `lookup_srv` (+ `into_stream`,
//! `merge`), `lookup_host`, `lookup_addr` and `ResolvConf::parse` /
//! `finalize` on worlds much larger than TLC's constants (up to 8 SRV
//! records, priorities 0..3, weights up to 1000, arbitrary addresses, files
//! of 40 lines).  One ndjson event per public call with every argument and
//! the result; validated by spec/Trace_Lookup.tla.
//!
//! usage: record_lookup <trace.ndjson> <seed> <runs>

#[path = "../lookup.rs"]
mod lookup;

use domain::base::iana::Rtype;
use domain::resolv::lookup::{lookup_addr, lookup_host};
use domain::resolv::stub::conf::ResolvConf;
use futures_util::stream::StreamExt;
use lookup::*;
use serde_json::{json, Value};
use std::net::IpAddr;
use std::panic::{catch_unwind, AssertUnwindSafe};
use std::sync::Arc;
use verif_harness::common::{quiet_panics, Rng, TraceWriter};

fn random_recs(rng: &mut Rng, max: u64, style: u64) -> Vec<Value> {
    let n = rng.below(max + 1);
    let mut recs = vec![];
    for j in 0..n {
        let p = rng.below(4);
        let w = match style {
            0 => 10,                       // uniform weights
            1 => rng.below(3) * 500,       // 0 / 500 / 1000
            _ => rng.below(1001),
        };
        let t = if rng.chance(1, 12) { 0 } else { 1 + rng.below(5) };
        let own = if rng.chance(1, 8) { *rng.pick(&[0u64, 2]) } else { 1 };
        recs.push(json!([p, w, 1000 + j, t, own]));
    }
    recs
}

fn srv_event(rt: &tokio::runtime::Runtime, rng: &mut Rng) -> Value {
    let style = rng.below(3);
    let mut recs = random_recs(rng, 8, style);
    if rng.chance(1, 10) {
        recs = vec![json!([0, 0, 443, 0, 1])];
    }
    let mut addl = vec![];
    for _ in 0..rng.below(5) {
        addl.push(json!([rng.below(6), *rng.pick(&[4u64, 6]), 1 + rng.below(3)]));
    }
    let outs = ["Data", "NoData", "Err"];
    let world = json!({
        "srv": if rng.chance(1, 10) { "err" } else { "ok" },
        "alias": rng.chance(1, 3),
        "port": 80 + rng.below(3),
        "recs": recs, "addl": addl,
        "hosts": [*rng.pick(&outs), *rng.pick(&outs)],
    });
    let res = Scripted::new(srv_script(&world));
    let port = geti(&world, "port") as u16;
    let mut ev = world.clone();
    ev["ev"] = json!("srv");
    let r = catch_unwind(AssertUnwindSafe(|| do_lookup_srv(rt, &res, port)));
    let (kind, found) = match r {
        Err(_) => {
            ev["res"] = json!("panic");
            ev["order"] = json!([]);
            ev["ys"] = json!([]);
            ev["asked"] = json!([]);
            return ev;
        }
        Ok(Err(())) => ("err", None),
        Ok(Ok(None)) => ("none", None),
        Ok(Ok(Some(f))) => ("found", Some(f)),
    };
    let mut order = vec![];
    let mut ys = vec![];
    let mut kind = kind.to_string();
    if let Some(found) = found {
        let srvs: Vec<(i64, i64, i64, i64)> = found.clone().into_srvs().map(|s| srv_tuple(&s)).collect();
        if srvs.len() == 1 && srvs[0].3 == 9 {
            kind = "fallback".into();
        }
        for t in &srvs {
            order.push(json!([t.0, t.1, t.2, t.3]));
        }
        rt.block_on(async {
            let stream = found.into_stream(&res);
            futures_util::pin_mut!(stream);
            let mut j = 0usize;
            loop {
                let before = res.asked();
                let item = match stream.next().await {
                    None => break,
                    Some(i) => i,
                };
                let asked_now = res.asked() > before;
                let base = srvs.get(j).cloned().unwrap_or((-1, -1, -1, -1));
                match item {
                    Ok(it) => {
                        let t = srv_tuple(&*it);
                        let mut k = if asked_now { "host" } else { "addl" };
                        let mut addrs = vec![];
                        for sa in it.resolved() {
                            if sa.port() as i64 != t.2 {
                                k = "badport";
                            }
                            addrs.push(addr_abs(&sa.ip()));
                        }
                        ys.push(json!([t.3, t.2, k, addrs]));
                    }
                    Err(_) => ys.push(json!([base.3, base.2, "err", []])),
                }
                j += 1;
            }
        });
    }
    ev["res"] = json!(kind);
    ev["order"] = json!(order);
    ev["ys"] = json!(ys);
    ev["asked"] = Value::Array(res.log().iter().map(q_json).collect());
    ev
}

fn merge_event(rt: &tokio::runtime::Runtime, rng: &mut Rng) -> Value {
    let style = if rng.chance(2, 3) { 0 } else { 2 };
    let a: Vec<Value> = random_recs(rng, 4, style).into_iter().filter(|r| r[3] != 0).collect();
    let b: Vec<Value> = random_recs(rng, 4, style).into_iter().filter(|r| r[3] != 0).collect();
    let mut ev = json!({"ev": "merge", "a": a, "b": b});
    let r = catch_unwind(AssertUnwindSafe(|| {
        let mut found = vec![];
        for (recs, port) in [(&a, 80u16), (&b, 81u16)] {
            let world = json!({"srv": "ok", "alias": false, "recs": recs, "addl": [], "hosts": ["Data", "Data"]});
            let res = Scripted::new(srv_script(&world));
            found.push(do_lookup_srv(rt, &res, port).ok().flatten().expect("found"));
        }
        let bb = found.pop().unwrap();
        let mut aa = found.pop().unwrap();
        aa.merge(&bb);
        aa.into_srvs().map(|s| { let t = srv_tuple(&s); json!([t.0, t.1, t.2, t.3]) }).collect::<Vec<_>>()
    }));
    match r {
        Ok(m) => {
            ev["panic"] = json!(false);
            ev["m"] = json!(m);
        }
        Err(_) => {
            ev["panic"] = json!(true);
            ev["m"] = json!([]);
        }
    }
    ev
}

fn random_ans(rng: &mut Rng) -> Value {
    if rng.chance(1, 5) {
        return json!({"err": true, "chain": 0, "loop": false, "recs": []});
    }
    let chain = rng.below(3);
    let mut recs = vec![];
    for k in 0..rng.below(6) {
        recs.push(json!([*rng.pick(&[0u64, 1, 2, 9]), k + 1]));
    }
    json!({"err": false, "chain": chain, "loop": rng.chance(1, 6), "recs": recs})
}

fn host_event(rt: &tokio::runtime::Runtime, rng: &mut Rng) -> Value {
    let a = random_ans(rng);
    let aaaa = random_ans(rng);
    let (a2, aaaa2) = (a.clone(), aaaa.clone());
    let res = Scripted::new(Arc::new(move |_q: &str, t: Rtype| {
        if t == Rtype::A { host_reply(&a2, 4) } else { host_reply(&aaaa2, 6) }
    }));
    let found = rt.block_on(lookup_host(&res, name(HQ)));
    let qs: Vec<Value> = res
        .log()
        .iter()
        .map(|a| json!([if a.name == HQ { "q" } else { "?" }, type_str(a.qtype)]))
        .collect();
    let mut ev = json!({"ev": "host", "a": a, "aaaa": aaaa, "qs": qs});
    match found {
        Err(_) => {
            ev["err"] = json!(true);
            ev["empty"] = json!(false);
            ev["canon"] = json!("");
            ev["addrs"] = json!([]);
        }
        Ok(f) => {
            ev["err"] = json!(false);
            ev["empty"] = json!(f.is_empty());
            ev["canon"] = match catch_unwind(AssertUnwindSafe(|| lower_dotted(&f.canonical_name()))) {
                Err(_) => json!("panic"),
                Ok(n) => json!(n),
            };
            ev["addrs"] = Value::Array(f.iter().map(|a| addr_abs(&a)).collect());
        }
    }
    ev
}

fn rev_event(rt: &tokio::runtime::Runtime, rng: &mut Rng) -> Value {
    let v4 = rng.chance(1, 2);
    let o: Vec<u8> = if v4 { rng.bytes(4) } else { rng.bytes(16) };
    let addr: IpAddr = if v4 {
        IpAddr::from([o[0], o[1], o[2], o[3]])
    } else {
        let mut b = [0u8; 16];
        b.copy_from_slice(&o);
        IpAddr::from(b)
    };
    let ans = *rng.pick(&["ptr", "ptr", "alias", "foreign", "err"]);
    let n = rng.below(5) as i64;
    let res = Scripted::new(rev_script(ans.to_string(), n));
    let found = rt.block_on(lookup_addr(&res, addr));
    let log = res.log();
    let (err, names) = match found {
        Err(_) => (true, vec![]),
        Ok(f) => (false, f.iter().map(|n| json!(ptr_of(&lower_dotted(&n)))).collect()),
    };
    json!({"ev": "rev", "v": if v4 { 4 } else { 6 }, "o": o, "ans": ans, "n": n,
           "q": log[0].labels, "qtype": type_str(log[0].qtype), "nq": log.len(),
           "err": err, "names": names})
}

const IPS: [&str; 4] = ["192.0.2.1", "192.0.2.2", "2001:db8::1", "::1"];
const NAMES: [&str; 6] = ["example.com", "Sub.Example.ORG.", "local", ".", "a..b", "example.com"];
const OPTS: [&str; 36] = [
    "ndots:0", "ndots:3", "ndots:15", "ndots:16", "ndots:100000", "ndots:+7", "timeout:0", "timeout:1",
    "timeout:31", "attempts:1", "attempts:6", "rotate", "no-check-names", "inet6", "ip6-bytestring",
    "ip6-dotint", "no-ip6-dotint", "edns0", "single-request", "single-request-reopen", "no-tld-query",
    "use-vc", "debug", "trust-ad", "ndots", "timeout", "rotate:1", "foo:1", ":5", "no-reload", "ROTATE",
    "ndots:x", "ndots:", "ndots:-1", "foo:bar", "timeout:1.5",
];

fn random_line(rng: &mut Rng) -> Vec<String> {
    let mut w: Vec<String> = vec![];
    match rng.below(12) {
        0 => {}
        1 => w.extend(["#", "nameserver", "192.0.2.1"].iter().map(|s| s.to_string())),
        2 | 3 | 4 => {
            w.push("nameserver".into());
            for _ in 0..(if rng.chance(1, 8) { rng.below(3) } else { 1 }) {
                w.push(rng.pick(&IPS).to_string());
            }
        }
        5 => {
            w.push("domain".into());
            for _ in 0..(if rng.chance(1, 8) { rng.below(3) } else { 1 }) {
                w.push(rng.pick(&NAMES).to_string());
            }
        }
        6 | 7 => {
            w.push("search".into());
            for _ in 0..rng.below(5) {
                let lim = if rng.chance(1, 6) { 6 } else { 4 };
                w.push(rng.pick(&NAMES[..lim]).to_string());
            }
        }
        8 => w.extend(["sortlist", "130.155.160.0/255.255.240.0"].iter().map(|s| s.to_string())),
        9 | 10 => {
            w.push("options".into());
            for _ in 0..rng.below(6) {
                // malformed values are rare so that files get long
                let k = if rng.chance(1, 25) { rng.below(36) } else { rng.below(31) };
                w.push(OPTS[k as usize].to_string());
            }
        }
        _ => w.extend(["bogus", "1"].iter().map(|s| s.to_string())),
    }
    w
}

fn conf_events(tw: &mut TraceWriter, rng: &mut Rng) {
    let mut conf = ResolvConf::new();
    tw.event(json!({"ev": "conf_new"}));
    let lead = rng.chance(1, 5);
    let sep = *rng.pick(&[" ", "\t", "  \t "]);
    for _ in 0..(5 + rng.below(40)) {
        let words = random_line(rng);
        let mut text = format!("{}{}", if lead { " " } else { "" }, words.join(sep));
        if rng.chance(1, 3) {
            text.push_str(" \t");
        }
        text.push_str(*rng.pick(&["\n", "\r\n", ""]));
        let ok = conf.parse(&mut std::io::Cursor::new(text)).is_ok();
        tw.event(json!({"ev": "conf_line", "words": words, "lead": lead, "ok": ok, "st": conf_state(&conf)}));
    }
    let mut fin = conf.clone();
    fin.finalize();
    tw.event(json!({"ev": "conf_fin", "st": conf_state(&fin)}));
}

fn main() {
    quiet_panics();
    let args: Vec<String> = std::env::args().collect();
    let path = args.get(1).expect("trace path");
    let seed: u64 = args.get(2).and_then(|s| s.parse().ok()).unwrap_or(1);
    let runs: u64 = args.get(3).and_then(|s| s.parse().ok()).unwrap_or(100);
    let mut rng = Rng::new(seed);
    let rt = runtime();
    let mut tw = TraceWriter::create(path);
    for _ in 0..runs {
        match rng.below(6) {
            0 | 1 => tw.event(srv_event(&rt, &mut rng)),
            2 => tw.event(merge_event(&rt, &mut rng)),
            3 => tw.event(host_event(&rt, &mut rng)),
            4 => tw.event(rev_event(&rt, &mut rng)),
            _ => conf_events(&mut tw, &mut rng),
        }
    }
    let n = tw.finish();
    println!("{{\"events\":{}}}", n);
}
