//! S->I executor for spec/ZoneTree.tla (X03): every TLC-generated behaviour
//! (a sequence of insert_zone / remove_zone calls) is performed on a real
//! `ZoneTree` holding real zones built with `ZoneBuilder`; after every call
//! the call's result and the full projection (get_zone and find_zone for
//! every probe, iter_zones) are compared with the specification's.
#[path = "../zonetree.rs"]
mod zonetree;

use domain::zonetree::ZoneTree;
use serde_json::{json, Value};
use verif_harness::common::{arg_value, run_cases};

fn main() {
    let probes: Vec<Value> = arg_value("--probes")
        .map(|p| serde_json::from_str(&std::fs::read_to_string(p).expect("probes file")).expect("probes json"))
        .unwrap_or_default();
    run_cases(|input| {
        let mut tree = ZoneTree::new();
        let mut reg = zonetree::Registry::default();
        let mut out = vec![];
        for op in input["ops"].as_array().cloned().unwrap_or_default() {
            let r = zonetree::apply(&mut tree, &mut reg, &op);
            out.push(json!({"r": r, "p": zonetree::project(&tree, &reg, &probes)}));
        }
        Value::Array(out)
    });
}
