//! I->S recorder for C04: random pairs of labels, names (up to 255 octets,
//! every representation), character strings, record data of every type and
//! records; one event per pair with every comparison the library offers.
//! Trace_Order.tla recomputes each with the operators of Order.tla.
//!
//! usage: record_order <trace.ndjson> <seed> <events> <layout.json>
#[path = "../rdata.rs"]
mod rdata;
#[path = "../order_carrier.rs"]
mod order_carrier;
use order_carrier::*;
use rdata::gen::{random_rdata, Gen};
use rdata::order::*;
use serde_json::{json, Value};
use verif_harness::common::*;

fn relabel(g: &mut Gen, w: &[u8]) -> Vec<u8> {
    // a related name: same, re-cased, one octet changed, a label dropped or added
    match g.rng.below(6) {
        0 => w.to_vec(),
        1 => recase(w, 1 + g.rng.below(3) as usize),
        2 => {
            let mut v = w.to_vec();
            // change one label octet (never a length octet)
            let mut p = 0;
            let mut data = vec![];
            while v[p] != 0 {
                let l = v[p] as usize;
                data.extend(p + 1..=p + l);
                p += l + 1;
            }
            if !data.is_empty() {
                let i = *g.rng.pick(&data);
                v[i] = match g.rng.below(3) {
                    0 => v[i] ^ 0x20,
                    1 => v[i].wrapping_add(1),
                    _ => g.rng.next() as u8,
                };
            }
            v
        }
        3 => {
            // drop the first label
            if w[0] == 0 { w.to_vec() } else { w[1 + w[0] as usize..].to_vec() }
        }
        4 => {
            let mut v = vec![1, b'a' + g.rng.below(26) as u8];
            v.extend_from_slice(w);
            if v.len() > 255 { w.to_vec() } else { v }
        }
        _ => g.name(),
    }
}

fn parses(code: u16, rd: &[u8]) -> bool {
    let m = rdata::one_record_msg(&[0], code, rd);
    match domain::base::message::Message::from_slice(&m) {
        Ok(msg) => rdata::parse_all(msg).is_ok(),
        Err(_) => false,
    }
}

/// the domain names in record data (label sequences, layout order); empty
/// when the data does not parse or has none
fn names_in(code: u16, rd: &[u8]) -> Vec<Vec<Vec<u8>>> {
    let m = rdata::one_record_msg(&[0], code, rd);
    match domain::base::message::Message::from_slice(&m) {
        Ok(msg) => match rdata::parse_all(msg) {
            Ok(r) => names_of_rdata(r.data()),
            Err(_) => vec![],
        },
        Err(_) => vec![],
    }
}

fn main() {
    quiet_panics();
    let args: Vec<String> = std::env::args().collect();
    let seed: u64 = args[2].parse().unwrap();
    let n: usize = args[3].parse().unwrap();
    let table: Value =
        serde_json::from_str(&std::fs::read_to_string(&args[4]).expect("layout file")).unwrap();
    let mut g = Gen { rng: Rng::new(seed), big: false, last_alg: None, soft_opt: false };
    let mut tw = TraceWriter::create(&args[1]);
    // record data types used in whole records (every row of the table)
    let rec_types: Vec<u16> = table["code"].as_object().unwrap().values()
        .map(|v| v.as_u64().unwrap() as u16).collect();
    for i in 0..n {
        g.big = false;
        let mut ev = match i % 7 {
            0 => {
                let maxl = if g.rng.chance(1, 8) { 63 } else { 6 };
                let la = 1 + g.rng.below(maxl) as usize;
                let a = g.octets(la);
                let b = match g.rng.below(4) {
                    0 => recase(&a, 1 + g.rng.below(3) as usize),
                    1 => {
                        let mut b = a.clone();
                        let k = g.rng.below(b.len() as u64) as usize;
                        b[k] = b[k].wrapping_add(1);
                        b
                    }
                    2 => a[..1 + g.rng.below(a.len() as u64) as usize].to_vec(),
                    _ => {
                        let lb = 1 + g.rng.below(6) as usize;
                        g.octets(lb)
                    }
                };
                let mut e = json!({"ev": "label", "a": a, "b": b});
                merge(&mut e, observe(|| observe_labels(&a, &b)));
                e
            }
            1 | 2 => {
                let a = g.name();
                let b = relabel(&mut g, &a);
                let mut e = json!({"ev": "name", "a": a, "b": b});
                merge(&mut e, observe(|| observe_names(&a, &b)));
                e
            }
            3 => {
                if g.rng.chance(1, 3) {
                    let la = g.small_len(255);
                    let a = g.octets(la);
                    let b = match g.rng.below(3) {
                        0 => recase(&a, 2),
                        1 => {
                            let mut b = a.clone();
                            b.push(0);
                            b.truncate(255);
                            b
                        }
                        _ => {
                            let lb = g.small_len(255);
                            g.octets(lb)
                        }
                    };
                    let mut e = json!({"ev": "charstr", "a": a, "b": b});
                    merge(&mut e, observe(|| observe_charstrs(&a, &b)));
                    e
                } else {
                    // two records of a small key space
                    let mut recs = vec![];
                    let code = *g.rng.pick(&rec_types);
                    let base_owner = g.name();
                    let mut base_rd = vec![];
                    for k in 0..2 {
                        let (c, rd) = if g.rng.chance(1, 4) {
                            // types the library has no parser for: the data
                            // need not sort like the type codes
                            let c = *g.rng.pick(&[65280u16, 65281, 62]);
                            let rd = match g.rng.below(3) {
                                0 => vec![0xff, 0xff],
                                1 => vec![0],
                                _ => { let n = g.small_len(20); g.octets(n) }
                            };
                            (c, rd)
                        } else {
                            // same type as the first record, or (sometimes) another
                            let want = if k == 1 && g.rng.chance(1, 3) { *g.rng.pick(&rec_types) } else { code };
                            loop {
                                let (c, _, rd) = random_rdata(&mut g, &table, 1_000_000);
                                if c == want { break (c, rd); }
                            }
                        };
                        if base_rd.is_empty() { base_rd = rd.clone(); }
                        let rd = if c == code && g.rng.chance(1, 2) && k == 1 && parses(c, &base_rd) { base_rd.clone() } else { rd };
                        let owner = if g.rng.chance(1, 2) { recase(&base_owner, g.rng.below(4) as usize) } else { relabel(&mut g, &base_owner) };
                        recs.push(json!({"class": if g.rng.chance(1, 5) { 3 } else { 1 },
                                         "owner": owner, "ttl": *g.rng.pick(&[0u32, 300, 3600]),
                                         "rtype": c, "rd": rd}));
                    }
                    let (a, b) = (recs[0].clone(), recs[1].clone());
                    if g.rng.chance(1, 2) {
                        // the two records with their data in one of the data
                        // representations, held differently on the two sides
                        let rep = *g.rng.pick(&["all", "zone", "unknown", "ext"]);
                        let xans = g.rng.below(3) as i64 - 1;
                        let mut e = json!({"ev": "xrecord", "a": recs[0], "b": recs[1], "rep": rep, "xans": xans});
                        merge(&mut e, observe(|| observe_xrecord(&a, &b, rep, xans, false, false)));
                        e
                    } else {
                        let mut e = json!({"ev": "record", "a": recs[0], "b": recs[1]});
                        merge(&mut e, observe(|| observe_record_pair(&a, &b, false, false)));
                        e
                    }
                }
            }
            5 => {
                // one name through a carrier / two names through two carriers
                g.big = g.rng.chance(1, 6);
                let a = match g.rng.below(10) {
                    0 => vec![0],
                    1 => {
                        // a name of 255 octets
                        let mut w = vec![];
                        for l in [63usize, 63, 63, 61] {
                            w.push(l as u8);
                            w.extend(g.octets(l));
                        }
                        w.push(0);
                        w
                    }
                    _ => g.name(),
                };
                if a.len() < 255 && g.rng.chance(1, 4) {
                    // the same labels as a relative name
                    let c = random_rel_carrier(&mut g.rng, &labels_of_wire(&a));
                    let mut e = json!({"ev": "rcarrier", "c": c});
                    merge(&mut e, observe(|| observe_rel_carrier(&c)));
                    e
                } else if g.rng.chance(1, 2) {
                    let c = random_carrier(&mut g.rng, &labels_of_wire(&a), None);
                    let mut e = json!({"ev": "carrier", "c": c});
                    merge(&mut e, observe(|| observe_carrier(&c)));
                    e
                } else {
                    let b = relabel(&mut g, &a);
                    let ca = random_carrier(&mut g.rng, &labels_of_wire(&a), None);
                    let cb = random_carrier(&mut g.rng, &labels_of_wire(&b), None);
                    let mut e = json!({"ev": "cpair", "a": ca, "b": cb});
                    merge(&mut e, observe(|| observe_carrier_pair(&ca, &cb)));
                    e
                }
            }
            6 => {
                // record data with names (and a record around it), the names
                // through carriers of one random shape
                let (code, a) = loop {
                    let (c, _, rd) = random_rdata(&mut g, &table, 1_000_000);
                    if !names_in(c, &rd).is_empty() { break (c, rd); }
                };
                let b = match g.rng.below(4) {
                    0 => a.clone(),
                    1 => {
                        let r = recase(&a, 1 + g.rng.below(3) as usize);
                        if parses(code, &r) && names_in(code, &r).len() == names_in(code, &a).len() { r } else { a.clone() }
                    }
                    _ => loop {
                        let (c, _, rd) = random_rdata(&mut g, &table, 1_000_000);
                        if c == code && !names_in(c, &rd).is_empty() { break rd; }
                    },
                };
                let names = names_in(code, &a);
                if g.rng.chance(1, 2) {
                    let sh = 1 + g.rng.below(24) as usize;
                    let cs: Vec<Value> = names.iter().map(|n| random_carrier(&mut g.rng, n, Some(sh))).collect();
                    let (ma, mb) = (rdata::one_record_msg(&[0], code, &a), rdata::one_record_msg(&[0], code, &b));
                    let mut e = json!({"ev": "crdata", "rtype": code, "a": a, "b": b, "cs": cs});
                    merge(&mut e, observe(|| observe_carried_rdata(&ma, &cs, &mb, false)));
                    e
                } else {
                    let sh = *g.rng.pick(&[1usize, 5, 7, 11, 14, 23]);
                    let cs: Vec<Value> = names.iter().map(|n| random_carrier(&mut g.rng, n, Some(sh))).collect();
                    let owner = g.name();
                    let oc = random_carrier(&mut g.rng, &labels_of_wire(&owner), None);
                    let owner_b = if g.rng.chance(1, 2) { recase(&owner, g.rng.below(4) as usize) } else { relabel(&mut g, &owner) };
                    let ra = json!({"class": 1, "owner": owner, "ttl": *g.rng.pick(&[0u32, 300, 3600]), "rtype": code, "rd": a});
                    let rb = json!({"class": 1, "owner": owner_b, "ttl": *g.rng.pick(&[0u32, 300, 3600]), "rtype": code, "rd": b});
                    let mut e = json!({"ev": "crecord", "a": ra, "b": rb, "oc": oc, "cs": cs});
                    merge(&mut e, observe(|| observe_carried_record(&ra, &oc, &cs, &rb, false)));
                    e
                }
            }
            _ => {
                let (code, _, a) = random_rdata(&mut g, &table, 15);
                let b = match g.rng.below(5) {
                    0 => a.clone(),
                    1 => {
                        let r = recase(&a, 1 + g.rng.below(3) as usize);
                        if parses(code, &r) { r } else { a.clone() }
                    }
                    2 if !a.is_empty() => {
                        let mut r = a.clone();
                        let k = g.rng.below(r.len() as u64) as usize;
                        r[k] = r[k].wrapping_add(1);
                        if parses(code, &r) { r } else { a.clone() }
                    }
                    _ => loop {
                        let (c, _, rd) = random_rdata(&mut g, &table, 15);
                        if c == code { break rd; }
                    },
                };
                let (ma, mb) = (rdata::one_record_msg(&[0], code, &a), rdata::one_record_msg(&[0], code, &b));
                let mut e = json!({"ev": "rdata", "rtype": code, "a": a, "b": b});
                merge(&mut e, observe(|| observe_rdata_pair(&ma, &mb, false)));
                e
            }
        };
        if ev.get("panic").is_some() {
            ev["issues"] = json!(["panic"]);
        }
        tw.event(ev);
    }
    let n = tw.finish();
    println!("{}", json!({"events": n}));
}

fn merge(e: &mut Value, obs: Value) {
    if let Some(o) = obs.as_object() {
        for (k, v) in o {
            e[k] = v.clone();
        }
    }
}
