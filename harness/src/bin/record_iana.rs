//! I->S recorder for IanaParams.tla (X14): random codes written by every
//! writer and random texts (case-mangled mnemonics, generic forms with long /
//! signed / padded numbers, written forms with a character changed, junk) read
//! by every reader of every IANA type, one event per call.
//! usage: record_iana <trace.ndjson> <seed> <events>
#[path = "../zf.rs"]
mod zf;
#[path = "../iana.rs"]
mod iana;
use domain::base::iana::*;
use iana::*;
use serde_json::{json, Map, Value};
use std::str::FromStr;
use verif_harness::common::*;

const TYPES: &[&str] = &["Rtype", "Class", "SvcParamKey", "ExtendedErrorCode", "Opcode", "OptionCode", "TsigRcode",
    "SecurityAlgorithm", "DigestAlgorithm", "Nsec3HashAlgorithm", "ZonemdScheme", "ZonemdAlgorithm",
    "TlsaCertificateUsage", "TlsaSelector", "TlsaMatchingType", "SshfpAlgorithm", "SshfpType",
    "IpseckeyAlgorithm", "IpseckeyGatewayType", "Rcode", "OptRcode", "RType", "RClass"];

fn max_of(ty: &str) -> u32 {
    match ty {
        "Rcode" => 15,
        "OptRcode" => 4095,
        "Rtype" | "Class" | "SvcParamKey" | "ExtendedErrorCode" | "OptionCode" | "TsigRcode" | "RType" | "RClass" => 65535,
        _ => 255,
    }
}

fn pick_code(rng: &mut Rng, ty: &str) -> u32 {
    let max = max_of(ty);
    match rng.below(4) {
        0 => rng.below(70) as u32 % (max + 1),
        1 => (max - (rng.below(20) as u32).min(max)) as u32,
        2 => [249u32, 250, 255, 256, 259, 260, 32768, 32769, 26946, 4095, 4096, 23, 16][rng.below(13) as usize] % (max + 1),
        _ => rng.below(max as u64 + 1) as u32,
    }
}

fn write_ev<T: Iana>(ty: &str, c: u32) -> Value {
    let o = code_obs::<T>(ty, c);
    let mut e = Map::new();
    e.insert("ev".into(), json!("write"));
    e.insert("ty".into(), json!(ty));
    e.insert("c".into(), json!(c));
    for k in ["display", "mn", "token", "ser"] {
        if let Some(v) = o.get(k) { e.insert(k.into(), v.clone()); }
    }
    Value::Object(e)
}

fn display_of<T: Iana>(_ty: &str, c: u32) -> (String, Option<String>) {
    let v = T::mk(c);
    (format!("{}", v), v.mn().map(|m| String::from_utf8_lossy(m).to_string()))
}

fn mangle(rng: &mut Rng, s: &str) -> String {
    s.chars().map(|c| match rng.below(3) { 0 => c.to_ascii_lowercase(), 1 => c.to_ascii_uppercase(), _ => c }).collect()
}

fn digits(rng: &mut Rng) -> String {
    let mut s = String::new();
    match rng.below(8) { 0 => s.push('+'), 1 => s.push('-'), 2 => s.push_str("000"), _ => {} }
    let n = match rng.below(5) { 0 => 0, 1 => 1 + rng.below(3), 2 => 4 + rng.below(2), 3 => 6 + rng.below(6), _ => 18 + rng.below(8) };
    for _ in 0..n { s.push((b'0' + rng.below(10) as u8) as char); }
    if rng.chance(1, 12) { s.push(*rng.pick(&['x', ' ', '\u{e9}', '\0', '+', '.'])); }
    s
}

fn main() {
    let args: Vec<String> = std::env::args().collect();
    let path = args.get(1).expect("trace path");
    let seed: u64 = args.get(2).and_then(|s| s.parse().ok()).unwrap_or_else(seed);
    let n: u64 = args.get(3).and_then(|s| s.parse().ok()).unwrap_or(2000);
    quiet_panics();
    let mut rng = Rng::new(seed);
    let mut tw = TraceWriter::create(path);
    for _ in 0..n {
        let ty = *rng.pick(TYPES);
        let c = pick_code(&mut rng, ty);
        let (style, prefix) = style_of(ty);
        if rng.chance(2, 5) || style == "newdisp" {
            let ev = match ty {
                "Rcode" => { let o = rcode_obs(c); json!({"ev": "write", "ty": ty, "c": c, "display": o["display"], "mn": o["mn"], "ser": o["ser"]}) }
                "OptRcode" => { let o = optrcode_obs(c); json!({"ev": "write", "ty": ty, "c": c, "display": o["display"], "mn": o["mn"]}) }
                "RType" | "RClass" => { let o = new_obs(ty, c); json!({"ev": "write", "ty": ty, "c": c, "display": o["display"]}) }
                _ => with_iana!(ty, write_ev, ty, c).unwrap(),
            };
            tw.event(ev);
            continue;
        }
        // a text
        let (disp, mn) = match ty {
            "Rcode" => { let v = Rcode::masked_from_int(c as u8); (format!("{}", v), v.to_mnemonic_str().map(|s| s.to_string())) }
            "OptRcode" => { let v = OptRcode::masked_from_int(c as u16); (format!("{}", v), v.to_mnemonic_str().map(|s| s.to_string())) }
            _ => with_iana!(ty, display_of, ty, c).unwrap(),
        };
        let rcode = style == "rcode";
        let text = match rng.below(7) {
            0 => disp.clone(),
            1 => if rcode { disp.clone() } else { mangle(&mut rng, &disp) },
            2 => match &mn { Some(m) if !rcode => mangle(&mut rng, m), Some(m) => m.clone(), None => disp.clone() },
            3 => format!("{}{}", if rng.chance(1, 2) { mangle(&mut rng, prefix) } else { prefix.to_string() }, digits(&mut rng)),
            4 => format!("{}{}", prefix, c),
            5 => { let mut t = mn.clone().unwrap_or(disp.clone()); t.push(*rng.pick(&['1', 'X', '-', ' '])); t }
            _ => digits(&mut rng),
        };
        let ev = match ty {
            "Rcode" | "OptRcode" => { let o = rcode_text_obs(ty, &text); json!({"ev": "read", "ty": ty, "t": chars(&text), "fromstr": o["fromstr"]}) }
            _ => {
                let o = with_iana!(ty, text_obs, ty, &text).unwrap();
                if o.get("routes").is_some() {
                    eprintln!("ROUTES-DISAGREE {}", o);
                    std::process::exit(3);
                }
                json!({"ev": "read", "ty": ty, "t": chars(&text), "fromstr": o["fromstr"], "mn": o["mn"], "de": o["de"]})
            }
        };
        tw.event(ev);
    }
    let n = tw.finish();
    println!("recorded {} events", n);
    let _ = Rtype::from_str("A");
}
