fn main() {}
