//! S->I executor for spec/MC_Repl.tla (X08): every behaviour TLC explored is
//! performed on the real stack - real TSIG client wrapper, real TSIG server
//! middleware, real interpreter and updater, the adversary's actions on the
//! real octets - and the secondary's status, TSIG verdict and visible zone
//! content are reported after every get_response().
//!
//! in:  {hist, base, kind, from, diffs, key, olds, oldc, msgs, oldmsgs,
//!       faults, eos, prim, forge, burst}
//! obs: {serve: {res, rc, terr, n}, steps: [...], final: {st, why, pub}}
#[path = "../repl.rs"]
mod repl;

use repl::xfr::*;
use repl::*;
use serde_json::{json, Value};
use std::sync::{Arc, Mutex};
use verif_harness::common::*;

fn ids(v: &Value) -> Vec<i64> {
    v.as_array().map(|a| a.iter().map(|x| x.as_i64().unwrap()).collect()).unwrap_or_default()
}

fn flip_request(w: &mut [u8]) {
    // the low octet of QTYPE (the question follows the 12-octet header)
    let mut p = 12;
    while w[p] != 0 {
        p += 1 + w[p] as usize;
    }
    w[p + 2] ^= 0x04;
}

async fn old_transfer(input: &Value) -> Result<Vec<Vec<u8>>, String> {
    let oldmsgs = input["oldmsgs"].as_array().cloned().unwrap_or_default();
    if oldmsgs.is_empty() {
        return Ok(vec![]);
    }
    let sh: Sh = Arc::new(Mutex::new(Net::default()));
    let zone = build_zone(1, &[]);
    let mut sec = Secondary::new(zone, "good", OLD_ID, 252, 0, sh.clone()).await;
    if !first_poll(&mut sec).await {
        return Err("old transfer: request not pending".into());
    }
    let req = sh.lock().unwrap().req.take().ok_or("old transfer: no request")?;
    serve_scripted(&req, oldmsgs).await
}

/// the real primary: a zone taken through the history by committed updates
async fn real_provider(input: &Value) -> ZoneWithDiffs {
    use domain::base::iana::Class;
    use domain::base::{Record, Ttl};
    use domain::zonetree::types::ZoneUpdate;
    use domain::zonetree::update::ZoneUpdater;
    use domain::zonetree::StoredName;
    let hist = input["hist"].as_array().unwrap();
    let rec = |id: i64| -> Record<StoredName, StoredData> {
        Record::new(owner_of(id), Class::IN, Ttl::from_secs(TTL), data_of(id))
    };
    let mut cur = ids(&hist[0]["c"]);
    let zone = build_zone(hist[0]["s"].as_i64().unwrap(), &cur);
    let mut diffs = vec![];
    for v in &hist[1..] {
        let next = ids(&v["c"]);
        let mut up: ZoneUpdater<StoredName> = ZoneUpdater::new(zone.clone()).await.unwrap();
        for id in cur.iter().filter(|i| !next.contains(i)) {
            up.apply(ZoneUpdate::DeleteRecord(rec(*id))).await.unwrap();
        }
        for id in next.iter().filter(|i| !cur.contains(i)) {
            up.apply(ZoneUpdate::AddRecord(rec(*id))).await.unwrap();
        }
        let d = up.apply(ZoneUpdate::Finished(rec(SOA_BASE + v["s"].as_i64().unwrap()))).await.unwrap();
        if let Some(d) = d {
            diffs.push(Arc::new(d));
        }
        cur = next;
    }
    if !input["diffs"].as_bool().unwrap_or(true) {
        diffs.clear();
    }
    ZoneWithDiffs { zone, diffs }
}

async fn run(input: &Value, reserve: Option<u16>) -> Value {
    set_serial_base(input["base"].as_i64().unwrap_or(1));
    let kind = input["kind"].as_u64().unwrap() as u16;
    let key = input["key"].as_str().unwrap_or("good");
    let hist = input["hist"].as_array().unwrap();
    let from = input["from"].as_u64().unwrap() as usize;
    let from_serial = hist[from - 1]["s"].as_u64().unwrap() as u32;
    let faults = input["faults"].as_array().cloned().unwrap_or_default();
    let old = match old_transfer(input).await {
        Ok(o) => o,
        Err(e) => return json!({"harness": e}),
    };
    let zone2 = build_zone(input["olds"].as_i64().unwrap(), &ids(&input["oldc"]));
    let sh: Sh = Arc::new(Mutex::new(Net::default()));
    let mut sec = Secondary::new(zone2, key, REQ_ID, kind, from_serial, sh.clone()).await;
    if !first_poll(&mut sec).await {
        return json!({"harness": "request not pending"});
    }
    let mut req = match sh.lock().unwrap().req.take() {
        Some(r) => r,
        None => return json!({"harness": "no request composed"}),
    };
    if faults.iter().any(|f| f["k"] == "flipreq") {
        flip_request(&mut req);
    }
    let resps = match reserve {
        None => serve_scripted(&req, input["msgs"].as_array().cloned().unwrap_or_default()).await,
        Some(n) => serve_real(&req, real_provider(input).await, n).await,
    };
    let resps = match resps {
        Ok(r) => r,
        Err(e) => return json!({"serve": {"res": e}}),
    };
    let mut serve = serve_obs(&resps);
    if reserve.is_some() {
        serve.as_object_mut().unwrap().remove("n");
    }
    let mut wire: Vec<Wire> = resps.into_iter().map(|w| Wire { w, rep: 1 }).collect();
    let cur = hist.last().unwrap();
    let forged = |f: &Value| -> Vec<u8> {
        let an = if f["k"] == "forge" {
            json!([input["forge"], SOA_BASE + cur["s"].as_i64().unwrap()])
        } else {
            json!([input["burst"]])
        };
        forged_message(REQ_ID, &json!({"qr": 1, "rc": 0, "tc": 0, "qd": [], "an": an}))
    };
    let eos = match apply_faults(&mut wire, &old, &faults, &forged) {
        Ok(e) => e,
        Err(e) => return json!({"harness": e}),
    };
    {
        let mut g = sh.lock().unwrap();
        for w in &wire {
            for _ in 0..w.rep {
                g.q.push_back(Item::Msg(w.w.clone()));
            }
        }
        g.q.push_back(if eos == "end" { Item::End } else { Item::Abort });
    }
    let mut steps = vec![];
    let mut upto = 0;
    for w in &wire {
        upto += w.rep;
        if let Some(v) = sec.step_upto(&sh, upto).await {
            steps.push(sec.obs("deliver", &v));
        }
    }
    if let Some(v) = sec.step_upto(&sh, upto + 1).await {
        steps.push(sec.obs("eos", &v));
    }
    let fin = json!({"st": sec.st, "why": sec.why, "pub": view_of(&sec.zone)});
    if reserve.is_some() {
        json!({"serve": serve, "final": fin})
    } else {
        json!({"serve": serve, "steps": steps, "final": fin})
    }
}

fn main() {
    let rt = tokio::runtime::Builder::new_multi_thread().worker_threads(2).enable_all().build().unwrap();
    run_cases(|input| {
        if input["prim"] == "real" {
            // the real transfer middleware chooses the packaging: one message,
            // and split by a small per-message budget
            let mut out: Vec<Value> = vec![];
            for n in [0u16, 65535 - 330, 65535 - 420] {
                out.push(rt.block_on(run(input, Some(n))));
            }
            if out.iter().all(|o| o == &out[0]) {
                out[0].clone()
            } else {
                json!({"differs": out})
            }
        } else {
            rt.block_on(run(input, None))
        }
    });
}
