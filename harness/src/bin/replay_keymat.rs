//! S->I executor for KeyMaterial.tla (X12): every generated case is performed
//! on the real library.
#[path = "../keymat.rs"]
mod keymat;
use domain::base::iana::{DigestAlgorithm, SecurityAlgorithm};
use domain::base::rdata::ComposeRecordData;
use domain::crypto::sign::{KeyPair, SecretKeyBytes, SignRaw};
use domain::dnssec::sign::keys::SigningKey;
use domain::dnssec::validator::anchor::TrustAnchors;
use domain::dnssec::validator::base::DnskeyExt;
use domain::rdata::{Dnskey, Ds};
use keymat::*;
use serde_json::{json, Value};
use verif_harness::common::*;

fn flags_case(input: &Value) -> Value {
    let f = input["flags"].as_u64().unwrap_or(0) as u16;
    let d = Dnskey::new(f, 3, SecurityAlgorithm::ED25519, vec![0u8]).unwrap();
    let sk = SigningKey::new(name_of(&json!([[101]])), f, DummyKey(d.clone()));
    if sk.is_zone_signing_key() != d.is_zone_key() || sk.is_revoked() != d.is_revoked()
        || sk.is_secure_entry_point() != d.is_secure_entry_point() || sk.flags() != f || d.flags() != f {
        return json!({"signing_key_and_dnskey_disagree": f});
    }
    json!({"zone": d.is_zone_key(), "revoked": d.is_revoked(), "sep": d.is_secure_entry_point()})
}

fn keytag_case(input: &Value) -> Value {
    let d = dnskey_of(&input["key"]);
    let tag = d.key_tag();
    // the same key after a trip through the wire format, and held by a SigningKey
    let mut w: Vec<u8> = vec![];
    d.compose_rdata(&mut w).expect("compose");
    let back = Dnskey::parse(&mut domain::dep::octseq::Parser::from_ref(w.as_slice())).expect("parse");
    let sk = SigningKey::new(name_of(&json!([[101]])), d.flags(), DummyKey(d.clone()));
    if back.key_tag() != tag || sk.dnskey().key_tag() != tag {
        return json!({"tag_depends_on_representation": tag});
    }
    let r = Dnskey::new(d.flags() | 0x80, d.protocol(), d.algorithm(), d.public_key().clone()).unwrap();
    json!({"tag": tag, "revoked_tag": r.key_tag()})
}

fn signingkey_case(input: &Value) -> Value {
    let inner = dnskey_of(&input["inner"]);
    let f = input["flags"].as_u64().unwrap_or(0) as u16;
    let sk = SigningKey::new(name_of(&json!([[101]])), f, DummyKey(inner));
    let d = sk.dnskey();
    json!({"flags": sk.flags(), "zone": sk.is_zone_signing_key(), "revoked": sk.is_revoked(),
           "sep": sk.is_secure_entry_point(), "dnskey_flags": d.flags(), "dnskey_tag": d.key_tag()})
}

fn ds_case(input: &Value) -> Value {
    let (owner, key) = (name_of(&input["owner"]), dnskey_of(&input["key"]));
    let dt = DigestAlgorithm::from_int(input["dt"].as_u64().unwrap_or(0) as u8);
    let digest = match key.digest(&owner, dt) {
        Ok(d) => d.as_ref().to_vec(),
        Err(_) => return json!({"unsupported": true}),
    };
    let digest_ok = digest == eval_term(&input["term"]);
    let ds = Ds::new(key.key_tag(), key.algorithm(), dt, digest).expect("ds");
    // RFC 4035 5.2 with the library's own accessors and digest function
    let (o2, k2) = (name_of(&input["owner2"]), dnskey_of(&input["key2"]));
    let m = ds.algorithm() == k2.algorithm() && ds.key_tag() == k2.key_tag()
        && k2.digest(&o2, ds.digest_type()).map(|d| d.as_ref() == &ds.digest()[..]).unwrap_or(false);
    json!({"digest_ok": digest_ok, "match": m})
}

fn pair_case(mats: &Mats, input: &Value) -> Value {
    let (sa, sid) = (input["sec"]["alg"].as_u64().unwrap() as u8, input["sec"]["id"].as_u64().unwrap() as u8);
    let secret = SecretKeyBytes::parse_from_bind(&mats.get(sa, sid).text).expect("secret");
    let p = &input["pub"];
    let how = p["key"][0].as_str().unwrap_or("");
    let kid = p["key"][1].as_u64().unwrap() as u8;
    let mut octs = mats.get(sa, kid).public.public_key().clone();
    match how {
        "pub" => {}
        "flip" => { let n = octs.len(); octs[n - 1] ^= 1; }
        "short" => { octs.pop(); }
        o => panic!("key form {o}"),
    }
    let d = Dnskey::new(p["flags"].as_u64().unwrap() as u16, p["proto"].as_u64().unwrap() as u8,
                        SecurityAlgorithm::from_int(p["alg"].as_u64().unwrap() as u8), octs).unwrap();
    match KeyPair::from_bytes(&secret, &d) {
        Err(_) => json!({"err": true}),
        Ok(k) => {
            if k.algorithm() != secret.algorithm() {
                return json!({"pair_of_another_algorithm": true});
            }
            json!({"ok": true, "same_dnskey": k.dnskey() == d})
        }
    }
}

fn anchortext_case(input: &Value) -> Value {
    let s = &input["shape"];
    let mut t = String::from(".");
    if s["ttl"] == true { t.push_str(" 3600"); }
    if s["class"] == true { t.push_str(" IN"); }
    t.push_str(" DS 20326 8 2 E06D44B80B8F1D39A95C0B0D7C65D08458E880409BBC683457104237C7F8EC8D");
    if s["finalnl"] == true { t.push('\n'); }
    let ok = match s["api"].as_str().unwrap_or("") {
        "from_u8" => TrustAnchors::from_u8(t.as_bytes()).is_ok(),
        "from_reader" => TrustAnchors::from_reader(t.as_bytes()).is_ok(),
        _ => TrustAnchors::empty().add_u8(t.as_bytes()).is_ok(),
    };
    json!({"ok": ok})
}

fn anchors_case(rt: &tokio::runtime::Runtime, input: &Value) -> Value {
    let ops: Vec<Vec<String>> = input["ops"].as_array().unwrap().iter()
        .map(|o| o.as_array().unwrap().iter().map(anchor_line).collect()).collect();
    let probes = input["probes"].as_array().unwrap();
    let mut steps = vec![];
    for i in 1..=ops.len() {
        let mut finds = vec![];
        for p in probes {
            // a fresh TrustAnchors and validator per probe: no node cache in the way
            let ta = match anchors_from(&ops[..i]) {
                Ok(ta) => ta,
                Err(j) => return json!({"add_refused": j}),
            };
            finds.push(json!({"name": p, "found": find_via_validator(rt, ta, &name_of(p))}));
        }
        steps.push(Value::Array(finds));
    }
    json!({"steps": steps})
}

fn main() {
    let mats = Mats::new();
    let rt = tokio::runtime::Builder::new_current_thread().enable_time().build().expect("rt");
    run_cases(|input| match input["kind"].as_str() {
        Some("flags") => flags_case(input),
        Some("keytag") => keytag_case(input),
        Some("signingkey") => signingkey_case(input),
        Some("ds") => ds_case(input),
        Some("pair") => pair_case(&mats, input),
        Some("anchortext") => anchortext_case(input),
        Some("anchors") => anchors_case(&rt, input),
        Some("priv") => priv_case(&mats, input["file"].as_array().map(|v| &v[..]).unwrap_or(&[])),
        Some("privwrite") => {
            let alg = input["alg"].as_u64().unwrap() as u8;
            let text = &mats.get(alg, 1).text;
            json!({"lines": symbolic_lines(&mats, alg, text), "back": read_priv(&mats, text)})
        }
        Some("pub") => pub_case(mats.get(15, 1), input["text"].as_array().map(|v| &v[..]).unwrap_or(&[])),
        _ => json!({"unknown_case_kind": input["kind"]}),
    });
}
