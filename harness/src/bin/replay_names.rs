//! S->I executor for C03: transitions of spec/MC_NameBuilder.tla on a real
//! `NameBuilder<Vec<u8>>`, the representation cases of spec/MC_Names.tla and
//! the zone-file owner-name cases.
#[path = "../names.rs"]
mod names;

use bytes::{BufMut, Bytes, BytesMut};
use domain::base::name::{
    FlattenInto, Label, Name, NameBuilder, OwnedLabel, ParsedName, RelativeName, ToLabelIter, ToName,
    ToRelativeName, UncertainName,
};
use domain::base::scan::{IterScanner, Symbol, Symbols};
use domain::rdata::ZoneRecordData;
use domain::zonefile::inplace::{Entry, Zonefile};
use names::*;
use octseq::builder::{FreezeBuilder, OctetsBuilder};
use octseq::{OctetsFrom, Parser};
use serde_json::{json, Value};
use std::net::{IpAddr, Ipv4Addr, Ipv6Addr};
use std::ops::{Bound, RangeBounds};
use std::str::FromStr;
use verif_harness::common::*;

/// One transition: bring a real builder into the source state, make the
/// call, report what the spec's `Obs` describes.  Done on a builder over
/// `Vec<u8>` and on one over `BytesMut`, each made by one of its constructors.
fn transition(input: &Value) -> Value {
    let a = transition_on::<Vec<u8>>(input);
    let b = transition_on::<BytesMut>(input);
    if a == b {
        a
    } else {
        json!({"octets_types_disagree": {"vec": a, "bytes": b}})
    }
}

fn transition_on<T>(input: &Value) -> Value
where
    T: OctetsBuilder + AsRef<[u8]> + AsMut<[u8]> + FreezeBuilder + Clone + Ctor,
    T::Octets: AsRef<[u8]>,
{
    let mut fill = Fill(input["s"][0].as_u64().unwrap_or(0) as usize);
    let mut b = match input.get("p") {
        None => match construct::<T>(&input["s"], input["f"].as_bool().unwrap_or(false), &mut fill) {
            Some(b) => b,
            None => return json!({"cannot_construct_source": input["s"]}),
        },
        Some(path) => {
            // a state that only deviations lead to: follow the model's path
            let mut b = T::ctor(fill.0);
            for step in path.as_array().map(|a| a.as_slice()).unwrap_or(&[]) {
                let op = step[0].as_str().unwrap_or("");
                let _ = apply(&mut b, op, &step[1], &mut fill);
            }
            if proj(&b) != input["s"] {
                return json!({"unreachable": true});
            }
            b
        }
    };
    let op = input["o"].as_str().unwrap_or("");
    let (res, out) = apply(&mut b, op, &input["a"], &mut fill);
    let o = obs(&b, op, &res, out);
    // from a state that only deviations lead to, any combination of the open
    // deviations is what the model predicts
    if let Some(alts) = input.get("alts").and_then(|a| a.as_array()) {
        if alts.contains(&o) {
            return json!({"as_model": true});
        }
    }
    o
}

// ---------------------------------------------------------------------------
// representation cases (spec/MC_Names.tla)

type N = Name<Vec<u8>>;
type Rn = RelativeName<Vec<u8>>;
type U = UncertainName<Vec<u8>>;

fn tag_name<O: AsRef<[u8]>>(r: Result<Name<O>, impl Sized>) -> Value {
    match r {
        Ok(n) if valid_abs(n.as_slice()) => json!(["abs", json_bytes(n.as_slice())]),
        Ok(n) => json!(["invalid_abs", json_bytes(n.as_slice())]),
        Err(_) => json!(["err"]),
    }
}

fn tag_rel<O: AsRef<[u8]>>(r: Result<RelativeName<O>, impl Sized>) -> Value {
    match r {
        Ok(n) if valid_rel(n.as_slice()) => json!(["rel", json_bytes(n.as_slice())]),
        Ok(n) => json!(["invalid_rel", json_bytes(n.as_slice())]),
        Err(_) => json!(["err"]),
    }
}

fn tag_unc<O: AsRef<[u8]> + Clone>(r: Result<UncertainName<O>, impl Sized>) -> Value {
    let u = match r {
        Ok(u) => u,
        Err(_) => return json!(["err"]),
    };
    // the accessors of an uncertain name describe the same value
    let abs = u.is_absolute();
    if u.is_relative() == abs
        || u.as_absolute().is_some() != abs
        || u.as_relative().is_some() == abs
        || u.clone().try_into_absolute().is_ok() != abs
        || u.clone().try_into_relative().is_ok() == abs
        || u.as_slice() != u.as_octets().as_ref()
        || AsRef::<[u8]>::as_ref(&u) != u.as_slice()
        || AsRef::<O>::as_ref(&u).as_ref() != u.as_slice()
        || usize::from(u.compose_len()) != u.as_slice().len()
    {
        return json!(["uncertain_accessors_disagree", json_bytes(u.as_slice())]);
    }
    let mut walked = vec![];
    for l in &u {
        walked.push(l.len() as u8);
        walked.extend_from_slice(l.as_slice());
    }
    if walked != u.as_slice() {
        return json!(["uncertain_labels_differ", json_bytes(&walked)]);
    }
    match u {
        UncertainName::Absolute(n) => tag_name(Ok::<Name<O>, ()>(n)),
        UncertainName::Relative(n) => tag_rel(Ok::<RelativeName<O>, ()>(n)),
    }
}

/// Every route to the same operator of the specification must give the same
/// value: that value, or which route is off.
fn one(routes: Vec<(&str, Value)>) -> Value {
    let first = routes[0].1.clone();
    for (n, v) in &routes {
        if *v != first {
            return json!(["routes_disagree", routes[0].0, first, n, v]);
        }
    }
    first
}

fn has_backslash(t: &str) -> bool {
    t.contains('\\')
}

/// every way of reading a text as an absolute name
fn name_routes(t: &str) -> Value {
    let mut r = vec![
        ("from_str", tag_name(N::from_str(t))),
        ("from_chars", tag_name(N::from_chars(t.chars()))),
        ("vec_from_str", tag_name(Name::vec_from_str(t))),
        ("bytes_from_str", tag_name(Name::bytes_from_str(t))),
        ("from_str<Bytes>", tag_name(Name::<Bytes>::from_str(t))),
        ("from_symbols", tag_name(Symbols::with(t.chars(), |s| N::from_symbols(s)))),
        ("serde_json", tag_name(serde_json::from_value::<N>(Value::String(t.to_string())))),
        ("serde_json<Bytes>", tag_name(serde_json::from_value::<Name<Bytes>>(Value::String(t.to_string())))),
    ];
    if !has_backslash(t) {
        // without escapes a character is a symbol
        r.push(("from_symbols(From<char>)", tag_name(N::from_symbols(t.chars().map(Symbol::from)))));
    }
    one(r)
}

/// every way of reading a text as a name that may be relative
fn unc_routes(t: &str) -> Value {
    let mut r = vec![
        ("from_str", tag_unc(U::from_str(t))),
        ("from_chars", tag_unc(U::from_chars(t.chars()))),
        ("from_str<Bytes>", tag_unc(UncertainName::<Bytes>::from_str(t))),
        ("serde_json", tag_unc(serde_json::from_value::<U>(Value::String(t.to_string())))),
    ];
    // the builder itself: a label left open means a relative name
    if t != "." {
        let mut b = NameBuilder::new_vec();
        let v = match b.append_chars(t.chars()) {
            Err(_) => json!(["err"]),
            Ok(()) if b.in_label() || b.is_empty() => tag_rel(Ok::<Rn, ()>(b.finish())),
            Ok(()) => tag_name(b.into_name()),
        };
        r.push(("append_chars", v));
        let mut b = NameBuilder::new_bytes();
        let v = match Symbols::with(t.chars(), |s| b.append_symbols(s)) {
            Err(_) => json!(["err"]),
            Ok(()) if b.in_label() || b.is_empty() => tag_rel(Ok::<RelativeName<Bytes>, ()>(b.finish())),
            Ok(()) => tag_name(b.into_name()),
        };
        r.push(("append_symbols<BytesMut>", v));
    }
    one(r)
}

/// every way of reading a text as a relative name
fn rel_routes(t: &str) -> Value {
    one(vec![
        ("from_str", tag_rel(Rn::from_str(t))),
        ("from_chars", tag_rel(Rn::from_chars(t.chars()))),
        ("vec_from_str", tag_rel(RelativeName::vec_from_str(t))),
        ("bytes_from_str", tag_rel(RelativeName::bytes_from_str(t))),
    ])
}

fn tag_label(r: Result<OwnedLabel, impl Sized>) -> Value {
    match r {
        Ok(l) if l.as_slice().len() <= 63 && l.as_wire_slice()[0] as usize == l.len() => json!(["lab", json_bytes(l.as_slice())]),
        Ok(l) => json!(["invalid_label", json_bytes(l.as_wire_slice())]),
        Err(_) => json!(["err"]),
    }
}

/// every way of reading a text as a single label
fn label_routes(t: &str) -> Value {
    one(vec![
        ("from_str", tag_label(OwnedLabel::from_str(t))),
        ("from_chars", tag_label(OwnedLabel::from_chars(t.chars()))),
        ("serde_json", tag_label(serde_json::from_value::<OwnedLabel>(Value::String(t.to_string())))),
    ])
}

/// every way of setting up the zone-file reader over the same text
fn zonefiles(text: &str) -> Vec<(&'static str, Zonefile)> {
    let mut v = vec![
        ("from_str", Zonefile::from(text)),
        ("from_slice", Zonefile::from(text.as_bytes())),
        ("allow_invalid", Zonefile::from(text).allow_invalid()),
    ];
    if let Ok(z) = Zonefile::load(&mut text.as_bytes()) {
        v.push(("load", z));
    }
    let mut z = Zonefile::new();
    z.extend_from_slice(text.as_bytes());
    v.push(("new+extend", z));
    let mut z = Zonefile::default();
    z.put_slice(text.as_bytes());
    v.push(("default+BufMut", z));
    let mut z = Zonefile::with_capacity(3);
    z.reserve(text.len());
    for chunk in text.as_bytes().chunks(7) {
        z.put_slice(chunk);
    }
    v.push(("with_capacity+reserve+chunks", z));
    v
}

/// the first record's name at `place`, read by every reader set-up
fn zone_read(text: &str, place: &str) -> Value {
    let mut r = vec![];
    for (how, mut zf) in zonefiles(text) {
        let v = loop {
            match zf.next_entry() {
                Ok(Some(Entry::Record(rec))) => {
                    let n: N = match place {
                        "owner" => rec.owner().to_name(),
                        "ns" => match rec.data() {
                            ZoneRecordData::Ns(ns) => ns.nsdname().to_name(),
                            _ => break json!(["wrong_record_type", [], 0]),
                        },
                        _ => match rec.data() {
                            ZoneRecordData::Mx(mx) => mx.exchange().to_name(),
                            _ => break json!(["wrong_record_type", [], 0]),
                        },
                    };
                    break json!(["abs", json_bytes(n.as_slice()), valid_abs(n.as_slice()) as u8]);
                }
                Ok(Some(_)) => continue,
                Ok(None) | Err(_) => break json!(["err", [], 1]),
            }
        };
        r.push((how, v));
    }
    one(r)
}

fn zone_text(name: &str, place: &str) -> String {
    match place {
        "owner" => format!("$ORIGIN example.\n{} 3600 IN A 192.0.2.1\n", name),
        "ns" => format!("$ORIGIN example.\nx 3600 IN NS {}\n", name),
        _ => format!("$ORIGIN example.\nx 3600 IN MX 10 {}\n", name),
    }
}

fn octets_or_err(r: Result<N, impl Sized>) -> Value {
    match r {
        Ok(n) => json_bytes(n.as_slice()),
        Err(_) => json!("err"),
    }
}

/// all ways of cutting `name` at octet index i must agree
fn abs_boundary(name: &N, i: usize) -> Value {
    let (l, r) = name.split(i);
    let left = l.as_slice().to_vec();
    let right = r.as_slice().to_vec();
    let lefts: Vec<Vec<u8>> = vec![
        name.clone().truncate(i).as_slice().to_vec(),
        name.range(..i).as_slice().to_vec(),
        name.range(0..i).as_slice().to_vec(),
        name.slice(..i).as_slice().to_vec(),
        match name.clone().strip_suffix(&r) {
            Ok(x) => x.as_slice().to_vec(),
            Err(_) => vec![0xEE],
        },
    ];
    let rights: Vec<Vec<u8>> =
        vec![name.range_from(i).as_slice().to_vec(), name.slice_from(i).as_slice().to_vec()];
    if lefts.iter().any(|x| *x != left) || rights.iter().any(|x| *x != right) {
        return json!([i, "ways_disagree"]);
    }
    if !valid_rel(&left) || !valid_abs(&right) {
        return json!([i, "invalid_piece"]);
    }
    let lo: Rn = RelativeName::from_octets(left.clone()).unwrap();
    let ro: N = Name::from_octets(right.clone()).unwrap();
    match lo.clone().chain(ro.clone()) {
        Ok(ch) => {
            let flat: N = ch.to_name();
            if flat.as_slice() != name.as_slice()
                || ch.to_string() != name.to_string()
                || usize::from(ch.compose_len()) != name.len()
            {
                return json!([i, "chain_differs"]);
            }
            if let Some(why) = abs_chain_views(&ch, name) {
                return json!([i, "chain_differs", why]);
            }
            if !chain_dot_text_ok(&ch, name) {
                return json!([i, "chain_differs", "fmt_with_dot"]);
            }
            let (l2, r2) = ch.unwrap();
            if l2.as_slice() != left || r2.as_slice() != right {
                return json!([i, "chain_unwrap_differs"]);
            }
        }
        Err(_) => return json!([i, "chain_refused"]),
    }
    macro_rules! same_name {
        ($what:expr, $chain:expr) => {
            match $chain {
                Ok(ch) => {
                    if let Some(why) = abs_chain_views(&ch, name) {
                        return json!([i, $what, why]);
                    }
                    if !chain_dot_text_ok(&ch, name) {
                        return json!([i, $what, "fmt_with_dot"]);
                    }
                }
                Err(_) => return json!([i, $what, "refused"]),
            }
        };
    }
    // the same through an uncertain left half, relative and absolute
    same_name!("uncertain_chain", U::from(lo.clone()).chain(ro.clone()));
    same_name!("uncertain_absolute_chain", U::from(name.clone()).chain(ro.clone()));
    // a chain chained on: (left, nothing, right) and (first label, rest of left, right)
    same_name!("chain_of_chain", lo.clone().chain(RelativeName::empty_ref()).and_then(|c| c.chain(ro.clone())));
    if let Some(f) = lo.first() {
        let (a, b) = lo.split(f.len() + 1);
        same_name!("three_part_chain", a.chain(b).and_then(|c| c.chain(ro.clone())));
    }
    // the trait's chain as well as the inherent one
    same_name!("ToRelativeName::chain", ToRelativeName::chain(lo.clone(), ro.clone()));
    if ro.len() == 1 {
        same_name!("chain_root", Ok::<_, ()>(lo.clone().chain_root()));
        same_name!("ToRelativeName::chain_root", Ok::<_, ()>(ToRelativeName::chain_root(lo.clone())));
    }
    json!([i, json_bytes(&left), json_bytes(&right)])
}

/// everything a chain that stands for an absolute name offers must describe
/// `name`: labels (forwards, backwards, from a cloned iterator), length,
/// flat forms, both texts read back
fn abs_chain_views<C: ToName + std::fmt::Display>(ch: &C, name: &N) -> Option<&'static str> {
    let mut fwd = vec![];
    for l in ch.iter_labels() {
        fwd.push(l.len() as u8);
        fwd.extend_from_slice(l.as_slice());
    }
    if fwd != name.as_slice() {
        return Some("iter_labels");
    }
    let it = ch.iter_labels();
    let it2 = it.clone();
    if it.count() != name.label_count() || it2.map(|l| l.len() + 1).sum::<usize>() != name.len() {
        return Some("cloned iterator");
    }
    let mut back: Vec<Vec<u8>> = ch.iter_labels().rev().map(|l| l.as_slice().to_vec()).collect();
    back.reverse();
    let mut b2 = vec![];
    for l in back {
        b2.push(l.len() as u8);
        b2.extend_from_slice(&l);
    }
    if b2 != name.as_slice() {
        return Some("iter_labels().rev()");
    }
    if usize::from(ch.compose_len()) != name.len() {
        return Some("compose_len");
    }
    let flat: N = ch.to_name();
    if flat.as_slice() != name.as_slice() {
        return Some("to_name");
    }
    let mut composed: Vec<u8> = vec![];
    if ch.compose(&mut composed).is_err() || composed != name.as_slice() {
        return Some("compose");
    }
    if !ch.name_eq(name) || ch.to_string() != name.to_string() {
        return Some("eq / Display");
    }
    if !N::from_str(&ch.to_string()).map(|n| n.as_slice() == name.as_slice()).unwrap_or(false) {
        return Some("text read back");
    }
    None
}

/// the text with a final dot that a chain's fmt_with_dot writes, read back
fn chain_dot_text_ok<L, R>(ch: &domain::base::name::Chain<L, R>, name: &N) -> bool
where
    domain::base::name::Chain<L, R>: ToLabelIter,
{
    let t = ch.fmt_with_dot().to_string();
    t == name.fmt_with_dot().to_string() && N::from_str(&t).map(|n| n.as_slice() == name.as_slice()).unwrap_or(false)
}

fn rel_boundary(rel: &Rn, i: usize) -> Value {
    let (l, r) = rel.split(i);
    let left = l.as_slice().to_vec();
    let right = r.as_slice().to_vec();
    let mut t = rel.clone();
    t.truncate(i);
    let mut st = rel.clone();
    let stripped = st.strip_suffix(&r).is_ok();
    let lefts: Vec<Vec<u8>> = vec![
        t.as_slice().to_vec(),
        rel.range(..i).as_slice().to_vec(),
        rel.slice(0..i).as_slice().to_vec(),
        if stripped { st.as_slice().to_vec() } else { vec![0xEE] },
    ];
    let rights: Vec<Vec<u8>> =
        vec![rel.range(i..).as_slice().to_vec(), rel.slice(i..).as_slice().to_vec()];
    if lefts.iter().any(|x| *x != left) || rights.iter().any(|x| *x != right) {
        return json!([i, "ways_disagree"]);
    }
    if !valid_rel(&left) || !valid_rel(&right) {
        return json!([i, "invalid_piece"]);
    }
    let lo: Rn = RelativeName::from_octets(left.clone()).unwrap();
    let ro: Rn = RelativeName::from_octets(right.clone()).unwrap();
    match lo.chain(ro) {
        Ok(ch) => {
            let flat: Rn = ch.to_relative_name();
            if flat.as_slice() != rel.as_slice() || ch.to_string() != rel.to_string() {
                return json!([i, "chain_differs"]);
            }
        }
        Err(_) => return json!([i, "chain_refused"]),
    }
    json!([i, json_bytes(&left), json_bytes(&right)])
}

fn refused<F: FnOnce() + std::panic::UnwindSafe>(f: F) -> bool {
    std::panic::catch_unwind(f).is_err()
}

fn name_case(input: &Value) -> Value {
    let wire = bytes_of(&input["wire"]);
    let relwire = bytes_of(&input["rel"]);
    let text = string_of(&input["text"]);
    let reltext = string_of(&input["reltext"]);
    let name: N = match Name::from_octets(wire.clone()) {
        Ok(n) if valid_abs(&wire) && Name::from_slice(&wire).is_ok() => n,
        _ => return json!({"valid": false}),
    };
    let rel: Rn = match RelativeName::from_octets(relwire.clone()) {
        Ok(n) if valid_rel(&relwire) => n,
        _ => return json!({"valid": false, "which": "rel"}),
    };
    let disp = name.to_string();
    let mut splits = vec![];
    let mut nonb = 0i64;
    for i in 0..=name.len() {
        if name.is_label_start(i) {
            splits.push(abs_boundary(&name, i));
        } else {
            let n2 = name.clone();
            let ok = refused(move || {
                let _ = n2.split(i);
            }) && {
                let n3 = name.clone();
                refused(move || {
                    let _ = n3.truncate(i);
                })
            };
            nonb += if ok { 1 } else { -1000 };
        }
    }
    let mut rsplits = vec![];
    let mut rnonb = 0i64;
    for i in 0..=rel.len() + 1 {
        if rel.is_label_start(i) {
            rsplits.push(rel_boundary(&rel, i));
        } else {
            let r2 = rel.clone();
            let ok = refused(move || {
                let _ = r2.split(i);
            });
            rnonb += if ok { 1 } else { -1000 };
        }
    }
    let parsed = {
        let mut buf = wire.clone();
        buf.push(0xAA);
        let mut parser = Parser::from_ref(buf.as_slice());
        match Name::parse(&mut parser) {
            Ok(n) if parser.pos() == wire.len() => json_bytes(n.as_slice()),
            Ok(_) => json!("wrong_position"),
            Err(_) => json!("err"),
        }
    };
    let unwrap_abs = |v: Value| -> Value {
        if v[0] == "abs" { v[1].clone() } else if v[0] == "err" { json!("err") } else { v }
    };
    let dotted = name.fmt_with_dot().to_string();
    json!({
        "valid": true,
        "disp": unwrap_abs(one(vec![
            ("Display", name_routes(&disp)),
            ("serde_json", name_routes(&serde_json::to_value(&name).ok().and_then(|v| v.as_str().map(String::from)).unwrap_or_else(|| "\\999".into()))),
            ("Display of ParsedName::from", name_routes(&ParsedName::from(name.clone()).to_string())),
            ("serde_json of ParsedName", name_routes(&serde_json::to_value(&ParsedName::from(name.clone())).ok().and_then(|v| v.as_str().map(String::from)).unwrap_or_else(|| "\\999".into()))),
        ])),
        "chars": octets_or_err(N::from_chars(disp.chars())),
        "dot": unwrap_abs(name_routes(&dotted)),
        "parse": parsed,
        "pres": name_routes(&text),
        "unc": unc_routes(&text),
        "uncrel": unc_routes(&reltext),
        "reld": one(vec![
            ("Display", rel_routes(&rel.to_string())),
            ("serde_json", rel_routes(&serde_json::to_value(&rel).ok().and_then(|v| v.as_str().map(String::from)).unwrap_or_else(|| "\\999".into()))),
            ("serde_json value", tag_rel(serde_json::to_value(&rel).map_err(|_| ()).and_then(|v| serde_json::from_value::<Rn>(v).map_err(|_| ())))),
        ]),
        "uncdisp": one(vec![
            ("Display", unc_routes(&U::from(name.clone()).to_string())),
            ("serde_json", tag_unc(serde_json::to_value(&U::from(name.clone())).map_err(|_| ()).and_then(|v| serde_json::from_value::<U>(v).map_err(|_| ())))),
        ]),
        "uncreldisp": one(vec![
            ("Display", unc_routes(&U::from(rel.clone()).to_string())),
            ("serde_json", tag_unc(serde_json::to_value(&U::from(rel.clone())).map_err(|_| ()).and_then(|v| serde_json::from_value::<U>(v).map_err(|_| ())))),
        ]),
        "canon": canon_views(&name),
        "relcanon": rel_canon_views(&rel),
        "labs": label_views(&name),
        "wild": name.iter().filter(|l| !l.is_root()).map(|l| {
            let w = l.is_wildcard();
            if w != (l.as_slice() == Label::wildcard().as_slice()) { json!("wildcard_tests_disagree") } else { json!(w) }
        }).collect::<Vec<_>>(),
        "ndots": rel.ndots(),
        "views": abs_views(&name),
        "rviews": rel_views(&rel),
        "zf": one(vec![
            ("owner", zone_read(&zone_text(&dotted, "owner"), "owner")),
            ("ns", zone_read(&zone_text(&dotted, "ns"), "ns")),
            ("mx", zone_read(&zone_text(&dotted, "mx"), "mx")),
        ]),
        "splits": splits,
        "nonb": nonb,
        "parent": match name.parent() {
            Some(p) => tag_name(Ok::<N, ()>(p.to_name())),
            None => json!(["none"]),
        },
        "rsplits": rsplits,
        "rnonb": rnonb,
        "rparent": match rel.parent() {
            Some(p) => tag_rel(Ok::<Rn, ()>(p.to_relative_name())),
            None => json!(["none"]),
        },
    })
}

// --- the views of one value ---------------------------------------------

fn walk<'a>(it: impl Iterator<Item = &'a Label>) -> Vec<u8> {
    let mut o = vec![];
    for l in it {
        o.push(l.len() as u8);
        o.extend_from_slice(l.as_slice());
    }
    o
}

/// every view of / conversion between representations of an absolute name
fn abs_views(name: &N) -> Value {
    let w = name.as_slice().to_vec();
    let by: Name<Bytes> = Name::octets_from(name.clone());
    let back: N = Name::octets_from(by.clone());
    let pn: ParsedName<Vec<u8>> = ParsedName::from(name.clone());
    let pn_flat: N = pn.clone().flatten_into();
    let mut v: Vec<(&str, Vec<u8>)> = vec![
        ("as_slice", w.clone()),
        ("AsRef<[u8]>", AsRef::<[u8]>::as_ref(name).to_vec()),
        ("AsRef<Octs>", AsRef::<Vec<u8>>::as_ref(name).clone()),
        ("AsRef<Name<[u8]>>", AsRef::<Name<[u8]>>::as_ref(name).as_slice().to_vec()),
        ("Borrow<Name<[u8]>>", std::borrow::Borrow::<Name<[u8]>>::borrow(name).as_slice().to_vec()),
        ("as_octets", name.as_octets().clone()),
        ("into_octets", name.clone().into_octets()),
        ("for_ref", name.for_ref().as_slice().to_vec()),
        ("for_slice", name.for_slice().as_slice().to_vec()),
        ("iter", walk(name.iter())),
        ("IntoIterator", walk(name.into_iter())),
        ("IntoIterator for_ref", walk((&name.for_ref()).into_iter())),
        ("iter_labels", walk(name.iter_labels())),
        ("OctetsFrom to Bytes", by.as_slice().to_vec()),
        ("OctetsFrom back", back.as_slice().to_vec()),
        ("to_bytes", name.to_bytes().as_slice().to_vec()),
        ("to_vec", name.to_vec().as_slice().to_vec()),
        ("to_cow", name.to_cow().as_slice().to_vec()),
        ("ParsedName::from iter", walk(pn.iter())),
        ("ParsedName::from IntoIterator", walk((&pn).into_iter())),
        ("ParsedName::from flatten_into", pn_flat.as_slice().to_vec()),
        ("ParsedName::from to_name", pn.to_name::<Vec<u8>>().as_slice().to_vec()),
        ("root-relative rebuild", name.clone().into_relative().into_absolute().map(|n| n.as_slice().to_vec()).unwrap_or_default()),
        ("uncertain into_absolute", U::from(name.clone()).into_absolute().map(|n| n.as_slice().to_vec()).unwrap_or_default()),
        ("uncertain as_slice", U::from(name.clone()).as_slice().to_vec()),
    ];
    if let Some(o) = compact::to_octets(name) {
        v.push(("compact serde octets", o.clone()));
        v.push(("compact serde Vec", compact::from_octets::<N>(&o).map(|n| n.as_slice().to_vec()).unwrap_or_default()));
        v.push(("compact serde Bytes", compact::from_octets::<Name<Bytes>>(&o).map(|n| n.as_slice().to_vec()).unwrap_or_default()));
        v.push(("compact serde uncertain", compact::from_octets::<U>(&o).ok().filter(|u| u.is_absolute()).map(|n| n.as_slice().to_vec()).unwrap_or_default()));
    } else {
        v.push(("compact serde", vec![]));
    }
    if usize::from(pn.compose_len()) != w.len() || pn != *name || !pn.name_eq(name) {
        v.push(("ParsedName::from len / eq", vec![]));
    }
    for (how, o) in &v {
        if *o != w {
            return json!(["view_differs", how, json_bytes(o)]);
        }
    }
    json_bytes(&w)
}

/// every view of / conversion between representations of a relative name
fn rel_views(rel: &Rn) -> Value {
    let w = rel.as_slice().to_vec();
    let by: RelativeName<Bytes> = RelativeName::octets_from(rel.clone());
    let back: Rn = RelativeName::octets_from(by.clone());
    let mut v: Vec<(&str, Vec<u8>)> = vec![
        ("as_slice", w.clone()),
        ("AsRef<[u8]>", AsRef::<[u8]>::as_ref(rel).to_vec()),
        ("AsRef<Octs>", AsRef::<Vec<u8>>::as_ref(rel).clone()),
        ("AsRef<RelativeName<[u8]>>", AsRef::<RelativeName<[u8]>>::as_ref(rel).as_slice().to_vec()),
        ("Borrow<RelativeName<[u8]>>", std::borrow::Borrow::<RelativeName<[u8]>>::borrow(rel).as_slice().to_vec()),
        ("as_octets", rel.as_octets().clone()),
        ("into_octets", rel.clone().into_octets()),
        ("for_ref", rel.for_ref().as_slice().to_vec()),
        ("for_slice", rel.for_slice().as_slice().to_vec()),
        ("iter", walk(rel.iter())),
        ("IntoIterator", walk(rel.into_iter())),
        ("iter_labels", walk(rel.iter_labels())),
        ("OctetsFrom to Bytes", by.as_slice().to_vec()),
        ("OctetsFrom back", back.as_slice().to_vec()),
        ("to_bytes", rel.to_bytes().as_slice().to_vec()),
        ("to_vec", ToRelativeName::to_vec(rel).as_slice().to_vec()),
        ("to_cow", rel.to_cow().as_slice().to_vec()),
        ("into_builder.finish", rel.clone().into_builder().finish().as_slice().to_vec()),
        ("from_builder.finish", NameBuilder::from_builder(w.clone()).map(|b| b.finish().as_slice().to_vec()).unwrap_or_default()),
        ("from_builder<BytesMut>.finish", NameBuilder::from_builder(BytesMut::from(&w[..])).map(|b| b.finish().as_slice().to_vec()).unwrap_or_default()),
        ("uncertain", U::from(rel.clone()).as_slice().to_vec()),
    ];
    if let Some(o) = compact::to_octets(rel) {
        v.push(("compact serde octets", o.clone()));
        v.push(("compact serde Vec", compact::from_octets::<Rn>(&o).map(|n| n.as_slice().to_vec()).unwrap_or_default()));
        v.push(("compact serde Bytes", compact::from_octets::<RelativeName<Bytes>>(&o).map(|n| n.as_slice().to_vec()).unwrap_or_default()));
        if !w.is_empty() {
            v.push(("compact serde uncertain", compact::from_octets::<U>(&o).ok().filter(|u| u.is_relative()).map(|n| n.as_slice().to_vec()).unwrap_or_default()));
        }
    } else {
        v.push(("compact serde", vec![0xEE]));
    }
    for (how, o) in &v {
        if *o != w {
            return json!(["view_differs", how, json_bytes(o)]);
        }
    }
    json_bytes(&w)
}

/// every way to the canonical form of an absolute name
fn canon_views(name: &N) -> Value {
    let mut a = name.clone();
    a.make_canonical();
    let mut b: Name<BytesMut> = Name::from_octets(BytesMut::from(name.as_slice())).expect("valid name");
    b.make_canonical();
    let mut c: Vec<u8> = vec![];
    let _ = name.compose_canonical(&mut c);
    let mut d = vec![];
    for l in name.iter() {
        let mut o = OwnedLabel::from_label(l);
        o.make_canonical();
        d.extend_from_slice(o.as_wire_slice());
    }
    let mut e = vec![];
    for l in name.iter() {
        e.extend_from_slice(l.to_canonical().as_wire_slice());
    }
    let mut f = name.as_slice().to_vec();
    {
        let mut rest: &mut [u8] = &mut f;
        while !rest.is_empty() {
            match Label::split_from_mut(std::mem::take(&mut rest)) {
                Ok((l, tail)) => {
                    l.make_canonical();
                    rest = tail;
                }
                Err(_) => return json!(["split_from_mut_refused_a_valid_name"]),
            }
        }
    }
    let mut g = vec![];
    for l in name.iter() {
        let _ = l.compose_canonical(&mut g);
    }
    one(vec![
        ("make_canonical", json_bytes(a.as_slice())),
        ("make_canonical<BytesMut>", json_bytes(b.as_slice())),
        ("compose_canonical", json_bytes(&c)),
        ("to_canonical_name", json_bytes(name.to_canonical_name::<Vec<u8>>().as_slice())),
        ("OwnedLabel::make_canonical", json_bytes(&d)),
        ("Label::to_canonical", json_bytes(&e)),
        ("Label::make_canonical", json_bytes(&f)),
        ("Label::compose_canonical", json_bytes(&g)),
    ])
}

fn rel_canon_views(rel: &Rn) -> Value {
    let mut a = rel.clone();
    a.make_canonical();
    let mut c: Vec<u8> = vec![];
    let _ = rel.compose_canonical(&mut c);
    one(vec![
        ("make_canonical", json_bytes(a.as_slice())),
        ("compose_canonical", json_bytes(&c)),
        ("to_canonical_relative_name", json_bytes(rel.to_canonical_relative_name::<Vec<u8>>().as_slice())),
    ])
}

/// every label of the name on its own: its text read back as a label, the
/// label rebuilt from its octets, owned copies
fn label_views(name: &N) -> Value {
    let mut out = vec![];
    for l in name.iter().filter(|l| !l.is_root()) {
        let text = l.to_string();
        let owned = OwnedLabel::from_label(l);
        let mut buf = l.as_slice().to_vec();
        let mut wire = vec![l.len() as u8];
        wire.extend_from_slice(l.as_slice());
        wire.push(0xAA);
        let mut wire2 = wire.clone();
        let mut ol = owned;
        let lab = |o: &[u8]| json!(["lab", json_bytes(o)]);
        let v = one(vec![
            ("Display text", label_routes(&text)),
            ("OwnedLabel Display text", label_routes(&owned.to_string())),
            ("serde_json", tag_label(serde_json::to_value(&owned).map_err(|_| ()).and_then(|v| serde_json::from_value::<OwnedLabel>(v).map_err(|_| ())))),
            ("compact serde", tag_label(compact::to_octets(&owned).ok_or(()).and_then(|o| compact::from_octets::<OwnedLabel>(&o).map_err(|_| ())))),
            ("from_slice", Label::from_slice(l.as_slice()).map(|x| lab(x.as_slice())).unwrap_or(json!(["err"]))),
            ("from_slice_mut", Label::from_slice_mut(&mut buf).map(|x| lab(x.as_slice_mut())).unwrap_or(json!(["err"]))),
            ("split_from", Label::split_from(&wire).ok().filter(|(_, t)| *t == [0xAA]).map(|(x, _)| lab(x.as_slice())).unwrap_or(json!(["err"]))),
            ("split_from_mut", Label::split_from_mut(&mut wire2).ok().filter(|(_, t)| *t == [0xAA]).map(|(x, _)| lab(AsMut::<[u8]>::as_mut(x))).unwrap_or(json!(["err"]))),
            ("to_owned", lab(ToOwned::to_owned(l).as_slice())),
            ("OwnedLabel::from", lab(OwnedLabel::from(l).as_slice())),
            ("as_label_mut", lab(ol.as_label_mut().as_slice())),
            ("OwnedLabel views", {
                let mut o2 = owned;
                let a = AsRef::<[u8]>::as_ref(&owned).to_vec();
                let b = AsRef::<Label>::as_ref(&owned).as_slice().to_vec();
                let c = AsMut::<[u8]>::as_mut(&mut o2).to_vec();
                let d = AsMut::<Label>::as_mut(&mut o2).as_slice().to_vec();
                let e = std::borrow::BorrowMut::<Label>::borrow_mut(&mut o2).as_slice().to_vec();
                let f = std::ops::DerefMut::deref_mut(&mut o2).as_slice().to_vec();
                if [&b, &c, &d, &e, &f].iter().all(|x| **x == a) { lab(&a) } else { json!(["owned_label_views_differ"]) }
            }),
        ]);
        out.push(if v[0] == "lab" { v[1].clone() } else { v });
    }
    Value::Array(out)
}

fn text_case(input: &Value) -> Value {
    let t = string_of(&input["text"]);
    let mut scanner = IterScanner::<_, Vec<u8>>::new([t.as_str()]);
    let mut scanner2 = IterScanner::<_, Vec<u8>>::new([t.as_str()]);
    let mut scanner3 = IterScanner::<_, Bytes>::new(vec![t.clone()]);
    json!({
        "name": name_routes(&t),
        "iscan": one(vec![
            ("Name::scan", tag_name(N::scan(&mut scanner))),
            ("UncertainName::scan", tag_unc(U::scan(&mut scanner2))),
            ("Name<Bytes>::scan", tag_name(Name::<Bytes>::scan(&mut scanner3))),
        ]),
        "unc": unc_routes(&t),
        "rel": one(vec![
            ("text", rel_routes(&t)),
            // (deserializing a relative name is lenient about a final dot)
            ("serde_json", if t.ends_with('.') { rel_routes(&t) } else { tag_rel(serde_json::from_value::<Rn>(Value::String(t.clone()))) }),
        ]),
        "lab": if input["labfree"].as_bool().unwrap_or(false) { json!(["free"]) } else { label_routes(&t) },
        "zf": if input["zfsafe"].as_bool().unwrap_or(false) {
            one(vec![
                ("ns", zone_read(&zone_text(&t, "ns"), "ns")),
                ("mx", zone_read(&zone_text(&t, "mx"), "mx")),
            ])
        } else {
            json!(["skip"])
        },
    })
}

fn wire_case(input: &Value) -> Value {
    let o = bytes_of(&input["octets"]);
    let a = one(vec![
        ("from_octets", tag_name(N::from_octets(o.clone()))),
        ("from_octets<Bytes>", tag_name(Name::from_octets(Bytes::from(o.clone())))),
        ("from_octets<&[u8]>", tag_name(Name::from_octets(o.as_slice()))),
        ("compact serde", tag_name(compact::from_octets::<N>(&o))),
        ("compact serde<Bytes>", tag_name(compact::from_octets::<Name<Bytes>>(&o))),
    ]);
    let a2 = tag_name(Name::from_slice(&o).map(|n| -> N { n.to_name() }));
    let r = one(vec![
        ("from_octets", tag_rel(Rn::from_octets(o.clone()))),
        ("from_octets<Bytes>", tag_rel(RelativeName::from_octets(Bytes::from(o.clone())))),
        ("compact serde", tag_rel(compact::from_octets::<Rn>(&o))),
        ("compact serde<Bytes>", tag_rel(compact::from_octets::<RelativeName<Bytes>>(&o))),
        ("from_builder", tag_rel(NameBuilder::from_builder(o.clone()).map(|b| b.finish()))),
    ]);
    let r2 = tag_rel(RelativeName::from_slice(&o).map(|n| -> Rn { n.to_relative_name() }));
    let lab = |r: Option<(Vec<u8>, Vec<u8>)>| match r {
        Some((l, t)) if l.len() <= 63 => json!(["lab", json_bytes(&l), json_bytes(&t)]),
        Some((l, _)) => json!(["invalid_label", json_bytes(&l)]),
        None => json!(["err"]),
    };
    let mut o2 = o.clone();
    let label = one(vec![
        ("split_from", lab(Label::split_from(&o).ok().map(|(l, t)| (l.as_slice().to_vec(), t.to_vec())))),
        ("split_from_mut", lab(Label::split_from_mut(&mut o2).ok().map(|(l, t)| (l.as_slice().to_vec(), t.to_vec())))),
    ]);
    let mut parser = Parser::from_ref(o.as_slice());
    let p = match Name::parse(&mut parser) {
        Ok(n) if parser.pos() == n.len() => tag_name(Ok::<N, ()>(n.to_name())),
        Ok(_) => json!(["wrong_position"]),
        Err(_) => json!(["err"]),
    };
    json!({
        "abs": if a == a2 { a } else { json!(["octets_and_slice_disagree"]) },
        "parse": p,
        "rel": if r == r2 { r } else { json!(["octets_and_slice_disagree"]) },
        "unc": if o.is_empty() { json!(["skip"]) } else {
            one(vec![
                ("from_octets", tag_unc(U::from_octets(o.clone()))),
                ("from_octets<Bytes>", tag_unc(UncertainName::from_octets(Bytes::from(o.clone())))),
                ("compact serde", tag_unc(compact::from_octets::<U>(&o))),
            ])
        },
        "label": label,
    })
}

fn r3_abs(o: Option<&[u8]>) -> Value {
    match o {
        Some(o) => json!(["abs", o.len(), valid_abs(o) as u8]),
        None => json!(["err", 0, 1]),
    }
}
fn r3_rel(o: Option<&[u8]>) -> Value {
    match o {
        Some(o) => json!(["rel", o.len(), valid_rel(o) as u8]),
        None => json!(["err", 0, 1]),
    }
}
fn r3_unc(r: Result<U, impl Sized>) -> Value {
    match r {
        Ok(UncertainName::Absolute(n)) => r3_abs(Some(n.as_slice())),
        Ok(UncertainName::Relative(n)) => r3_rel(Some(n.as_slice())),
        Err(_) => json!(["err", 0, 1]),
    }
}

fn lens_of(v: &Value) -> Vec<usize> {
    v.as_array().map(|a| a.iter().map(|x| x.as_u64().unwrap_or(0) as usize).collect()).unwrap_or_default()
}
fn wire_of(lens: &[usize]) -> Vec<u8> {
    let mut o = vec![];
    for l in lens {
        o.push(*l as u8);
        o.extend(std::iter::repeat(b'a').take(*l));
    }
    o
}

fn shape_text(input: &Value) -> Value {
    let lens = lens_of(&input["lens"]);
    let t = lens.iter().map(|l| "a".repeat(*l)).collect::<Vec<_>>().join(".");
    let td = format!("{}.", t);
    let nm = |s: &str| r3_abs(N::from_str(s).ok().as_ref().map(|n| n.as_slice()));
    let rl = |s: &str| r3_rel(Rn::from_str(s).ok().as_ref().map(|n| n.as_slice()));
    let te = format!("{}.", lens.iter().map(|l| "\\097".repeat(*l)).collect::<Vec<_>>().join("."));
    json!({"nd": nm(&td), "n": nm(&t), "ne": nm(&te), "ud": r3_unc(U::from_str(&td)), "u": r3_unc(U::from_str(&t)),
           "rd": rl(&td), "r": rl(&t)})
}

fn shape_wire(input: &Value) -> Value {
    let lens = lens_of(&input["lens"]);
    let rw = wire_of(&lens);
    let mut aw = rw.clone();
    aw.push(0);
    let np = {
        let mut buf = aw.clone();
        buf.push(0xAA);
        let mut parser = Parser::from_ref(buf.as_slice());
        match Name::parse(&mut parser) {
            Ok(n) => r3_abs(Some(n.as_slice())),
            Err(_) => json!(["err", 0, 1]),
        }
    };
    json!({
        "no": r3_abs(N::from_octets(aw.clone()).ok().as_ref().map(|n| n.as_slice())),
        "ns": r3_abs(Name::from_slice(&aw).ok().map(|n| n.as_slice())),
        "np": np,
        "ro": r3_rel(Rn::from_octets(rw.clone()).ok().as_ref().map(|n| n.as_slice())),
        "rs": r3_rel(RelativeName::from_slice(&rw).ok().map(|n| n.as_slice())),
        "ua": r3_unc(U::from_octets(aw.clone())),
        "ur": r3_unc(U::from_octets(rw.clone())),
        "fb": r3_rel(NameBuilder::from_builder(rw.clone()).ok().as_ref().map(|b| b.as_slice())),
        "cn": match N::from_octets(aw.clone()) {
            Ok(mut n) => {
                n.make_canonical();
                let mut c: Vec<u8> = vec![];
                let _ = n.compose_canonical(&mut c);
                if c != n.as_slice() { json!(["canonical_forms_differ", 0, 0]) } else { r3_abs(Some(n.as_slice())) }
            }
            Err(_) => json!(["err", 0, 1]),
        },
        "rcn": match Rn::from_octets(rw.clone()) {
            Ok(mut n) => {
                n.make_canonical();
                r3_rel(Some(n.as_slice()))
            }
            Err(_) => json!(["err", 0, 1]),
        },
        "ria": match Rn::from_octets(rw.clone()) {
            Ok(r) => one(vec![
                ("into_absolute", r3_abs(r.clone().into_absolute().ok().as_ref().map(|n| n.as_slice()))),
                ("into_absolute<Bytes>", r3_abs(RelativeName::from_octets(Bytes::from(rw.clone())).ok().and_then(|r| r.into_absolute().ok()).as_ref().map(|n| n.as_slice()))),
                ("into_builder.into_name", r3_abs(r.clone().into_builder().into_name().ok().as_ref().map(|n| n.as_slice()))),
            ]),
            Err(_) => json!(["err", 0, 1]),
        },
        "cr": match Rn::from_octets(rw.clone()) {
            Ok(r) => {
                let ch = r.clone().chain_root();
                let flat: N = ch.to_name();
                let flat2: N = ToRelativeName::chain_root(r.clone()).to_name();
                if usize::from(ch.compose_len()) != flat.len() || flat2.as_slice() != flat.as_slice() {
                    json!(["compose_len_differs", 0, 0])
                } else {
                    r3_abs(Some(flat.as_slice()))
                }
            }
            Err(_) => json!(["err", 0, 1]),
        },
        "uia": match U::from_octets(rw.clone()) {
            Ok(u) if u.is_relative() => r3_abs(u.into_absolute().ok().as_ref().map(|n| n.as_slice())),
            Ok(_) => json!(["absolute", 0, 0]),
            Err(_) => json!(["err", 0, 1]),
        },
        "lb": lens.iter().map(|l| {
            let plain = "a".repeat(*l);
            let esc = "\\097".repeat(*l);
            let mut buf = vec![b'a'; *l];
            let len = |r: Option<usize>| r.map(|x| json!(x)).unwrap_or(json!(-1));
            one(vec![
                ("from_slice", len(Label::from_slice(&vec![b'a'; *l]).ok().map(|x| x.len()))),
                ("from_slice_mut", len(Label::from_slice_mut(&mut buf).ok().map(|x| x.len()))),
                ("OwnedLabel::from_str", len(OwnedLabel::from_str(&plain).ok().map(|x| x.len()))),
                ("OwnedLabel::from_str escaped", len(OwnedLabel::from_str(&esc).ok().map(|x| x.len()))),
                ("OwnedLabel::from_chars", len(OwnedLabel::from_chars(plain.chars()).ok().map(|x| x.len()))),
                ("OwnedLabel serde_json", len(serde_json::from_value::<OwnedLabel>(Value::String(plain.clone())).ok().map(|x| x.len()))),
                ("OwnedLabel compact serde", len(compact::from_octets::<OwnedLabel>(&vec![b'a'; *l]).ok().map(|x| x.len()))),
            ])
        }).collect::<Vec<_>>(),
    })
}

fn shape_chain(input: &Value) -> Value {
    let lens = lens_of(&input["lens"]);
    let jmin = input["jmin"].as_u64().unwrap_or(0) as usize;
    let jmax = input["jmax"].as_u64().unwrap_or(0) as usize;
    let mut ra = vec![];
    let mut rr = vec![];
    let (mut ua, mut uaa, mut r3a, mut r3r) = (vec![], vec![], vec![], vec![]);
    let abs_of_chain = |r: Result<N, ()>, len: Option<usize>| match r {
        Ok(flat) if len.map(|l| l != flat.len()).unwrap_or(false) => json!(["compose_len_differs", 0, 0]),
        Ok(flat) => r3_abs(Some(flat.as_slice())),
        Err(_) => json!(["err", 0, 1]),
    };
    for j in jmin..=jmax {
        let left: Rn = RelativeName::from_octets(wire_of(&lens[..j])).expect("left half");
        let right: Rn = RelativeName::from_octets(wire_of(&lens[j..])).expect("right half");
        let right_abs: N = right.clone().into_absolute().expect("right half, absolute");
        // the left half as an uncertain name: relative, and made absolute
        ua.push(match U::from(left.clone()).chain(right_abs.clone()) {
            Ok(ch) => abs_of_chain(Ok(ch.to_name()), Some(usize::from(ch.compose_len()))),
            Err(_) => json!(["err", 0, 1]),
        });
        let left_abs: N = left.clone().into_absolute().expect("left half, absolute");
        uaa.push(match U::from(left_abs).chain(right_abs.clone()) {
            Ok(ch) => abs_of_chain(Ok(ch.to_name()), Some(usize::from(ch.compose_len()))),
            Err(_) => json!(["err", 0, 1]),
        });
        // the left half itself a chain of its first label and the rest
        let cut = left.first().map(|l| l.len() + 1).unwrap_or(0);
        let (l1, l2) = left.split(cut);
        r3a.push(match l1.clone().chain(l2.clone()).and_then(|c| c.chain(right_abs.clone())) {
            Ok(ch) => abs_of_chain(Ok(ch.to_name()), Some(usize::from(ch.compose_len()))),
            Err(_) => json!(["err", 0, 1]),
        });
        r3r.push(match l1.chain(l2).and_then(|c| c.chain(right.clone())) {
            Ok(ch) => {
                let flat: Rn = ch.to_relative_name();
                if usize::from(ch.compose_len()) != flat.len() {
                    json!(["compose_len_differs", 0, 0])
                } else {
                    r3_rel(Some(flat.as_slice()))
                }
            }
            Err(_) => json!(["err", 0, 1]),
        });
        ra.push(match left.clone().chain(right_abs) {
            Ok(ch) => {
                let flat: N = ch.to_name();
                if usize::from(ch.compose_len()) != flat.len() {
                    json!(["compose_len_differs", 0, 0])
                } else {
                    r3_abs(Some(flat.as_slice()))
                }
            }
            Err(_) => json!(["err", 0, 1]),
        });
        rr.push(match left.chain(right) {
            Ok(ch) => {
                let flat: Rn = ch.to_relative_name();
                if usize::from(ch.compose_len()) != flat.len() {
                    json!(["compose_len_differs", 0, 0])
                } else {
                    r3_rel(Some(flat.as_slice()))
                }
            }
            Err(_) => json!(["err", 0, 1]),
        });
    }
    json!({"ra": ra, "rr": rr, "ua": ua, "uaa": uaa, "r3a": r3a, "r3r": r3r})
}

fn zone_case(input: &Value) -> Value {
    let owner = string_of(&input["owner"]);
    zone_read(&zone_text(&owner, "owner"), "owner")
}

/// a name around the limits, written plainly or with escapes, read by the
/// zone-file scanner as owner or inside NS / MX record data
fn zscan_case(input: &Value) -> Value {
    let name = string_of(&input["text"]);
    let place = input["place"].as_str().unwrap_or("");
    zone_read(&zone_text(&name, place), place)
}

// --- symbols, ready-made names, names made from numbers ---------------------

fn sym_case(input: &Value) -> Value {
    let v = input["v"].as_u64().unwrap_or(0) as u32;
    let sym = match input["kind"].as_str().unwrap_or("") {
        "char" => match char::from_u32(v) {
            Some(c) => Symbol::Char(c),
            None => return json!({"bad_case": true}),
        },
        "simple" => Symbol::SimpleEscape(v as u8),
        _ => Symbol::DecimalEscape(v as u8),
    };
    let push = |pre: &str| -> Value {
        let on = |mut b: NameBuilder<Vec<u8>>, how: u8| -> Value {
            if b.append_chars(pre.chars()).is_err() {
                return json!(["prefix_refused"]);
            }
            let before = b.as_slice().to_vec();
            let r = match how {
                0 => b.push_symbol(sym).is_ok(),
                _ => b.append_symbols([sym]).is_ok(),
            };
            if !r {
                // an error leaves the builder as it was
                return if b.as_slice() == before { json!(["err"]) } else { json!(["err_but_changed"]) };
            }
            let open = b.in_label();
            let rel = b.finish();
            if !valid_rel(rel.as_slice()) {
                return json!(["invalid_rel", json_bytes(rel.as_slice())]);
            }
            json!(["rel", json_bytes(rel.as_slice()), open as u8])
        };
        one(vec![
            ("push_symbol", on(NameBuilder::new_vec(), 0)),
            ("append_symbols", on(NameBuilder::new_vec(), 1)),
        ])
    };
    json!({
        "octet": match sym.into_octet() {
            Ok(o) => json!(o),
            Err(_) => json!(-1),
        },
        "fresh": push(""),
        "open": push("a"),
    })
}

fn const_case(_input: &Value) -> Value {
    let bad = |v: Vec<Value>| -> bool { v.iter().any(|x| *x != v[0]) };
    let roots = vec![
        tag_name(Ok::<_, ()>(Name::root_ref())),
        tag_name(Ok::<_, ()>(Name::root_vec())),
        tag_name(Ok::<_, ()>(Name::root_bytes())),
        tag_name(Ok::<_, ()>(Name::<Vec<u8>>::root())),
        tag_name(Ok::<N, ()>(Name::root_slice().to_name())),
        tag_unc(Ok::<_, ()>(UncertainName::root_ref())),
        tag_unc(Ok::<_, ()>(UncertainName::root_vec())),
        tag_unc(Ok::<_, ()>(UncertainName::root_bytes())),
        tag_unc(Ok::<_, ()>(UncertainName::<Vec<u8>>::root())),
    ];
    let empties = vec![
        tag_rel(Ok::<_, ()>(RelativeName::empty_ref())),
        tag_rel(Ok::<_, ()>(RelativeName::empty_vec())),
        tag_rel(Ok::<_, ()>(RelativeName::empty_bytes())),
        tag_rel(Ok::<_, ()>(RelativeName::<Vec<u8>>::empty())),
        tag_rel(Ok::<Rn, ()>(RelativeName::empty_slice().to_relative_name())),
        tag_unc(Ok::<_, ()>(UncertainName::empty_ref())),
        tag_unc(Ok::<_, ()>(UncertainName::empty_vec())),
        tag_unc(Ok::<_, ()>(UncertainName::empty_bytes())),
        tag_unc(Ok::<_, ()>(UncertainName::<Vec<u8>>::empty())),
        tag_rel(Ok::<_, ()>(NameBuilder::new_vec().finish())),
        tag_rel(Ok::<_, ()>(NameBuilder::new_bytes().finish())),
    ];
    let wilds = vec![
        tag_rel(Ok::<_, ()>(RelativeName::wildcard_ref())),
        tag_rel(Ok::<_, ()>(RelativeName::wildcard_vec())),
        tag_rel(Ok::<_, ()>(RelativeName::wildcard_bytes())),
        tag_rel(Ok::<_, ()>(RelativeName::<Vec<u8>>::wildcard())),
        tag_rel(Ok::<Rn, ()>(RelativeName::wildcard_slice().to_relative_name())),
    ];
    let pick = |v: Vec<Value>| if bad(v.clone()) { json!(["constructors_disagree", v]) } else { v[0].clone() };
    json!({
        "root": pick(roots),
        "empty": pick(empties),
        "wild": pick(wilds),
        "rootlabel": json_bytes(Label::root().as_slice()),
        "wildlabel": json_bytes(Label::wildcard().as_slice()),
    })
}

fn lower(o: &[u8]) -> Vec<u8> {
    o.iter().map(|b| b.to_ascii_lowercase()).collect()
}

fn rev_case(input: &Value) -> Value {
    let a = bytes_of(&input["a"]);
    let abs = |addr: IpAddr| -> Value {
        let v = |r: Result<N, ()>| match r {
            Ok(n) if valid_abs(n.as_slice()) && N::from_str(&n.to_string()).map(|m| m == n).unwrap_or(false) => {
                json!(["abs", json_bytes(&lower(n.as_slice()))])
            }
            Ok(n) => json!(["invalid_or_text_differs", json_bytes(n.as_slice())]),
            Err(_) => json!(["err"]),
        };
        one(vec![
            ("reverse_from_addr", v(N::reverse_from_addr(addr).map_err(|_| ()))),
            ("reverse_from_addr<Bytes>", v(Name::<Bytes>::reverse_from_addr(addr).map(|n| n.to_name()).map_err(|_| ()))),
        ])
    };
    match input["kind"].as_str().unwrap_or("") {
        "v4" => abs(IpAddr::V4(Ipv4Addr::new(a[0], a[1], a[2], a[3]))),
        "v6" => {
            let mut x = [0u8; 16];
            x.copy_from_slice(&a[..16]);
            abs(IpAddr::V6(Ipv6Addr::from(x)))
        }
        kind => {
            let on = |bytes: bool| -> Value {
                macro_rules! go {
                    ($b:expr) => {{
                        let mut b = $b;
                        let r = if kind == "dec" { b.append_dec_u8_label(a[0]) } else { b.append_hex_digit_label(a[0]) };
                        match r {
                            Ok(()) if !b.in_label() => {
                                let rel = b.finish();
                                if valid_rel(rel.as_slice()) {
                                    json!(["rel", json_bytes(&lower(rel.as_slice()))])
                                } else {
                                    json!(["invalid_rel", json_bytes(rel.as_slice())])
                                }
                            }
                            Ok(()) => json!(["label_left_open"]),
                            Err(_) => json!(["err"]),
                        }
                    }};
                }
                if bytes { go!(NameBuilder::new_bytes()) } else { go!(NameBuilder::new_vec()) }
            };
            one(vec![("vec", on(false)), ("bytes", on(true))])
        }
    }
}

/// a name read from a compressed rendering and converted to the other
/// representations
fn parsed_case(input: &Value) -> Value {
    let msg = bytes_of(&input["msg"]);
    let pos = input["pos"].as_u64().unwrap_or(0) as usize;
    let mut parser = Parser::from_ref(msg.as_slice());
    if parser.advance(pos).is_err() {
        return json!({"bad_case": true});
    }
    let pn = match ParsedName::parse(&mut parser) {
        Ok(pn) => pn,
        Err(_) => return json!({"ok": false}),
    };
    let mut labels = vec![];
    for l in pn.iter() {
        labels.push(l.len() as u8);
        labels.extend_from_slice(l.as_slice());
    }
    // one value for all conversions: the octets, or which conversion is off
    let all = battery(&pn);
    let conv = |what: &str| -> Value {
        match all.get(0).and_then(|x| x.as_str()) {
            Some(w) if w == what => all.clone(),
            _ => if all.get(0).map(|x| x.is_string()).unwrap_or(false) { json_bytes(&labels) } else { all.clone() },
        }
    };
    let failed = all.get(0).and_then(|x| x.as_str()).map(|s| s.to_string());
    let is = |names: &[&str]| failed.as_ref().map(|f| names.contains(&f.as_str())).unwrap_or(false);
    let afs = if is(&["as_flat_slice"]) { "flat_slice_is_not_the_name" } else { "ok" };
    let (eq, cmp, disp) = (!is(&["eq"]), !is(&["cmp"]), !is(&["text_round_trip"]));
    let chk = |o: &[u8]| if valid_abs(o) { json_bytes(o) } else { json!(["invalid", json_bytes(o)]) };
    let composed_v = if is(&["compose", "compose_canonical"]) { conv(failed.as_deref().unwrap()) } else { chk(&labels) };
    let flat_v = if is(&["flatten_into", "to_cow"]) { conv(failed.as_deref().unwrap()) } else { chk(&labels) };
    let toname_v = if is(&["to_name", "invalid_labels", "compose_len"]) { all.clone() } else { chk(&labels) };
    let (psuffixes, psf, ppar) = parsed_walks(&pn);
    json!({
        "ok": true,
        "psuffixes": psuffixes,
        "psf": psf,
        "ppar": ppar,
        "labels": chk(&labels),
        "compose": composed_v,
        "flat": flat_v,
        "toname": toname_v,
        "afs": afs,
        "eq": eq,
        "cmp": cmp,
        "disp": disp,
        "len": pn.compose_len(),
        "end": parser.pos(),
    })
}

// --- every slicing entry point with every form of range bounds ------------

#[derive(PartialEq, Clone)]
enum Cut {
    Refused,
    Val(Vec<u8>),
    Disagree,
}

fn catch<T, F: FnOnce() -> T>(f: F) -> Option<T> {
    std::panic::catch_unwind(std::panic::AssertUnwindSafe(f)).ok()
}

fn merge(rs: Vec<Option<Vec<u8>>>) -> Cut {
    let first = rs[0].clone();
    if rs.iter().any(|r| *r != first) {
        return Cut::Disagree;
    }
    match first {
        None => Cut::Refused,
        Some(v) => Cut::Val(v),
    }
}

fn abs_forms<R: RangeBounds<usize> + Clone>(n: &N, r: R) -> Vec<Option<Vec<u8>>> {
    vec![
        catch(|| n.slice(r.clone()).as_slice().to_vec()),
        catch(|| n.range(r.clone()).as_slice().to_vec()),
        catch(|| n.for_slice().slice(r.clone()).as_slice().to_vec()),
    ]
}

fn rel_forms<R: RangeBounds<usize> + Clone>(n: &Rn, r: R) -> Vec<Option<Vec<u8>>> {
    vec![
        catch(|| n.slice(r.clone()).as_slice().to_vec()),
        catch(|| n.range(r.clone()).as_slice().to_vec()),
        catch(|| n.for_slice().slice(r.clone()).as_slice().to_vec()),
    ]
}

fn bound_of(b: (char, usize)) -> Bound<usize> {
    match b.0 {
        'I' => Bound::Included(b.1),
        'E' => Bound::Excluded(b.1),
        _ => Bound::Unbounded,
    }
}

macro_rules! all_spellings {
    ($forms:ident, $n:expr, $lo:expr, $hi:expr) => {{
        let (lo, hi) = ($lo, $hi);
        let mut rs = $forms($n, (bound_of(lo), bound_of(hi)));
        match (lo.0, hi.0) {
            ('I', 'E') => rs.extend($forms($n, lo.1..hi.1)),
            ('I', 'U') => rs.extend($forms($n, lo.1..)),
            ('U', 'E') => rs.extend($forms($n, ..hi.1)),
            ('U', 'U') => rs.extend($forms($n, ..)),
            ('I', 'I') => rs.extend($forms($n, lo.1..=hi.1)),
            ('U', 'I') => rs.extend($forms($n, ..=hi.1)),
            _ => {}
        }
        merge(rs)
    }};
}

fn code(b: (char, usize)) -> (String, i64) {
    (b.0.to_string(), if b.0 == 'U' { -1 } else { b.1 as i64 })
}

/// Every conversion of a ParsedName to another representation must give
/// the uncompressed wire form of its labels: the octets if they all do (and
/// these are a valid name), otherwise the name of the first that does not.
fn battery(pn: &ParsedName<&[u8]>) -> Value {
    let mut labels = vec![];
    for l in pn.iter() {
        labels.push(l.len() as u8);
        labels.extend_from_slice(l.as_slice());
    }
    if !valid_abs(&labels) {
        return json!(["invalid_labels", json_bytes(&labels)]);
    }
    let flatname: N = Name::from_octets(labels.clone()).unwrap();
    let bad = |what: &str, o: &[u8]| json!([what, json_bytes(o)]);
    let mut composed: Vec<u8> = vec![];
    if pn.compose(&mut composed).is_err() || composed != labels {
        return bad("compose", &composed);
    }
    let mut canon: Vec<u8> = vec![];
    if pn.compose_canonical(&mut canon).is_err() || canon.len() != labels.len() || !canon.eq_ignore_ascii_case(&labels) {
        return bad("compose_canonical", &canon);
    }
    let flat: N = pn.clone().flatten_into();
    if flat.as_slice() != labels {
        return bad("flatten_into", flat.as_slice());
    }
    let tn: N = pn.to_name();
    if tn.as_slice() != labels {
        return bad("to_name", tn.as_slice());
    }
    let cow = pn.to_cow();
    if cow.as_slice() != labels {
        return bad("to_cow", cow.as_slice());
    }
    if let Some(sl) = pn.as_flat_slice() {
        if sl != labels.as_slice() {
            return bad("as_flat_slice", sl);
        }
    }
    if usize::from(pn.compose_len()) != labels.len() {
        return bad("compose_len", &[]);
    }
    if !(*pn == flatname && flatname == *pn && pn.name_eq(&flatname) && flatname.name_eq(pn)) {
        return bad("eq", &[]);
    }
    if pn.name_cmp(&flatname) != std::cmp::Ordering::Equal
        || flatname.name_cmp(pn) != std::cmp::Ordering::Equal
        || pn.composed_cmp(&flatname) != std::cmp::Ordering::Equal
        || pn.lowercase_composed_cmp(&flatname) != std::cmp::Ordering::Equal
    {
        return bad("cmp", &[]);
    }
    if !N::from_str(&pn.fmt_with_dot().to_string()).map(|b| b.as_slice() == labels).unwrap_or(false) {
        return bad("text_round_trip", &[]);
    }
    json_bytes(&labels)
}

/// ParsedName: iter_suffixes, repeated split_first, repeated parent; every
/// intermediate name goes through the whole battery
fn parsed_walks(pn: &ParsedName<&[u8]>) -> (Vec<Value>, Vec<Value>, Vec<Value>) {
    let psuffixes: Vec<Value> = pn.iter_suffixes().map(|s| battery(&s)).collect();
    let mut psf = vec![];
    let mut cur = pn.clone();
    loop {
        let first = match cur.split_first() {
            Some(l) => l.as_slice().to_vec(),
            None => break,
        };
        psf.push(json!([json_bytes(&first), battery(&cur)]));
        if psf.len() > 200 {
            break;
        }
    }
    let mut ppar = vec![];
    let mut cur = pn.clone();
    while cur.parent() {
        ppar.push(battery(&cur));
        if ppar.len() > 200 {
            break;
        }
    }
    (psuffixes, psf, ppar)
}

// --- starts_with / ends_with / strip_suffix on adversarial label contents --

fn agree<T: PartialEq + Clone>(v: Vec<T>) -> Option<T> {
    let f = v[0].clone();
    if v.iter().all(|x| *x == f) { Some(f) } else { None }
}

/// message with `rel` followed by a pointer to a root label at offset 0
fn compressed_msg(rel: &[u8]) -> Vec<u8> {
    let mut m = vec![0u8];
    m.extend_from_slice(rel);
    m.extend_from_slice(&[0xC0, 0]);
    m
}

fn affix_case(input: &Value) -> Value {
    let xw = bytes_of(&input["x"]);
    let yw = bytes_of(&input["y"]);
    let xr: Rn = RelativeName::from_octets(xw.clone()).expect("x");
    let yr: Rn = RelativeName::from_octets(yw.clone()).expect("y");
    let xa: N = xr.clone().into_absolute().expect("x abs");
    let ya: N = yr.clone().into_absolute().expect("y abs");
    // the same names in representations without a flat slice
    let xmsg = compressed_msg(&xw);
    let ymsg = compressed_msg(&yw);
    let parse_at1 = |m: &'static [u8]| -> ParsedName<&'static [u8]> {
        let mut p = Parser::from_ref(m);
        p.advance(1).unwrap();
        ParsedName::parse(&mut p).unwrap()
    };
    // leak: the cases are few and the process short-lived
    let xp = parse_at1(Box::leak(xmsg.into_boxed_slice()));
    let yp = parse_at1(Box::leak(ymsg.into_boxed_slice()));
    let x_chain_a = xr.clone().chain(Name::root_ref()).expect("chain");
    let y_chain_a = yr.clone().chain(Name::root_ref()).expect("chain");
    let y_chain_r = RelativeName::empty_ref().chain(yr.clone()).expect("chain");
    let x_chain_r = RelativeName::empty_ref().chain(xr.clone()).expect("chain");

    let rends = agree(vec![
        xr.ends_with(&yr), xr.ends_with(&y_chain_r), xr.for_slice().ends_with(&yr),
        x_chain_r.ends_with(&yr), x_chain_r.ends_with(&y_chain_r),
    ]);
    let rstarts = agree(vec![
        xr.starts_with(&yr), xr.starts_with(&y_chain_r), x_chain_r.starts_with(&yr),
    ]);
    let aends = agree(vec![
        xa.ends_with(&ya), xa.ends_with(&yp), xa.ends_with(&y_chain_a),
        xp.ends_with(&ya), xp.ends_with(&yp), x_chain_a.ends_with(&ya), x_chain_a.ends_with(&yp),
        xa.for_slice().ends_with(&ya),
    ]);
    let astarts = agree(vec![
        xa.starts_with(&yr), xa.starts_with(&y_chain_r), xp.starts_with(&yr), x_chain_a.starts_with(&yr),
    ]);
    let rs = |base: &dyn Fn(&mut Rn) -> bool| -> Value {
        let mut t = xr.clone();
        let ok = base(&mut t);
        if !valid_rel(t.as_slice()) {
            return json!(["invalid_relative_name", json_bytes(t.as_slice())]);
        }
        json!([if ok { "ok" } else { "err" }, json_bytes(t.as_slice())])
    };
    let rstrip = agree(vec![
        rs(&|t| t.strip_suffix(&yr).is_ok()),
        rs(&|t| t.strip_suffix(&y_chain_r).is_ok()),
        rs(&|t| t.strip_suffix(&yr.for_ref()).is_ok()),
    ]);
    let as_ = |r: Result<Rn, N>| -> Value {
        match r {
            Ok(l) if valid_rel(l.as_slice()) => json!(["ok", json_bytes(l.as_slice())]),
            Ok(l) => json!(["invalid_relative_name", json_bytes(l.as_slice())]),
            Err(n) => json!(["err", json_bytes(n.as_slice())]),
        }
    };
    let astrip = agree(vec![
        as_(xa.clone().strip_suffix(&ya)),
        as_(xa.clone().strip_suffix(&yp)),
        as_(xa.clone().strip_suffix(&y_chain_a)),
    ]);
    let b = |o: Option<bool>| o.map(|v| json!(v)).unwrap_or(json!("representations_disagree"));
    let v = |o: Option<Value>| o.unwrap_or(json!("representations_disagree"));
    json!({"rends": b(rends), "rstarts": b(rstarts), "aends": b(aends), "astarts": b(astarts),
           "rstrip": v(rstrip), "astrip": v(astrip)})
}

fn ranges_case(input: &Value) -> Value {
    let wire = bytes_of(&input["wire"]);
    let idx: Vec<usize> = input["idx"].as_array().map(|a| a.iter().map(|x| x.as_u64().unwrap_or(0) as usize).collect()).unwrap_or_default();
    let name: N = match Name::from_octets(wire.clone()) {
        Ok(n) => n,
        Err(_) => return json!({"bad_case": true}),
    };
    let rel: Rn = name.clone().into_relative();
    let mut bl: Vec<(char, usize)> = vec![('U', 0)];
    bl.extend(idx.iter().map(|i| ('I', *i)));
    bl.extend(idx.iter().map(|i| ('E', *i)));
    let mut abs = vec![];
    let mut relt = vec![];
    for lo in &bl {
        for hi in &bl {
            let (lc, la) = code(*lo);
            let (hc, ha) = code(*hi);
            match all_spellings!(abs_forms, &name, *lo, *hi) {
                Cut::Refused => {}
                Cut::Val(v) if valid_rel(&v) => abs.push(json!([lc, la, hc, ha, json_bytes(&v)])),
                Cut::Val(v) => abs.push(json!([lc, la, hc, ha, ["invalid_relative_name", json_bytes(&v)]])),
                Cut::Disagree => abs.push(json!([lc, la, hc, ha, "spellings_disagree"])),
            }
            match all_spellings!(rel_forms, &rel, *lo, *hi) {
                Cut::Refused => {}
                Cut::Val(v) if valid_rel(&v) => relt.push(json!([lc, la, hc, ha, json_bytes(&v)])),
                Cut::Val(v) => relt.push(json!([lc, la, hc, ha, ["invalid_relative_name", json_bytes(&v)]])),
                Cut::Disagree => relt.push(json!([lc, la, hc, ha, "spellings_disagree"])),
            }
        }
    }
    // one-index entry points
    let mut from = vec![];
    let mut rcut = vec![];
    for i in &idx {
        let i = *i;
        let rights = vec![
            catch(|| name.slice_from(i).as_slice().to_vec()),
            catch(|| name.range_from(i).as_slice().to_vec()),
            catch(|| name.split(i).1.as_slice().to_vec()),
            catch(|| name.for_slice().slice_from(i).as_slice().to_vec()),
        ];
        let lefts = vec![
            catch(|| name.split(i).0.as_slice().to_vec()),
            catch(|| name.clone().truncate(i).as_slice().to_vec()),
        ];
        match (merge(rights), merge(lefts)) {
            (Cut::Refused, Cut::Refused) => {}
            (Cut::Val(r), Cut::Val(l)) if valid_abs(&r) && valid_rel(&l) => from.push(json!([i, json_bytes(&l), json_bytes(&r)])),
            _ => from.push(json!([i, "inconsistent_or_invalid"])),
        }
        let rr = vec![catch(|| rel.split(i).1.as_slice().to_vec())];
        let rl = vec![
            catch(|| rel.split(i).0.as_slice().to_vec()),
            catch(|| {
                let mut t = rel.clone();
                t.truncate(i);
                t.as_slice().to_vec()
            }),
        ];
        match (merge(rr), merge(rl)) {
            (Cut::Refused, Cut::Refused) => {}
            (Cut::Val(r), Cut::Val(l)) if valid_rel(&r) && valid_rel(&l) => rcut.push(json!([i, json_bytes(&l), json_bytes(&r)])),
            _ => rcut.push(json!([i, "inconsistent_or_invalid"])),
        }
    }
    let chk_abs = |o: &[u8]| if valid_abs(o) { json_bytes(o) } else { json!(["invalid", json_bytes(o)]) };
    let suffixes: Vec<Value> = name.iter_suffixes().map(|s| chk_abs(s.as_slice())).collect();
    // the same name read through ParsedName
    let mut parser = Parser::from_ref(wire.as_slice());
    let pn = ParsedName::parse(&mut parser).expect("flat name parses");
    let (psuffixes, psf, ppar) = parsed_walks(&pn);
    json!({
        "abs": abs,
        "rel": relt,
        "from": from,
        "rcut": rcut,
        "suffixes": suffixes,
        "psuffixes": psuffixes,
        "ends": [name.label_count(), json_bytes(name.first().as_slice()), json_bytes(name.last().as_slice())],
        "rends": match (rel.first(), rel.last()) {
            (Some(f), Some(l)) => json!([rel.label_count(), json_bytes(f.as_slice()), json_bytes(l.as_slice())]),
            (None, None) => json!([rel.label_count(), "none", "none"]),
            _ => json!("first_last_disagree"),
        },
        "sf": match name.split_first() {
            Some((l, rest)) => json!([json_bytes(l.as_slice()), chk_abs(rest.as_slice())]),
            None => json!(["none"]),
        },
        "rsf": match rel.split_first() {
            Some((l, rest)) if valid_rel(rest.as_slice()) => json!([json_bytes(l.as_slice()), json_bytes(rest.as_slice())]),
            Some(_) => json!(["invalid"]),
            None => json!(["none"]),
        },
        "psf": psf,
        "ppar": ppar,
    })
}

fn repr(k: &str, input: &Value) -> Value {
    match k {
        "name" => name_case(input),
        "text" => text_case(input),
        "wire" => wire_case(input),
        "shape_text" => shape_text(input),
        "shape_wire" => shape_wire(input),
        "shape_chain" => shape_chain(input),
        "zone" => zone_case(input),
        "zscan" => zscan_case(input),
        "parsed" => parsed_case(input),
        "ranges" => ranges_case(input),
        "affix" => affix_case(input),
        "sym" => sym_case(input),
        "const" => const_case(input),
        "rev" => rev_case(input),
        _ => json!({"bad_case": true}),
    }
}

fn main() {
    run_cases(|input| match input.get("k").and_then(|k| k.as_str()) {
        None => transition(input),
        Some(k) => repr(k, input),
    });
}
