//! S->I executor for C03: transitions of spec/MC_NameBuilder.tla on a real
//! `NameBuilder<Vec<u8>>`, the representation cases of spec/MC_Names.tla and
//! the zone-file owner-name cases.
#[path = "../names.rs"]
mod names;

use domain::base::name::{
    FlattenInto, Name, NameBuilder, ParsedName, RelativeName, ToLabelIter, ToName, ToRelativeName, UncertainName,
};
use domain::rdata::ZoneRecordData;
use domain::base::scan::IterScanner;
use domain::zonefile::inplace::{Entry, Zonefile};
use names::*;
use octseq::Parser;
use serde_json::{json, Value};
use std::ops::{Bound, RangeBounds};
use std::str::FromStr;
use verif_harness::common::*;

/// One transition: bring a real builder into the source state, make the
/// call, report what the spec's `Obs` describes.
fn transition(input: &Value) -> Value {
    let mut fill = Fill(input["s"][0].as_u64().unwrap_or(0) as usize);
    let mut b = match input.get("p") {
        None => match construct(&input["s"], input["f"].as_bool().unwrap_or(false), &mut fill) {
            Some(b) => b,
            None => return json!({"cannot_construct_source": input["s"]}),
        },
        Some(path) => {
            // a state that only deviations lead to: follow the model's path
            let mut b = B::new_vec();
            for step in path.as_array().map(|a| a.as_slice()).unwrap_or(&[]) {
                let op = step[0].as_str().unwrap_or("");
                let _ = apply(&mut b, op, &step[1], &mut fill);
            }
            if proj(&b) != input["s"] {
                return json!({"unreachable": true});
            }
            b
        }
    };
    let op = input["o"].as_str().unwrap_or("");
    let (res, out) = apply(&mut b, op, &input["a"], &mut fill);
    let o = obs(&b, op, &res, out);
    // from a state that only deviations lead to, any combination of the open
    // deviations is what the model predicts
    if let Some(alts) = input.get("alts").and_then(|a| a.as_array()) {
        if alts.contains(&o) {
            return json!({"as_model": true});
        }
    }
    o
}

// ---------------------------------------------------------------------------
// representation cases (spec/MC_Names.tla)

type N = Name<Vec<u8>>;
type Rn = RelativeName<Vec<u8>>;
type U = UncertainName<Vec<u8>>;

fn tag_name(r: Result<N, impl Sized>) -> Value {
    match r {
        Ok(n) if valid_abs(n.as_slice()) => json!(["abs", json_bytes(n.as_slice())]),
        Ok(n) => json!(["invalid_abs", json_bytes(n.as_slice())]),
        Err(_) => json!(["err"]),
    }
}

fn tag_rel(r: Result<Rn, impl Sized>) -> Value {
    match r {
        Ok(n) if valid_rel(n.as_slice()) => json!(["rel", json_bytes(n.as_slice())]),
        Ok(n) => json!(["invalid_rel", json_bytes(n.as_slice())]),
        Err(_) => json!(["err"]),
    }
}

fn tag_unc(r: Result<U, impl Sized>) -> Value {
    match r {
        Ok(UncertainName::Absolute(n)) => tag_name(Ok::<N, ()>(n)),
        Ok(UncertainName::Relative(n)) => tag_rel(Ok::<Rn, ()>(n)),
        Err(_) => json!(["err"]),
    }
}

fn octets_or_err(r: Result<N, impl Sized>) -> Value {
    match r {
        Ok(n) => json_bytes(n.as_slice()),
        Err(_) => json!("err"),
    }
}

/// all ways of cutting `name` at octet index i must agree
fn abs_boundary(name: &N, i: usize) -> Value {
    let (l, r) = name.split(i);
    let left = l.as_slice().to_vec();
    let right = r.as_slice().to_vec();
    let lefts: Vec<Vec<u8>> = vec![
        name.clone().truncate(i).as_slice().to_vec(),
        name.range(..i).as_slice().to_vec(),
        name.range(0..i).as_slice().to_vec(),
        name.slice(..i).as_slice().to_vec(),
        match name.clone().strip_suffix(&r) {
            Ok(x) => x.as_slice().to_vec(),
            Err(_) => vec![0xEE],
        },
    ];
    let rights: Vec<Vec<u8>> =
        vec![name.range_from(i).as_slice().to_vec(), name.slice_from(i).as_slice().to_vec()];
    if lefts.iter().any(|x| *x != left) || rights.iter().any(|x| *x != right) {
        return json!([i, "ways_disagree"]);
    }
    if !valid_rel(&left) || !valid_abs(&right) {
        return json!([i, "invalid_piece"]);
    }
    let lo: Rn = RelativeName::from_octets(left.clone()).unwrap();
    let ro: N = Name::from_octets(right.clone()).unwrap();
    match lo.chain(ro) {
        Ok(ch) => {
            let flat: N = ch.to_name();
            if flat.as_slice() != name.as_slice()
                || ch.to_string() != name.to_string()
                || usize::from(ch.compose_len()) != name.len()
            {
                return json!([i, "chain_differs"]);
            }
        }
        Err(_) => return json!([i, "chain_refused"]),
    }
    json!([i, json_bytes(&left), json_bytes(&right)])
}

fn rel_boundary(rel: &Rn, i: usize) -> Value {
    let (l, r) = rel.split(i);
    let left = l.as_slice().to_vec();
    let right = r.as_slice().to_vec();
    let mut t = rel.clone();
    t.truncate(i);
    let mut st = rel.clone();
    let stripped = st.strip_suffix(&r).is_ok();
    let lefts: Vec<Vec<u8>> = vec![
        t.as_slice().to_vec(),
        rel.range(..i).as_slice().to_vec(),
        rel.slice(0..i).as_slice().to_vec(),
        if stripped { st.as_slice().to_vec() } else { vec![0xEE] },
    ];
    let rights: Vec<Vec<u8>> =
        vec![rel.range(i..).as_slice().to_vec(), rel.slice(i..).as_slice().to_vec()];
    if lefts.iter().any(|x| *x != left) || rights.iter().any(|x| *x != right) {
        return json!([i, "ways_disagree"]);
    }
    if !valid_rel(&left) || !valid_rel(&right) {
        return json!([i, "invalid_piece"]);
    }
    let lo: Rn = RelativeName::from_octets(left.clone()).unwrap();
    let ro: Rn = RelativeName::from_octets(right.clone()).unwrap();
    match lo.chain(ro) {
        Ok(ch) => {
            let flat: Rn = ch.to_relative_name();
            if flat.as_slice() != rel.as_slice() || ch.to_string() != rel.to_string() {
                return json!([i, "chain_differs"]);
            }
        }
        Err(_) => return json!([i, "chain_refused"]),
    }
    json!([i, json_bytes(&left), json_bytes(&right)])
}

fn refused<F: FnOnce() + std::panic::UnwindSafe>(f: F) -> bool {
    std::panic::catch_unwind(f).is_err()
}

fn name_case(input: &Value) -> Value {
    let wire = bytes_of(&input["wire"]);
    let relwire = bytes_of(&input["rel"]);
    let text = string_of(&input["text"]);
    let reltext = string_of(&input["reltext"]);
    let name: N = match Name::from_octets(wire.clone()) {
        Ok(n) if valid_abs(&wire) && Name::from_slice(&wire).is_ok() => n,
        _ => return json!({"valid": false}),
    };
    let rel: Rn = match RelativeName::from_octets(relwire.clone()) {
        Ok(n) if valid_rel(&relwire) => n,
        _ => return json!({"valid": false, "which": "rel"}),
    };
    let disp = name.to_string();
    let mut splits = vec![];
    let mut nonb = 0i64;
    for i in 0..=name.len() {
        if name.is_label_start(i) {
            splits.push(abs_boundary(&name, i));
        } else {
            let n2 = name.clone();
            let ok = refused(move || {
                let _ = n2.split(i);
            }) && {
                let n3 = name.clone();
                refused(move || {
                    let _ = n3.truncate(i);
                })
            };
            nonb += if ok { 1 } else { -1000 };
        }
    }
    let mut rsplits = vec![];
    let mut rnonb = 0i64;
    for i in 0..=rel.len() + 1 {
        if rel.is_label_start(i) {
            rsplits.push(rel_boundary(&rel, i));
        } else {
            let r2 = rel.clone();
            let ok = refused(move || {
                let _ = r2.split(i);
            });
            rnonb += if ok { 1 } else { -1000 };
        }
    }
    let parsed = {
        let mut buf = wire.clone();
        buf.push(0xAA);
        let mut parser = Parser::from_ref(buf.as_slice());
        match Name::parse(&mut parser) {
            Ok(n) if parser.pos() == wire.len() => json_bytes(n.as_slice()),
            Ok(_) => json!("wrong_position"),
            Err(_) => json!("err"),
        }
    };
    json!({
        "valid": true,
        "disp": octets_or_err(N::from_str(&disp)),
        "chars": octets_or_err(N::from_chars(disp.chars())),
        "dot": octets_or_err(N::from_str(&name.fmt_with_dot().to_string())),
        "parse": parsed,
        "pres": tag_name(N::from_str(&text)),
        "unc": tag_unc(U::from_str(&text)),
        "uncrel": tag_unc(U::from_str(&reltext)),
        "reld": tag_rel(Rn::from_str(&rel.to_string())),
        "uncdisp": tag_unc(U::from_str(&U::from(name.clone()).to_string())),
        "uncreldisp": tag_unc(U::from_str(&U::from(rel.clone()).to_string())),
        "splits": splits,
        "nonb": nonb,
        "parent": match name.parent() {
            Some(p) => tag_name(Ok::<N, ()>(p.to_name())),
            None => json!(["none"]),
        },
        "rsplits": rsplits,
        "rnonb": rnonb,
        "rparent": match rel.parent() {
            Some(p) => tag_rel(Ok::<Rn, ()>(p.to_relative_name())),
            None => json!(["none"]),
        },
    })
}

fn text_case(input: &Value) -> Value {
    let t = string_of(&input["text"]);
    let mut scanner = IterScanner::<_, Vec<u8>>::new([t.as_str()]);
    json!({
        "name": tag_name(N::from_str(&t)),
        "iscan": tag_name(N::scan(&mut scanner)),
        "unc": tag_unc(U::from_str(&t)),
        "rel": tag_rel(Rn::from_str(&t)),
    })
}

fn wire_case(input: &Value) -> Value {
    let o = bytes_of(&input["octets"]);
    let a = tag_name(N::from_octets(o.clone()));
    let a2 = tag_name(Name::from_slice(&o).map(|n| -> N { n.to_name() }));
    let r = tag_rel(Rn::from_octets(o.clone()));
    let r2 = tag_rel(RelativeName::from_slice(&o).map(|n| -> Rn { n.to_relative_name() }));
    let mut parser = Parser::from_ref(o.as_slice());
    let p = match Name::parse(&mut parser) {
        Ok(n) if parser.pos() == n.len() => tag_name(Ok::<N, ()>(n.to_name())),
        Ok(_) => json!(["wrong_position"]),
        Err(_) => json!(["err"]),
    };
    json!({
        "abs": if a == a2 { a } else { json!(["octets_and_slice_disagree"]) },
        "parse": p,
        "rel": if r == r2 { r } else { json!(["octets_and_slice_disagree"]) },
        "unc": if o.is_empty() { json!(["skip"]) } else { tag_unc(U::from_octets(o.clone())) },
    })
}

fn r3_abs(o: Option<&[u8]>) -> Value {
    match o {
        Some(o) => json!(["abs", o.len(), valid_abs(o) as u8]),
        None => json!(["err", 0, 1]),
    }
}
fn r3_rel(o: Option<&[u8]>) -> Value {
    match o {
        Some(o) => json!(["rel", o.len(), valid_rel(o) as u8]),
        None => json!(["err", 0, 1]),
    }
}
fn r3_unc(r: Result<U, impl Sized>) -> Value {
    match r {
        Ok(UncertainName::Absolute(n)) => r3_abs(Some(n.as_slice())),
        Ok(UncertainName::Relative(n)) => r3_rel(Some(n.as_slice())),
        Err(_) => json!(["err", 0, 1]),
    }
}

fn lens_of(v: &Value) -> Vec<usize> {
    v.as_array().map(|a| a.iter().map(|x| x.as_u64().unwrap_or(0) as usize).collect()).unwrap_or_default()
}
fn wire_of(lens: &[usize]) -> Vec<u8> {
    let mut o = vec![];
    for l in lens {
        o.push(*l as u8);
        o.extend(std::iter::repeat(b'a').take(*l));
    }
    o
}

fn shape_text(input: &Value) -> Value {
    let lens = lens_of(&input["lens"]);
    let t = lens.iter().map(|l| "a".repeat(*l)).collect::<Vec<_>>().join(".");
    let td = format!("{}.", t);
    let nm = |s: &str| r3_abs(N::from_str(s).ok().as_ref().map(|n| n.as_slice()));
    let rl = |s: &str| r3_rel(Rn::from_str(s).ok().as_ref().map(|n| n.as_slice()));
    let te = format!("{}.", lens.iter().map(|l| "\\097".repeat(*l)).collect::<Vec<_>>().join("."));
    json!({"nd": nm(&td), "n": nm(&t), "ne": nm(&te), "ud": r3_unc(U::from_str(&td)), "u": r3_unc(U::from_str(&t)),
           "rd": rl(&td), "r": rl(&t)})
}

fn shape_wire(input: &Value) -> Value {
    let lens = lens_of(&input["lens"]);
    let rw = wire_of(&lens);
    let mut aw = rw.clone();
    aw.push(0);
    let np = {
        let mut buf = aw.clone();
        buf.push(0xAA);
        let mut parser = Parser::from_ref(buf.as_slice());
        match Name::parse(&mut parser) {
            Ok(n) => r3_abs(Some(n.as_slice())),
            Err(_) => json!(["err", 0, 1]),
        }
    };
    json!({
        "no": r3_abs(N::from_octets(aw.clone()).ok().as_ref().map(|n| n.as_slice())),
        "ns": r3_abs(Name::from_slice(&aw).ok().map(|n| n.as_slice())),
        "np": np,
        "ro": r3_rel(Rn::from_octets(rw.clone()).ok().as_ref().map(|n| n.as_slice())),
        "rs": r3_rel(RelativeName::from_slice(&rw).ok().map(|n| n.as_slice())),
        "ua": r3_unc(U::from_octets(aw.clone())),
        "ur": r3_unc(U::from_octets(rw.clone())),
        "fb": r3_rel(NameBuilder::from_builder(rw.clone()).ok().as_ref().map(|b| b.as_slice())),
    })
}

fn shape_chain(input: &Value) -> Value {
    let lens = lens_of(&input["lens"]);
    let jmin = input["jmin"].as_u64().unwrap_or(0) as usize;
    let jmax = input["jmax"].as_u64().unwrap_or(0) as usize;
    let mut ra = vec![];
    let mut rr = vec![];
    for j in jmin..=jmax {
        let left: Rn = RelativeName::from_octets(wire_of(&lens[..j])).expect("left half");
        let right: Rn = RelativeName::from_octets(wire_of(&lens[j..])).expect("right half");
        let right_abs: N = right.clone().into_absolute().expect("right half, absolute");
        ra.push(match left.clone().chain(right_abs) {
            Ok(ch) => {
                let flat: N = ch.to_name();
                if usize::from(ch.compose_len()) != flat.len() {
                    json!(["compose_len_differs", 0, 0])
                } else {
                    r3_abs(Some(flat.as_slice()))
                }
            }
            Err(_) => json!(["err", 0, 1]),
        });
        rr.push(match left.chain(right) {
            Ok(ch) => {
                let flat: Rn = ch.to_relative_name();
                if usize::from(ch.compose_len()) != flat.len() {
                    json!(["compose_len_differs", 0, 0])
                } else {
                    r3_rel(Some(flat.as_slice()))
                }
            }
            Err(_) => json!(["err", 0, 1]),
        });
    }
    json!({"ra": ra, "rr": rr})
}

fn zone_case(input: &Value) -> Value {
    let owner = string_of(&input["owner"]);
    let text = format!("$ORIGIN example.\n{} 3600 IN A 192.0.2.1\n", owner);
    let mut zf = Zonefile::from(text.as_str());
    loop {
        match zf.next_entry() {
            Ok(Some(Entry::Record(rec))) => {
                let n: N = rec.owner().to_name();
                return json!(["abs", json_bytes(n.as_slice()), valid_abs(n.as_slice()) as u8]);
            }
            Ok(Some(_)) => continue,
            Ok(None) | Err(_) => return json!(["err", [], 1]),
        }
    }
}

/// a name around the limits, written plainly or with escapes, read by the
/// zone-file scanner as owner or inside NS / MX record data
fn zscan_case(input: &Value) -> Value {
    let name = string_of(&input["text"]);
    let text = match input["place"].as_str().unwrap_or("") {
        "owner" => format!("$ORIGIN example.\n{} 3600 IN A 192.0.2.1\n", name),
        "ns" => format!("$ORIGIN example.\nx 3600 IN NS {}\n", name),
        _ => format!("$ORIGIN example.\nx 3600 IN MX 10 {}\n", name),
    };
    let mut zf = Zonefile::from(text.as_str());
    loop {
        match zf.next_entry() {
            Ok(Some(Entry::Record(rec))) => {
                let n: N = match input["place"].as_str().unwrap_or("") {
                    "owner" => rec.owner().to_name(),
                    "ns" => match rec.data() {
                        ZoneRecordData::Ns(ns) => ns.nsdname().to_name(),
                        _ => return json!(["wrong_record_type", [], 0]),
                    },
                    _ => match rec.data() {
                        ZoneRecordData::Mx(mx) => mx.exchange().to_name(),
                        _ => return json!(["wrong_record_type", [], 0]),
                    },
                };
                return json!(["abs", json_bytes(n.as_slice()), valid_abs(n.as_slice()) as u8]);
            }
            Ok(Some(_)) => continue,
            Ok(None) | Err(_) => return json!(["err", [], 1]),
        }
    }
}

/// a name read from a compressed rendering and converted to the other
/// representations
fn parsed_case(input: &Value) -> Value {
    let msg = bytes_of(&input["msg"]);
    let pos = input["pos"].as_u64().unwrap_or(0) as usize;
    let mut parser = Parser::from_ref(msg.as_slice());
    if parser.advance(pos).is_err() {
        return json!({"bad_case": true});
    }
    let pn = match ParsedName::parse(&mut parser) {
        Ok(pn) => pn,
        Err(_) => return json!({"ok": false}),
    };
    let mut labels = vec![];
    for l in pn.iter() {
        labels.push(l.len() as u8);
        labels.extend_from_slice(l.as_slice());
    }
    // one value for all conversions: the octets, or which conversion is off
    let all = battery(&pn);
    let conv = |what: &str| -> Value {
        match all.get(0).and_then(|x| x.as_str()) {
            Some(w) if w == what => all.clone(),
            _ => if all.get(0).map(|x| x.is_string()).unwrap_or(false) { json_bytes(&labels) } else { all.clone() },
        }
    };
    let failed = all.get(0).and_then(|x| x.as_str()).map(|s| s.to_string());
    let is = |names: &[&str]| failed.as_ref().map(|f| names.contains(&f.as_str())).unwrap_or(false);
    let afs = if is(&["as_flat_slice"]) { "flat_slice_is_not_the_name" } else { "ok" };
    let (eq, cmp, disp) = (!is(&["eq"]), !is(&["cmp"]), !is(&["text_round_trip"]));
    let chk = |o: &[u8]| if valid_abs(o) { json_bytes(o) } else { json!(["invalid", json_bytes(o)]) };
    let composed_v = if is(&["compose", "compose_canonical"]) { conv(failed.as_deref().unwrap()) } else { chk(&labels) };
    let flat_v = if is(&["flatten_into", "to_cow"]) { conv(failed.as_deref().unwrap()) } else { chk(&labels) };
    let toname_v = if is(&["to_name", "invalid_labels", "compose_len"]) { all.clone() } else { chk(&labels) };
    let (psuffixes, psf, ppar) = parsed_walks(&pn);
    json!({
        "ok": true,
        "psuffixes": psuffixes,
        "psf": psf,
        "ppar": ppar,
        "labels": chk(&labels),
        "compose": composed_v,
        "flat": flat_v,
        "toname": toname_v,
        "afs": afs,
        "eq": eq,
        "cmp": cmp,
        "disp": disp,
        "len": pn.compose_len(),
        "end": parser.pos(),
    })
}

// --- every slicing entry point with every form of range bounds ------------

#[derive(PartialEq, Clone)]
enum Cut {
    Refused,
    Val(Vec<u8>),
    Disagree,
}

fn catch<T, F: FnOnce() -> T>(f: F) -> Option<T> {
    std::panic::catch_unwind(std::panic::AssertUnwindSafe(f)).ok()
}

fn merge(rs: Vec<Option<Vec<u8>>>) -> Cut {
    let first = rs[0].clone();
    if rs.iter().any(|r| *r != first) {
        return Cut::Disagree;
    }
    match first {
        None => Cut::Refused,
        Some(v) => Cut::Val(v),
    }
}

fn abs_forms<R: RangeBounds<usize> + Clone>(n: &N, r: R) -> Vec<Option<Vec<u8>>> {
    vec![
        catch(|| n.slice(r.clone()).as_slice().to_vec()),
        catch(|| n.range(r.clone()).as_slice().to_vec()),
        catch(|| n.for_slice().slice(r.clone()).as_slice().to_vec()),
    ]
}

fn rel_forms<R: RangeBounds<usize> + Clone>(n: &Rn, r: R) -> Vec<Option<Vec<u8>>> {
    vec![
        catch(|| n.slice(r.clone()).as_slice().to_vec()),
        catch(|| n.range(r.clone()).as_slice().to_vec()),
        catch(|| n.for_slice().slice(r.clone()).as_slice().to_vec()),
    ]
}

fn bound_of(b: (char, usize)) -> Bound<usize> {
    match b.0 {
        'I' => Bound::Included(b.1),
        'E' => Bound::Excluded(b.1),
        _ => Bound::Unbounded,
    }
}

macro_rules! all_spellings {
    ($forms:ident, $n:expr, $lo:expr, $hi:expr) => {{
        let (lo, hi) = ($lo, $hi);
        let mut rs = $forms($n, (bound_of(lo), bound_of(hi)));
        match (lo.0, hi.0) {
            ('I', 'E') => rs.extend($forms($n, lo.1..hi.1)),
            ('I', 'U') => rs.extend($forms($n, lo.1..)),
            ('U', 'E') => rs.extend($forms($n, ..hi.1)),
            ('U', 'U') => rs.extend($forms($n, ..)),
            ('I', 'I') => rs.extend($forms($n, lo.1..=hi.1)),
            ('U', 'I') => rs.extend($forms($n, ..=hi.1)),
            _ => {}
        }
        merge(rs)
    }};
}

fn code(b: (char, usize)) -> (String, i64) {
    (b.0.to_string(), if b.0 == 'U' { -1 } else { b.1 as i64 })
}

/// Every conversion of a ParsedName to another representation must give
/// the uncompressed wire form of its labels: the octets if they all do (and
/// these are a valid name), otherwise the name of the first that does not.
fn battery(pn: &ParsedName<&[u8]>) -> Value {
    let mut labels = vec![];
    for l in pn.iter() {
        labels.push(l.len() as u8);
        labels.extend_from_slice(l.as_slice());
    }
    if !valid_abs(&labels) {
        return json!(["invalid_labels", json_bytes(&labels)]);
    }
    let flatname: N = Name::from_octets(labels.clone()).unwrap();
    let bad = |what: &str, o: &[u8]| json!([what, json_bytes(o)]);
    let mut composed: Vec<u8> = vec![];
    if pn.compose(&mut composed).is_err() || composed != labels {
        return bad("compose", &composed);
    }
    let mut canon: Vec<u8> = vec![];
    if pn.compose_canonical(&mut canon).is_err() || canon.len() != labels.len() || !canon.eq_ignore_ascii_case(&labels) {
        return bad("compose_canonical", &canon);
    }
    let flat: N = pn.clone().flatten_into();
    if flat.as_slice() != labels {
        return bad("flatten_into", flat.as_slice());
    }
    let tn: N = pn.to_name();
    if tn.as_slice() != labels {
        return bad("to_name", tn.as_slice());
    }
    let cow = pn.to_cow();
    if cow.as_slice() != labels {
        return bad("to_cow", cow.as_slice());
    }
    if let Some(sl) = pn.as_flat_slice() {
        if sl != labels.as_slice() {
            return bad("as_flat_slice", sl);
        }
    }
    if usize::from(pn.compose_len()) != labels.len() {
        return bad("compose_len", &[]);
    }
    if !(*pn == flatname && flatname == *pn && pn.name_eq(&flatname) && flatname.name_eq(pn)) {
        return bad("eq", &[]);
    }
    if pn.name_cmp(&flatname) != std::cmp::Ordering::Equal
        || flatname.name_cmp(pn) != std::cmp::Ordering::Equal
        || pn.composed_cmp(&flatname) != std::cmp::Ordering::Equal
        || pn.lowercase_composed_cmp(&flatname) != std::cmp::Ordering::Equal
    {
        return bad("cmp", &[]);
    }
    if !N::from_str(&pn.fmt_with_dot().to_string()).map(|b| b.as_slice() == labels).unwrap_or(false) {
        return bad("text_round_trip", &[]);
    }
    json_bytes(&labels)
}

/// ParsedName: iter_suffixes, repeated split_first, repeated parent; every
/// intermediate name goes through the whole battery
fn parsed_walks(pn: &ParsedName<&[u8]>) -> (Vec<Value>, Vec<Value>, Vec<Value>) {
    let psuffixes: Vec<Value> = pn.iter_suffixes().map(|s| battery(&s)).collect();
    let mut psf = vec![];
    let mut cur = pn.clone();
    loop {
        let first = match cur.split_first() {
            Some(l) => l.as_slice().to_vec(),
            None => break,
        };
        psf.push(json!([json_bytes(&first), battery(&cur)]));
        if psf.len() > 200 {
            break;
        }
    }
    let mut ppar = vec![];
    let mut cur = pn.clone();
    while cur.parent() {
        ppar.push(battery(&cur));
        if ppar.len() > 200 {
            break;
        }
    }
    (psuffixes, psf, ppar)
}

// --- starts_with / ends_with / strip_suffix on adversarial label contents --

fn agree<T: PartialEq + Clone>(v: Vec<T>) -> Option<T> {
    let f = v[0].clone();
    if v.iter().all(|x| *x == f) { Some(f) } else { None }
}

/// message with `rel` followed by a pointer to a root label at offset 0
fn compressed_msg(rel: &[u8]) -> Vec<u8> {
    let mut m = vec![0u8];
    m.extend_from_slice(rel);
    m.extend_from_slice(&[0xC0, 0]);
    m
}

fn affix_case(input: &Value) -> Value {
    let xw = bytes_of(&input["x"]);
    let yw = bytes_of(&input["y"]);
    let xr: Rn = RelativeName::from_octets(xw.clone()).expect("x");
    let yr: Rn = RelativeName::from_octets(yw.clone()).expect("y");
    let xa: N = xr.clone().into_absolute().expect("x abs");
    let ya: N = yr.clone().into_absolute().expect("y abs");
    // the same names in representations without a flat slice
    let xmsg = compressed_msg(&xw);
    let ymsg = compressed_msg(&yw);
    let parse_at1 = |m: &'static [u8]| -> ParsedName<&'static [u8]> {
        let mut p = Parser::from_ref(m);
        p.advance(1).unwrap();
        ParsedName::parse(&mut p).unwrap()
    };
    // leak: the cases are few and the process short-lived
    let xp = parse_at1(Box::leak(xmsg.into_boxed_slice()));
    let yp = parse_at1(Box::leak(ymsg.into_boxed_slice()));
    let x_chain_a = xr.clone().chain(Name::root_ref()).expect("chain");
    let y_chain_a = yr.clone().chain(Name::root_ref()).expect("chain");
    let y_chain_r = RelativeName::empty_ref().chain(yr.clone()).expect("chain");
    let x_chain_r = RelativeName::empty_ref().chain(xr.clone()).expect("chain");

    let rends = agree(vec![
        xr.ends_with(&yr), xr.ends_with(&y_chain_r), xr.for_slice().ends_with(&yr),
        x_chain_r.ends_with(&yr), x_chain_r.ends_with(&y_chain_r),
    ]);
    let rstarts = agree(vec![
        xr.starts_with(&yr), xr.starts_with(&y_chain_r), x_chain_r.starts_with(&yr),
    ]);
    let aends = agree(vec![
        xa.ends_with(&ya), xa.ends_with(&yp), xa.ends_with(&y_chain_a),
        xp.ends_with(&ya), xp.ends_with(&yp), x_chain_a.ends_with(&ya), x_chain_a.ends_with(&yp),
        xa.for_slice().ends_with(&ya),
    ]);
    let astarts = agree(vec![
        xa.starts_with(&yr), xa.starts_with(&y_chain_r), xp.starts_with(&yr), x_chain_a.starts_with(&yr),
    ]);
    let rs = |base: &dyn Fn(&mut Rn) -> bool| -> Value {
        let mut t = xr.clone();
        let ok = base(&mut t);
        if !valid_rel(t.as_slice()) {
            return json!(["invalid_relative_name", json_bytes(t.as_slice())]);
        }
        json!([if ok { "ok" } else { "err" }, json_bytes(t.as_slice())])
    };
    let rstrip = agree(vec![
        rs(&|t| t.strip_suffix(&yr).is_ok()),
        rs(&|t| t.strip_suffix(&y_chain_r).is_ok()),
        rs(&|t| t.strip_suffix(&yr.for_ref()).is_ok()),
    ]);
    let as_ = |r: Result<Rn, N>| -> Value {
        match r {
            Ok(l) if valid_rel(l.as_slice()) => json!(["ok", json_bytes(l.as_slice())]),
            Ok(l) => json!(["invalid_relative_name", json_bytes(l.as_slice())]),
            Err(n) => json!(["err", json_bytes(n.as_slice())]),
        }
    };
    let astrip = agree(vec![
        as_(xa.clone().strip_suffix(&ya)),
        as_(xa.clone().strip_suffix(&yp)),
        as_(xa.clone().strip_suffix(&y_chain_a)),
    ]);
    let b = |o: Option<bool>| o.map(|v| json!(v)).unwrap_or(json!("representations_disagree"));
    let v = |o: Option<Value>| o.unwrap_or(json!("representations_disagree"));
    json!({"rends": b(rends), "rstarts": b(rstarts), "aends": b(aends), "astarts": b(astarts),
           "rstrip": v(rstrip), "astrip": v(astrip)})
}

fn ranges_case(input: &Value) -> Value {
    let wire = bytes_of(&input["wire"]);
    let idx: Vec<usize> = input["idx"].as_array().map(|a| a.iter().map(|x| x.as_u64().unwrap_or(0) as usize).collect()).unwrap_or_default();
    let name: N = match Name::from_octets(wire.clone()) {
        Ok(n) => n,
        Err(_) => return json!({"bad_case": true}),
    };
    let rel: Rn = name.clone().into_relative();
    let mut bl: Vec<(char, usize)> = vec![('U', 0)];
    bl.extend(idx.iter().map(|i| ('I', *i)));
    bl.extend(idx.iter().map(|i| ('E', *i)));
    let mut abs = vec![];
    let mut relt = vec![];
    for lo in &bl {
        for hi in &bl {
            let (lc, la) = code(*lo);
            let (hc, ha) = code(*hi);
            match all_spellings!(abs_forms, &name, *lo, *hi) {
                Cut::Refused => {}
                Cut::Val(v) if valid_rel(&v) => abs.push(json!([lc, la, hc, ha, json_bytes(&v)])),
                Cut::Val(v) => abs.push(json!([lc, la, hc, ha, ["invalid_relative_name", json_bytes(&v)]])),
                Cut::Disagree => abs.push(json!([lc, la, hc, ha, "spellings_disagree"])),
            }
            match all_spellings!(rel_forms, &rel, *lo, *hi) {
                Cut::Refused => {}
                Cut::Val(v) if valid_rel(&v) => relt.push(json!([lc, la, hc, ha, json_bytes(&v)])),
                Cut::Val(v) => relt.push(json!([lc, la, hc, ha, ["invalid_relative_name", json_bytes(&v)]])),
                Cut::Disagree => relt.push(json!([lc, la, hc, ha, "spellings_disagree"])),
            }
        }
    }
    // one-index entry points
    let mut from = vec![];
    let mut rcut = vec![];
    for i in &idx {
        let i = *i;
        let rights = vec![
            catch(|| name.slice_from(i).as_slice().to_vec()),
            catch(|| name.range_from(i).as_slice().to_vec()),
            catch(|| name.split(i).1.as_slice().to_vec()),
            catch(|| name.for_slice().slice_from(i).as_slice().to_vec()),
        ];
        let lefts = vec![
            catch(|| name.split(i).0.as_slice().to_vec()),
            catch(|| name.clone().truncate(i).as_slice().to_vec()),
        ];
        match (merge(rights), merge(lefts)) {
            (Cut::Refused, Cut::Refused) => {}
            (Cut::Val(r), Cut::Val(l)) if valid_abs(&r) && valid_rel(&l) => from.push(json!([i, json_bytes(&l), json_bytes(&r)])),
            _ => from.push(json!([i, "inconsistent_or_invalid"])),
        }
        let rr = vec![catch(|| rel.split(i).1.as_slice().to_vec())];
        let rl = vec![
            catch(|| rel.split(i).0.as_slice().to_vec()),
            catch(|| {
                let mut t = rel.clone();
                t.truncate(i);
                t.as_slice().to_vec()
            }),
        ];
        match (merge(rr), merge(rl)) {
            (Cut::Refused, Cut::Refused) => {}
            (Cut::Val(r), Cut::Val(l)) if valid_rel(&r) && valid_rel(&l) => rcut.push(json!([i, json_bytes(&l), json_bytes(&r)])),
            _ => rcut.push(json!([i, "inconsistent_or_invalid"])),
        }
    }
    let chk_abs = |o: &[u8]| if valid_abs(o) { json_bytes(o) } else { json!(["invalid", json_bytes(o)]) };
    let suffixes: Vec<Value> = name.iter_suffixes().map(|s| chk_abs(s.as_slice())).collect();
    // the same name read through ParsedName
    let mut parser = Parser::from_ref(wire.as_slice());
    let pn = ParsedName::parse(&mut parser).expect("flat name parses");
    let (psuffixes, psf, ppar) = parsed_walks(&pn);
    json!({
        "abs": abs,
        "rel": relt,
        "from": from,
        "rcut": rcut,
        "suffixes": suffixes,
        "psuffixes": psuffixes,
        "ends": [name.label_count(), json_bytes(name.first().as_slice()), json_bytes(name.last().as_slice())],
        "rends": match (rel.first(), rel.last()) {
            (Some(f), Some(l)) => json!([rel.label_count(), json_bytes(f.as_slice()), json_bytes(l.as_slice())]),
            (None, None) => json!([rel.label_count(), "none", "none"]),
            _ => json!("first_last_disagree"),
        },
        "sf": match name.split_first() {
            Some((l, rest)) => json!([json_bytes(l.as_slice()), chk_abs(rest.as_slice())]),
            None => json!(["none"]),
        },
        "rsf": match rel.split_first() {
            Some((l, rest)) if valid_rel(rest.as_slice()) => json!([json_bytes(l.as_slice()), json_bytes(rest.as_slice())]),
            Some(_) => json!(["invalid"]),
            None => json!(["none"]),
        },
        "psf": psf,
        "ppar": ppar,
    })
}

fn repr(k: &str, input: &Value) -> Value {
    match k {
        "name" => name_case(input),
        "text" => text_case(input),
        "wire" => wire_case(input),
        "shape_text" => shape_text(input),
        "shape_wire" => shape_wire(input),
        "shape_chain" => shape_chain(input),
        "zone" => zone_case(input),
        "zscan" => zscan_case(input),
        "parsed" => parsed_case(input),
        "ranges" => ranges_case(input),
        "affix" => affix_case(input),
        _ => json!({"bad_case": true}),
    }
}

fn main() {
    run_cases(|input| match input.get("k").and_then(|k| k.as_str()) {
        None => transition(input),
        Some(k) => repr(k, input),
    });
}
