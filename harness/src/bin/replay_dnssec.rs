//! S->I executor for Rrsig.tla (C12) and Denial.tla (C13) cases.
#[path = "../dnssec.rs"]
mod dnssec;

use bytes::Bytes;
use dnssec::*;
use dnssec::denial;
use domain::base::iana::{DigestAlgorithm, SecurityAlgorithm};
use domain::base::Record;
use domain::base::iana::Class;
use domain::base::name::ToName;
use domain::crypto::common::{rsa_encode, rsa_exponent_modulus, PublicKey};
use domain::crypto::sign::{generate, GenerateParams, KeyPair, SignRaw};
use dnssec::realkeys::{self, RealKey};
use domain::dnssec::sign::keys::signingkey::SigningKey;
use domain::base::rdata::ComposeRecordData;
use dnssec::sinput::{all_verify, run_entry, Coll, ENTRIES};
use domain::dnssec::sign::records::{Rrset, SortedRecords};
use domain::dnssec::sign::signatures::rrsigs::{sign_rrset, sign_sorted_rrset_in};
use domain::rdata::ZoneRecordData;
use domain::dnssec::validator::base::{supported_algorithm, DnskeyExt, RrsigExt};
use domain::rdata::dnssec::Timestamp;
use domain::rdata::{Dnskey, Rrsig};
use serde_json::{json, Value};
use verif_harness::common::run_cases;


fn ts(v: &Value) -> Timestamp {
    let b = bytes_of(v);
    Timestamp::from(u32::from_be_bytes([b[0], b[1], b[2], b[3]]))
}

fn jts(t: Timestamp) -> Value {
    jbytes(&t.into_int().to_be_bytes())
}

fn sig_fields(r: &SRrsig) -> Value {
    json!({
        "tc": r.type_covered().to_int(),
        "alg": r.algorithm().to_int(),
        "labels": r.labels(),
        "ottl": r.original_ttl().as_secs(),
        "exp": jts(r.expiration()),
        "inc": jts(r.inception()),
        "tag": r.key_tag(),
        "signer": jname(r.signer_name()),
    })
}

/// Sign through both entry points; returns the RRSIG record and the buffers
/// each entry point handed to the key.
fn sign_both<K: SignRaw + std::fmt::Debug>(
    key: &SigningKey<Bytes, K>,
    recs: &[SRecord],
    inc: Timestamp,
    exp: Timestamp,
) -> Result<(Record<SName, SRrsig>, Record<SName, SRrsig>), String> {
    let rrset = Rrset::new_from_owned(recs).map_err(|e| format!("{e}"))?;
    let a = sign_rrset(key, &rrset, inc, exp).map_err(|e| format!("{e}"))?;
    let sorted: SortedRecords<SName, SData> = SortedRecords::from(recs.to_vec());
    let rrset2 = sorted.rrsets().next().ok_or("no rrset")?;
    let mut scratch = vec![];
    let b = sign_sorted_rrset_in(key, &rrset2, inc, exp, &mut scratch)
        .map_err(|e| format!("{e}"))?;
    Ok((a, b))
}

/// A third way to the same RRset: the collection built with collect()
/// (FromIterator) from the records in reverse order.
fn sign_collected<K: SignRaw + std::fmt::Debug>(
    key: &SigningKey<Bytes, K>,
    recs: &[SRecord],
    inc: Timestamp,
    exp: Timestamp,
) -> Result<Record<SName, SRrsig>, String> {
    let sorted: SortedRecords<SName, SData> = recs.iter().rev().cloned().collect();
    let rrset = sorted.rrsets().next().ok_or("no rrset")?;
    let mut scratch = vec![0xEE; 7];
    sign_sorted_rrset_in(key, &rrset, inc, exp, &mut scratch).map_err(|e| format!("{e}"))
}

fn altered_rrsig(base: &SRrsig, input: &Value, tag_changed: bool, flip: bool) -> SRrsig {
    let s = &input["sig"];
    let mut sigoct = base.signature().to_vec();
    if flip {
        let n = sigoct.len();
        sigoct[n / 2] ^= 0x10;
    }
    Rrsig::new(
        rtype(s["tc"].as_u64().unwrap() as u16),
        SecurityAlgorithm::from_int(s["alg"].as_u64().unwrap() as u8),
        s["labels"].as_u64().unwrap() as u8,
        ttl(s["ottl"].as_u64().unwrap() as u32),
        ts(&s["exp"]),
        ts(&s["inc"]),
        if tag_changed { base.key_tag().wrapping_add(1) } else { base.key_tag() },
        name_of(&s["signer"]),
        Bytes::from(sigoct),
    )
    .expect("rrsig")
}

type KeyCache = std::collections::HashMap<(u8, bool, u16, Vec<u8>), SigningKey<Bytes, KeyPair>>;
static KEYS: std::sync::LazyLock<std::sync::Mutex<KeyCache>> =
    std::sync::LazyLock::new(|| std::sync::Mutex::new(KeyCache::new()));

type SigPair = (Record<SName, SRrsig>, Record<SName, SRrsig>);
static SIGS: std::sync::LazyLock<std::sync::Mutex<std::collections::HashMap<String, SigPair>>> =
    std::sync::LazyLock::new(|| std::sync::Mutex::new(std::collections::HashMap::new()));

fn rrsig_case(input: &Value, reals: &[RealKey]) -> Value {
    let orig = match records_of(&input["orig"]) {
        Ok(r) => r,
        Err(e) => return json!({"bad_orig": e}),
    };
    let mut cur = match records_of(&input["cur"]) {
        Ok(r) => r,
        Err(e) => return json!({"bad_cur": e}),
    };
    if input["compress"] == true {
        cur = match compress_roundtrip(&cur) {
            Ok(r) => r,
            Err(e) => return json!({"bad_compress": e}),
        };
    }
    let key_owner = name_of(&input["keyOwner"]);
    let flags = input["key"]["flags"].as_u64().unwrap_or(0) as u16;
    let (inc, exp) = (ts(&input["inc"]), ts(&input["exp"]));

    // (i) recording key: the octets
    let rk = SigningKey::new(key_owner.clone(), flags, RecKey::of_json(&input["key"]));
    let (ra, rb) = match sign_both(&rk, &orig, inc, exp) {
        Ok(x) => x,
        Err(e) => return json!({"sign_error": e}),
    };
    let mut bufs = rk.raw_secret_key().take();
    if bufs.len() != 2 || bufs[0] != bufs[1] || ra.data() != rb.data() {
        return json!({"entry_points_disagree": bufs.iter().map(|b| jbytes(b)).collect::<Vec<_>>()});
    }
    match sign_collected(&rk, &orig, inc, exp) {
        Ok(rc) => {
            let b3 = rk.raw_secret_key().take();
            if b3.len() != 1 || b3[0] != bufs[0] || rc.data() != ra.data() {
                return json!({"entry_points_disagree": b3.iter().map(|b| jbytes(b)).collect::<Vec<_>>()});
            }
        }
        Err(e) => return json!({"sign_error": e}),
    }
    bufs.truncate(1);
    // RFC 4035 2.2: owner, class and TTL of the RRSIG RR are the RRset's
    if ra.owner() != orig[0].owner() || ra.class() != orig[0].class() || ra.ttl() != orig[0].ttl() {
        return json!({"rrsig_rr_header_wrong": true});
    }
    if rk.flags() != flags || rk.algorithm() != rk.raw_secret_key().dnskey.algorithm() {
        return json!({"signing_key_accessors_wrong": true});
    }
    let tag_changed = input["sig"]["tag"] != input["sig0"]["tag"];
    let conv = input["conv"].as_str().unwrap_or("none");
    let rsig = altered_rrsig(ra.data(), input, tag_changed, false);
    let converted = match conv {
        "typed" => convert_typed(&cur, &rsig),
        _ => convert(conv, &cur, &rsig),
    };
    let (cur, rsig) = match converted {
        Ok(x) => x,
        Err(e) => return json!({"conversion_changed_value": e}),
    };
    let rebuild = |sig: &SRrsig, recs: &[SRecord]| -> Result<Vec<u8>, Value> {
        if conv == "chain" {
            return signed_data_chained(sig, recs).map_err(|e| json!({"conversion_changed_value": e}));
        }
        let mut b: Vec<u8> = vec![];
        if sig.signed_data(&mut b, &mut recs.to_vec()[..]).is_err() {
            return Err(json!({"signed_data_error": true}));
        }
        Ok(b)
    };
    let vbuf = match rebuild(&rsig, &cur) {
        Ok(b) => b,
        Err(v) => return v,
    };
    let prefix = match proto_prefix(conv, &rsig) {
        Ok(b) => b,
        Err(e) => return json!({"conversion_changed_value": e}),
    };

    // (ii) a real key of the model's algorithm, obtained the model's way: the verdict
    let alg = input["key"]["alg"].as_u64().unwrap_or(0) as u8;
    let route = input["kroute"].as_str().unwrap_or("direct");
    // (a real key of the model key's algorithm and - RSA - size)
    let publen = input["key"]["pub"].as_array().map(|a| a.len()).unwrap_or(0);
    let Some(real) = realkeys::for_model(reals, alg, publen) else {
        return json!({"no_real_key_of_algorithm": alg});
    };
    let dnskey = real.dnskey(flags);
    // (the imported key pair of a case is kept for the later cases with the same key)
    let ck = (alg, route == "bind", flags, [key_owner.as_slice(), &publen.to_be_bytes()[..]].concat());
    let mut cache = KEYS.lock().unwrap_or_else(|e| e.into_inner());
    if !cache.contains_key(&ck) {
        let pair = match real.pair(route, flags) {
            Ok(p) => p,
            Err(e) => return json!({"key_error": e}),
        };
        cache.insert(ck.clone(), SigningKey::new(key_owner.clone(), flags, pair));
    }
    let sk = &cache[&ck];
    // what the key pair says about itself is the key it was made from
    if sk.raw_secret_key().algorithm() != dnskey.algorithm() || sk.raw_secret_key().dnskey() != dnskey
        || sk.algorithm() != dnskey.algorithm() || sk.dnskey() != dnskey {
        return json!({"key_pair_is_not_its_public_key": alg});
    }
    // (the cases that differ only in what happens to the RRset after signing
    // share the signing calls: the same key, RRset and validity period)
    let sig_key = format!("{:?} {} {} {} {} {}", ck, input["orig"], input["inc"], input["exp"], alg, publen);
    let cached = SIGS.lock().unwrap_or_else(|e| e.into_inner()).get(&sig_key).cloned();
    let (sa, sb) = match cached {
        Some(x) => x,
        None => match sign_both(sk, &orig, inc, exp) {
            Ok(x) => {
                SIGS.lock().unwrap_or_else(|e| e.into_inner()).insert(sig_key, x.clone());
                x
            }
            Err(e) => return json!({"sign_error": e}),
        },
    };
    // both entry points produce signatures over the same data: each
    // verifies against the validator's reconstruction of the original
    for s in [&sa, &sb] {
        let mut b: Vec<u8> = vec![];
        let _ = s.data().signed_data(&mut b, &mut orig.clone()[..]);
        if s.data().algorithm() != dnskey.algorithm() || s.data().key_tag() != dnskey.key_tag() {
            return json!({"rrsig_names_another_key": alg});
        }
        if s.data().verify_signed_data(&dnskey, &b).is_err() {
            return json!({"fresh_signature_does_not_verify": alg});
        }
    }
    let siglen = sa.data().signature().len();
    let asig = altered_rrsig(sa.data(), input, tag_changed, input["sigflip"] == true);
    let converted = match conv {
        "typed" => convert_typed(&cur, &asig),
        _ => convert(conv, &cur, &asig),
    };
    let asig = match converted {
        Ok(x) => x.1,
        Err(e) => return json!({"conversion_changed_value": e}),
    };
    let dnskey = match conv {
        "typed" => convert_dnskey_typed(&key_owner, &dnskey),
        _ => convert_dnskey(conv, &dnskey),
    };
    let dnskey = match dnskey {
        Ok(k) => k,
        Err(e) => return json!({"conversion_changed_value": e}),
    };
    let b = match rebuild(&asig, &cur) {
        Ok(b) => b,
        Err(v) => return v,
    };
    // the DNSKEY the validator holds: the Algorithm field and the key octets of the case
    let vkalg = SecurityAlgorithm::from_int(input["vkalg"].as_u64().unwrap_or(alg as u64) as u8);
    let mut p = dnskey.public_key().clone();
    if input["keyflip"] == true {
        let n = p.len();
        p[n / 3] ^= 0x04;
    }
    let vkey = Dnskey::new(flags, 3, vkalg, p).expect("dnskey");
    let verify = asig.verify_signed_data(&vkey, &b).is_ok();
    json!({
        "sig0": sig_fields(ra.data()),
        "signer": jbytes(&bufs[0]),
        "validator": jbytes(&vbuf),
        "prefix": jbytes(&prefix),
        "siglen": siglen,
        "verify": verify,
    })
}

/// The signer as a machine: a caller-owned scratch buffer re-used across
/// calls of sign_sorted_rrset_in, with failing backends and a buffer that is
/// not empty on entry.  Per op: the octets handed to sign_raw, Ok/Err, and
/// whether a signature made by a real key in the same situation verifies.
fn signer_case(input: &Value, reals: &[RealKey]) -> Value {
    let key_owner = name_of(&input["keyOwner"]);
    let flags = input["key"]["flags"].as_u64().unwrap_or(0) as u16;
    let (inc, exp) = (ts(&input["inc"]), ts(&input["exp"]));
    let rk = SigningKey::new(key_owner.clone(), flags, RecKey::of_json(&input["key"]));
    let want = input["key"]["alg"].as_u64().unwrap_or(15) as u8;
    let real = reals.iter().find(|r| r.alg == want).and_then(|r| {
        let dnskey = r.dnskey(flags);
        let pair = r.pair("direct", flags).ok()?;
        Some((SigningKey::new(key_owner.clone(), flags,
                              FlakyKey { inner: pair, fail_next: std::sync::Mutex::new(false) }), dnskey))
    });
    let mut scratch: Vec<u8> = vec![];
    let mut scratch_real: Vec<u8> = vec![];
    let mut steps = vec![];
    for op in input["ops"].as_array().cloned().unwrap_or_default() {
        if op["op"] == "scratch" {
            scratch = bytes_of(&op["junk"]);
            scratch_real = scratch.clone();
            steps.push(json!({"handed": [], "ok": true, "verifies": false}));
            continue;
        }
        let recs = match records_of(&op["rrs"]) {
            Ok(r) => r,
            Err(e) => return json!({"bad_rrs": e}),
        };
        let sorted: SortedRecords<SName, SData> = SortedRecords::from(recs.clone());
        let rrset = match sorted.rrsets().next() {
            Some(r) => r,
            None => return json!({"bad_rrs": "empty"}),
        };
        let fails = op["fails"] == true;
        *rk.raw_secret_key().fail_next.lock().unwrap() = fails;
        let res = sign_sorted_rrset_in(&rk, &rrset, inc, exp, &mut scratch);
        let handed = rk.raw_secret_key().take().pop().unwrap_or_default();
        let mut verifies = false;
        if let Some((sk, dnskey)) = &real {
            *sk.raw_secret_key().fail_next.lock().unwrap() = fails;
            if let Ok(rr) = sign_sorted_rrset_in(sk, &rrset, inc, exp, &mut scratch_real) {
                let mut b: Vec<u8> = vec![];
                let _ = rr.data().signed_data(&mut b, &mut recs.clone()[..]);
                verifies = rr.data().verify_signed_data(dnskey, &b).is_ok();
            }
        } else {
            verifies = res.is_ok();
        }
        steps.push(json!({"handed": jbytes(&handed), "ok": res.is_ok(), "verifies": verifies}));
    }
    json!({"steps": steps})
}

/// A published verification vector: the model supplies the signed octets,
/// the library must rebuild the same and judge the published signature.
fn vector_case(input: &Value) -> Value {
    let key = RecKey::of_json(&input["key"]).dnskey;
    let mut recs = match records_of(&input["rrs"]) {
        Ok(r) => r,
        Err(e) => return json!({"bad_rrs": e}),
    };
    let s = &input["sig"];
    let rrsig: SRrsig = Rrsig::new(
        rtype(s["tc"].as_u64().unwrap() as u16),
        SecurityAlgorithm::from_int(s["alg"].as_u64().unwrap() as u8),
        s["labels"].as_u64().unwrap() as u8,
        ttl(s["ottl"].as_u64().unwrap() as u32),
        ts(&s["exp"]),
        ts(&s["inc"]),
        s["tag"].as_u64().unwrap() as u16,
        name_of(&s["signer"]),
        Bytes::from(bytes_of(&input["signature"])),
    )
    .expect("rrsig");
    let mut b: Vec<u8> = vec![];
    if rrsig.signed_data(&mut b, &mut recs[..]).is_err() {
        return json!({"signed_data_error": true});
    }
    let model = bytes_of(&input["data"]);
    json!({"data_ok": b == model, "verify": rrsig.verify_signed_data(&key, &model).is_ok()})
}

fn keytag_case(input: &Value) -> Value {
    let k = RecKey::of_json(&input["key"]);
    let flags = k.dnskey.flags();
    let tag = k.dnskey.key_tag();
    let d = k.dnskey.clone();
    // the flag bits as the signing key and as the DNSKEY record data report them
    let sk = SigningKey::new(name_of(&json!([[101, 120]])), flags, k);
    if sk.is_zone_signing_key() != d.is_zone_key() || sk.is_revoked() != d.is_revoked()
        || sk.is_secure_entry_point() != d.is_secure_entry_point() || sk.dnskey().key_tag() != tag {
        return json!({"signing_key_and_dnskey_disagree": flags});
    }
    json!({"tag": tag, "flags": sk.flags(), "zone": sk.is_zone_signing_key(),
           "revoked": sk.is_revoked(), "sep": sk.is_secure_entry_point()})
}

/// DnskeyExt::key_size: Ok(bits), or -1 for any error.
fn keysize_case(input: &Value) -> Value {
    let k = RecKey::of_json(&input["key"]);
    match k.dnskey.key_size() {
        Ok(n) => json!({"size": n}),
        Err(_) => json!({"size": -1}),
    }
}

/// The validator-side decision to take a DNSKEY as a public key at all
/// (behind verify_signed_data), and - the same decision seen from a caller
/// with the backend's minimum - the RSA decoder.
fn keyaccept_case(input: &Value) -> Value {
    let k = RecKey::of_json(&input["key"]);
    let accept = PublicKey::from_dnskey(&k.dnskey).is_ok();
    // verify_signed_data takes the same decision before it looks at the signature
    let rrsig: SRrsig = Rrsig::new(rtype(1), k.dnskey.algorithm(), 1, ttl(0), Timestamp::from(0), Timestamp::from(0),
                                   k.dnskey.key_tag(), name_of(&json!([])), Bytes::from(vec![0u8; 64])).expect("rrsig");
    let refused = matches!(rrsig.verify_signed_data(&k.dnskey, &b"x".to_vec()),
                           Err(domain::crypto::common::AlgorithmError::InvalidData)
                           | Err(domain::crypto::common::AlgorithmError::Unsupported));
    if accept == refused {
        return json!({"from_dnskey_and_verify_disagree": accept});
    }
    json!({"accept": accept})
}

//------------ the signer's input routes (MC_SignerInput.tla) ---------------------

/// records of the collection model: [{n, t, ttl, rd}] with opaque RDATA, class IN
fn sr_records(v: &Value) -> Result<Vec<SRecord>, String> {
    let w: Vec<RrW> = v.as_array().map(|a| a.iter().map(|r| RrW {
        owner: name_wire(&r["n"]),
        rtype: r["t"].as_u64().unwrap_or(0) as u16,
        class: 1,
        ttl: r["ttl"].as_u64().unwrap_or(0) as u32,
        rdata: bytes_of(&r["rd"]),
    }).collect()).unwrap_or_default();
    parse_records(message_of(&w))
}

fn sr_json(r: &SRecord) -> Value {
    let mut rd: Vec<u8> = vec![];
    let _ = r.data().compose_canonical_rdata(&mut rd);
    json!({"n": jname_lower(r.owner()), "t": r.rtype().to_int(), "ttl": r.ttl().as_secs(), "rd": jbytes(&rd)})
}

/// Performs the ops; returns the collection and, per op, Ok/refused and the
/// content as the collection hands it out.
fn build_coll(ops: &Value) -> Result<(Coll, Vec<Value>), String> {
    let mut coll: Coll = SortedRecords::default();
    let mut steps = vec![];
    for op in ops.as_array().cloned().unwrap_or_default() {
        let recs = sr_records(&op["recs"])?;
        let mut ok = true;
        match op["op"].as_str().unwrap_or("") {
            "insert" => {
                for r in recs {
                    ok &= coll.insert(r).is_ok();
                }
            }
            "from" => coll = SortedRecords::from(recs),
            "collect" => coll = recs.into_iter().collect(),
            "extend" => coll.extend(recs),
            o @ ("remove_first" | "remove_all") => {
                let name = name_of(&op["name"]);
                let t = op["t"].as_u64().unwrap_or(0) as u16;
                // an owner and Some(type), or the owner alone
                let (class, rt) = if t == 0 { (None, None) } else { (Some(Class::IN), Some(rtype(t))) };
                ok = if o == "remove_first" {
                    coll.remove_first_by_name_class_rtype(&name, class, rt)
                } else {
                    coll.remove_all_by_name_class_rtype(&name, class, rt)
                };
            }
            "update" => {
                let [old, new] = &recs[..] else { return Err("update wants the old and the new record".into()) };
                coll.update_data(|r| r.owner().name_eq(old.owner()) && r.rtype() == old.rtype() && r.data() == old.data(),
                                 new.data().clone());
            }
            o => return Err(format!("op {o}")),
        }
        steps.push(json!({"ok": ok, "after": coll.iter().map(sr_json).collect::<Vec<_>>()}));
    }
    Ok((coll, steps))
}


fn sinput_case(input: &Value, reals: &[RealKey]) -> Value {
    let apex = name_of(&input["apex"]);
    let key_owner = name_of(&input["keyOwner"]);
    let flags = input["key"]["flags"].as_u64().unwrap_or(0) as u16;
    let (inc, exp) = (ts(&input["inc"]), ts(&input["exp"]));
    let (coll, steps) = match build_coll(&input["ops"]) {
        Ok(x) => x,
        Err(e) => return json!({"bad_ops": e}),
    };
    let mut slices = vec![];
    for sl in input["slices"].as_array().cloned().unwrap_or_default() {
        match sr_records(&sl) {
            Ok(r) => slices.push(r),
            Err(e) => return json!({"bad_slice": e}),
        }
    }
    // (i) a recording key: what every entry point hands to sign_raw, per RRset
    // of the zone (the RRsets signing itself generated - NSEC, NSEC3,
    // NSEC3PARAM - are C13's and X07's subject)
    let rk = SigningKey::new(key_owner.clone(), flags, RecKey::of_json(&input["key"]));
    let mut entries = serde_json::Map::new();
    let mut rrsets = vec![];
    let mut made: Vec<SRrsig> = vec![];
    for e in ENTRIES {
        let all = match build_coll(&input["ops"]).and_then(|(c, _)| run_entry(e, c, &slices, &apex, &rk, inc, exp)) {
            Ok(a) => a,
            Err(err) => return json!({"entry_error": format!("{e}: {err}")}),
        };
        let bufs: Vec<Vec<u8>> = rk.raw_secret_key().take().into_iter()
            .filter(|b| b.len() < 2 || !matches!(u16::from_be_bytes([b[0], b[1]]), 47 | 50 | 51))
            .collect();
        if e == "rrsets_sorted_in" {
            let sigs: Vec<&SRecord> = all.iter().filter(|r| matches!(r.data(), ZoneRecordData::Rrsig(_))).collect();
            for (i, rrset) in coll.rrsets().enumerate() {
                let Some(ZoneRecordData::Rrsig(sig)) = sigs.get(i).map(|r| r.data()) else {
                    return json!({"entry_error": "fewer RRSIGs than RRsets"});
                };
                made.push(sig.clone());
                rrsets.push(json!({"n": jname_lower(rrset.owner()), "t": rrset.rtype().to_int(), "len": rrset.len(),
                                   "sig0": sig_fields(sig), "handed": jbytes(bufs.get(i).map(|b| &b[..]).unwrap_or(&[]))}));
            }
        }
        entries.insert(e.to_string(), Value::Array(bufs.iter().map(|b| jbytes(b)).collect()));
    }
    // the validator's side: signed_data of each RRSIG over the caller's own
    // records of the RRset, last arrival first
    let mut vbufs = vec![];
    for (i, sig) in made.iter().enumerate() {
        let mut recs: Vec<SRecord> = slices.get(i).cloned().unwrap_or_default();
        recs.reverse();
        let mut b: Vec<u8> = vec![];
        if sig.signed_data(&mut b, &mut recs[..]).is_err() {
            return json!({"entry_error": format!("signed_data refuses RRset {i}")});
        }
        vbufs.push(jbytes(&b));
    }
    entries.insert("validator".to_string(), Value::Array(vbufs));
    // (ii) a real key: every RRSIG of every entry point verifies over its RRset in any order
    let alg = input["key"]["alg"].as_u64().unwrap_or(15) as u8;
    let publen = input["key"]["pub"].as_array().map(|a| a.len()).unwrap_or(0);
    let Some(real) = realkeys::for_model(reals, alg, publen) else {
        return json!({"no_real_key_of_algorithm": alg});
    };
    let dnskey = real.dnskey(flags);
    let pair = match real.pair("direct", flags) {
        Ok(p) => p,
        Err(e) => return json!({"key_error": e}),
    };
    let sk = SigningKey::new(key_owner.clone(), flags, pair);
    let mut verify = Value::Bool(true);
    for e in ENTRIES {
        let r = build_coll(&input["ops"]).and_then(|(c, _)| run_entry(e, c, &slices, &apex, &sk, inc, exp))
            .and_then(|all| all_verify(&all, &dnskey));
        match r {
            Ok(n) if n >= rrsets.len() => {}
            Ok(n) => { verify = json!(format!("{e}: only {n} RRSIGs")); break; }
            Err(err) => { verify = json!(format!("{e}: {err}")); break; }
        }
    }
    json!({"steps": steps, "rrsets": rrsets, "entries": entries, "verify": verify})
}

/// MC_SignedOrder.tla: an RRset derived from the layout table reaches the
/// signer (sign_rrset on the caller's slice, sign_sorted_rrset_in on
/// From<Vec> and collect()ed collections, sign_sorted_zone_records on a zone
/// holding it) and the validator (signed_data) in the case's arrival order.
/// Observed: the octets handed to sign_raw / rebuilt, the order in which the
/// collection stores the records, and two real Ed25519 signatures: one made
/// here over the octets of the RFC construction (a foreign signer) checked
/// through signed_data + verify_signed_data, one made by the library checked
/// against the RFC construction's octets.
fn order_case(input: &Value, reals: &[RealKey]) -> Value {
    let recs = match records_of(&input["rrs"]) {
        Ok(r) => r,
        Err(e) => return json!({"bad_rrs": e}),
    };
    let soa = match records_of(&json!([input["soa"].clone()])) {
        Ok(r) => r,
        Err(e) => return json!({"bad_soa": e}),
    };
    let key_owner = name_of(&input["keyOwner"]);
    let apex = name_of(&input["apex"]);
    let flags = input["key"]["flags"].as_u64().unwrap_or(0) as u16;
    let (inc, exp) = (ts(&input["inc"]), ts(&input["exp"]));
    let rk = SigningKey::new(key_owner.clone(), flags, RecKey::of_json(&input["key"]));
    let (ra, rb) = match sign_both(&rk, &recs, inc, exp) {
        Ok(x) => x,
        Err(e) => return json!({"sign_error": e}),
    };
    let rc = match sign_collected(&rk, &recs, inc, exp) {
        Ok(x) => x,
        Err(e) => return json!({"sign_error": e}),
    };
    let bufs = rk.raw_secret_key().take();
    if bufs.len() != 3 || bufs[0] != bufs[1] || bufs[0] != bufs[2] || ra.data() != rb.data() || ra.data() != rc.data() {
        return json!({"entry_points_disagree": bufs.iter().map(|b| jbytes(b)).collect::<Vec<_>>()});
    }
    // the zone signer on a collection that received the records in this order
    let mut zone_recs = recs.clone();
    zone_recs.extend(soa.iter().cloned());
    let mut coll: Coll = SortedRecords::default();
    for r in zone_recs {
        if coll.insert(r).is_err() {
            return json!({"insert_refused": true});
        }
    }
    let code = recs[0].rtype();
    let stored: Vec<Value> = coll.iter().filter(|r| r.rtype() == code && r.owner().name_eq(recs[0].owner()))
        .map(|r| { let mut rd: Vec<u8> = vec![]; let _ = r.data().compose_canonical_rdata(&mut rd); jbytes(&rd) }).collect();
    if let Err(e) = run_entry("zone_records", coll, &[], &apex, &rk, inc, exp) {
        return json!({"entry_error": e});
    }
    // (of this RRset: the RR owner follows the RRSIG fields and the signer name)
    let zprefix = 18 + key_owner.as_slice().len();
    let lower_owner: Vec<u8> = recs[0].owner().as_slice().iter().map(|b| b.to_ascii_lowercase()).collect();
    let zone: Vec<Vec<u8>> = rk.raw_secret_key().take().into_iter()
        .filter(|b| b.len() >= 2 && u16::from_be_bytes([b[0], b[1]]) == code.to_int())
        .filter(|b| b.get(zprefix..zprefix + lower_owner.len()) == Some(&lower_owner[..]))
        .collect();
    if zone.len() > 1 {
        return json!({"zone_signed_twice": zone.len()});
    }
    // the validator
    let mut vbuf: Vec<u8> = vec![];
    if ra.data().signed_data(&mut vbuf, &mut recs.clone()[..]).is_err() {
        return json!({"signed_data_error": true});
    }
    // real signatures
    let Some(real) = realkeys::for_model(reals, 15, 32) else {
        return json!({"no_real_key_of_algorithm": 15});
    };
    let dnskey = real.dnskey(flags);
    let pair = match real.pair("direct", flags) {
        Ok(p) => p,
        Err(e) => return json!({"key_error": e}),
    };
    let foreign_data = bytes_of(&input["foreign"]);
    let sk = SigningKey::new(key_owner.clone(), flags, pair);
    let own = match sign_rrset(&sk, &Rrset::new_from_owned(&recs).expect("rrset"), inc, exp) {
        Ok(x) => x,
        Err(e) => return json!({"sign_error": format!("{e}")}),
    };
    // (the signed octets begin with the RRSIG fields, key tag included: a
    // foreign signer of this key signs the same prefix with the real tag)
    let mut own_buf: Vec<u8> = vec![];
    let _ = own.data().signed_data(&mut own_buf, &mut recs.clone()[..]);
    let prefix_len = 18 + key_owner.as_slice().len();
    if foreign_data.len() < prefix_len || own_buf.len() < prefix_len {
        return json!({"short_signed_data": true});
    }
    let mut fdata = own_buf[..prefix_len].to_vec();
    fdata.extend_from_slice(&foreign_data[prefix_len..]);
    let own_verifies_rfc = own.data().verify_signed_data(&dnskey, &fdata).is_ok();
    let fsig = match sk.raw_secret_key().sign_raw(&fdata) {
        Ok(s) => s,
        Err(_) => return json!({"foreign_sign_error": true}),
    };
    let o = own.data();
    let frr: SRrsig = Rrsig::new(o.type_covered(), o.algorithm(), o.labels(), o.original_ttl(), o.expiration(),
                                 o.inception(), o.key_tag(), o.signer_name().clone(),
                                 Bytes::copy_from_slice(fsig.as_ref())).expect("rrsig");
    let mut rev = recs.clone();
    rev.reverse();
    let mut fb: Vec<u8> = vec![];
    let foreign_verifies = frr.signed_data(&mut fb, &mut rev[..]).is_ok() && frr.verify_signed_data(&dnskey, &fb).is_ok();
    json!({
        "sig0": sig_fields(ra.data()),
        "signer": jbytes(&bufs[0]),
        "zone": jbytes(zone.first().map(|b| &b[..]).unwrap_or(&[])),
        "validator": jbytes(&vbuf),
        "stored": stored,
        "foreign_verifies": foreign_verifies,
        "own_verifies_rfc": own_verifies_rfc,
    })
}

/// RFC 3110 layout: rsa_encode builds the public key field from exponent and
/// modulus, rsa_exponent_modulus splits it again (refusing moduli shorter
/// than the caller's minimum); the verifier takes the same key apart.
fn rsa_case(input: &Value) -> Value {
    let (e, n) = (bytes_of(&input["e"]), bytes_of(&input["n"]));
    let min = input["min"].as_u64().unwrap_or(0) as usize;
    let public = rsa_encode(&e, &n);
    let key = Dnskey::new(256, 3, SecurityAlgorithm::RSASHA256, public.clone()).expect("dnskey");
    match rsa_exponent_modulus(&key, min) {
        Ok((e2, n2)) => json!({"pub": jbytes(&public), "e": jbytes(&e2), "n": jbytes(&n2), "ok": true}),
        Err(_) => {
            // too short for this caller: the parts as a caller without a minimum sees them
            match rsa_exponent_modulus(&key, 0) {
                Ok((e2, n2)) => json!({"pub": jbytes(&public), "e": jbytes(&e2), "n": jbytes(&n2), "ok": false}),
                Err(_) => json!({"pub": jbytes(&public), "malformed": true}),
            }
        }
    }
}

/// Which algorithm numbers the backend verifies / signs with, and that the
/// validator only claims support for algorithms it can verify.
fn alg_case(input: &Value, reals: &[RealKey]) -> Value {
    let x = input["alg"].as_u64().unwrap_or(0) as u8;
    let alg = SecurityAlgorithm::from_int(x);
    let key = Dnskey::new(256, 3, alg, bytes_of(&input["pub"])).expect("dnskey");
    let verifiable = !matches!(PublicKey::from_dnskey(&key),
                               Err(domain::crypto::common::AlgorithmError::Unsupported));
    // signable: there is a way to obtain a key pair of this algorithm that signs
    let mut signable = false;
    for r in reals.iter().filter(|r| r.alg == x) {
        for route in ["direct", "bind"] {
            match r.pair(route, 256) {
                Ok(p) => {
                    let sig = p.sign_raw(b"probe");
                    match sig {
                        Ok(s) if s.algorithm() == alg && p.algorithm() == alg && r.direct.algorithm() == alg
                            && r.bind.algorithm() == alg => signable = true,
                        _ => return json!({"key_pair_of_algorithm_does_not_sign": x}),
                    }
                }
                Err(_) => {}
            }
        }
    }
    for p in [GenerateParams::RsaSha256 { bits: 2048 }, GenerateParams::RsaSha512 { bits: 2048 },
              GenerateParams::EcdsaP256Sha256, GenerateParams::EcdsaP384Sha384, GenerateParams::Ed25519,
              GenerateParams::Ed448] {
        if p.algorithm() == alg {
            if let Ok((s, d)) = generate(&p, 257) {
                if s.algorithm() != alg || d.algorithm() != alg || KeyPair::from_bytes(&s, &d).is_err() {
                    return json!({"generated_key_unusable": x});
                }
                signable = true;
            }
        }
    }
    json!({"verifiable": verifiable, "signable": signable,
           "claim_sound": !supported_algorithm(&alg) || verifiable})
}

fn ds_case(input: &Value) -> Value {
    let k = RecKey::of_json(&input["key"]);
    let owner = name_of(&input["owner"]);
    let alg = DigestAlgorithm::from_int(input["dt"].as_u64().unwrap_or(0) as u8);
    let want = eval_term(&input["term"]);
    match k.dnskey.digest(&owner, alg) {
        Ok(d) => {
            if d.as_ref() == &want[..] {
                json!({"match": true})
            } else {
                json!({"match": false, "lib": jbytes(d.as_ref()), "term": jbytes(&want)})
            }
        }
        Err(_) => json!({"err": true}),
    }
}

fn main() {
    let _ = SecurityAlgorithm::ED25519;
    let cell: std::cell::OnceCell<Vec<RealKey>> = std::cell::OnceCell::new();
    let reals = || -> &[RealKey] {
        cell.get_or_init(|| {
            realkeys::all().unwrap_or_else(|e| {
                eprintln!("replay_dnssec: no real keys: {e}");
                std::process::exit(2)
            })
        })
    };
    run_cases(|input| match input["kind"].as_str() {
        Some("rrsig") => rrsig_case(input, reals()),
        Some("signer") => signer_case(input, reals()),
        Some("vector") => vector_case(input),
        Some("keytag") => keytag_case(input),
        Some("keysize") => keysize_case(input),
        Some("rsa") => rsa_case(input),
        Some("keyaccept") => keyaccept_case(input),
        Some("sinput") => sinput_case(input, reals()),
        Some("order") => order_case(input, reals()),
        Some("alg") => alg_case(input, reals()),
        Some("ds") => ds_case(input),
        Some("nsec") => denial::nsec_case(input),
        Some("nsec3") => denial::nsec3_case(input),
        Some("bitmap") => denial::bitmap_case(input),
        Some("zonebuild") => denial::zonebuild_case(input),
        _ => json!({"bad_case": true}),
    });
}
