//! S->I executor for Rrsig.tla (C12) and Denial.tla (C13) cases.
#[path = "../dnssec.rs"]
mod dnssec;

use bytes::Bytes;
use dnssec::*;
use dnssec::denial;
use domain::base::iana::{DigestAlgorithm, SecurityAlgorithm};
use domain::base::name::ToName;
use domain::base::Record;
use domain::crypto::sign::{generate, GenerateParams, KeyPair, SecretKeyBytes, SignRaw};
use domain::dnssec::sign::keys::signingkey::SigningKey;
use domain::dnssec::sign::records::{Rrset, SortedRecords};
use domain::dnssec::sign::signatures::rrsigs::{sign_rrset, sign_sorted_rrset_in};
use domain::dnssec::validator::base::{DnskeyExt, RrsigExt};
use domain::rdata::dnssec::Timestamp;
use domain::rdata::{Dnskey, Rrsig};
use serde_json::{json, Value};
use verif_harness::common::run_cases;


fn ts(v: &Value) -> Timestamp {
    let b = bytes_of(v);
    Timestamp::from(u32::from_be_bytes([b[0], b[1], b[2], b[3]]))
}

fn jts(t: Timestamp) -> Value {
    jbytes(&t.into_int().to_be_bytes())
}

fn sig_fields(r: &SRrsig) -> Value {
    json!({
        "tc": r.type_covered().to_int(),
        "alg": r.algorithm().to_int(),
        "labels": r.labels(),
        "ottl": r.original_ttl().as_secs(),
        "exp": jts(r.expiration()),
        "inc": jts(r.inception()),
        "tag": r.key_tag(),
        "signer": jname(r.signer_name()),
    })
}

/// Sign through both entry points; returns the RRSIG record and the buffers
/// each entry point handed to the key.
fn sign_both<K: SignRaw + std::fmt::Debug>(
    key: &SigningKey<Bytes, K>,
    recs: &[SRecord],
    inc: Timestamp,
    exp: Timestamp,
) -> Result<(Record<SName, SRrsig>, Record<SName, SRrsig>), String> {
    let rrset = Rrset::new_from_owned(recs).map_err(|e| format!("{e}"))?;
    let a = sign_rrset(key, &rrset, inc, exp).map_err(|e| format!("{e}"))?;
    let sorted: SortedRecords<SName, SData> = SortedRecords::from(recs.to_vec());
    let rrset2 = sorted.rrsets().next().ok_or("no rrset")?;
    let mut scratch = vec![];
    let b = sign_sorted_rrset_in(key, &rrset2, inc, exp, &mut scratch)
        .map_err(|e| format!("{e}"))?;
    Ok((a, b))
}

struct RealKey {
    secret: SecretKeyBytes,
    public: Dnskey<Vec<u8>>,
}

fn real_keys() -> Vec<RealKey> {
    let mut out = vec![];
    for p in [GenerateParams::Ed25519, GenerateParams::EcdsaP256Sha256] {
        if let Ok((secret, public)) = generate(&p, 256) {
            out.push(RealKey { secret, public });
        }
    }
    out
}

fn altered_rrsig(base: &SRrsig, input: &Value, tag_changed: bool, flip: bool) -> SRrsig {
    let s = &input["sig"];
    let mut sigoct = base.signature().to_vec();
    if flip {
        let n = sigoct.len();
        sigoct[n / 2] ^= 0x10;
    }
    Rrsig::new(
        rtype(s["tc"].as_u64().unwrap() as u16),
        base.algorithm(),
        s["labels"].as_u64().unwrap() as u8,
        ttl(s["ottl"].as_u64().unwrap() as u32),
        ts(&s["exp"]),
        ts(&s["inc"]),
        if tag_changed { base.key_tag().wrapping_add(1) } else { base.key_tag() },
        name_of(&s["signer"]),
        Bytes::from(sigoct),
    )
    .expect("rrsig")
}

fn rrsig_case(input: &Value, reals: &[RealKey]) -> Value {
    let orig = match records_of(&input["orig"]) {
        Ok(r) => r,
        Err(e) => return json!({"bad_orig": e}),
    };
    let mut cur = match records_of(&input["cur"]) {
        Ok(r) => r,
        Err(e) => return json!({"bad_cur": e}),
    };
    if input["compress"] == true {
        cur = match compress_roundtrip(&cur) {
            Ok(r) => r,
            Err(e) => return json!({"bad_compress": e}),
        };
    }
    let key_owner = name_of(&input["keyOwner"]);
    let flags = input["key"]["flags"].as_u64().unwrap_or(0) as u16;
    let (inc, exp) = (ts(&input["inc"]), ts(&input["exp"]));

    // (i) recording key: the octets
    let rk = SigningKey::new(key_owner.clone(), flags, RecKey::of_json(&input["key"]));
    let (ra, rb) = match sign_both(&rk, &orig, inc, exp) {
        Ok(x) => x,
        Err(e) => return json!({"sign_error": e}),
    };
    let bufs = rk.raw_secret_key().take();
    if bufs.len() != 2 || bufs[0] != bufs[1] || ra.data() != rb.data() {
        return json!({"entry_points_disagree": bufs.iter().map(|b| jbytes(b)).collect::<Vec<_>>()});
    }
    // RFC 4035 2.2: owner, class and TTL of the RRSIG RR are the RRset's
    if ra.owner() != orig[0].owner() || ra.class() != orig[0].class() || ra.ttl() != orig[0].ttl() {
        return json!({"rrsig_rr_header_wrong": true});
    }
    let tag_changed = input["sig"]["tag"] != input["sig0"]["tag"];
    let conv = input["conv"].as_str().unwrap_or("none");
    let rsig = altered_rrsig(ra.data(), input, tag_changed, false);
    let (cur, rsig) = match convert(conv, &cur, &rsig) {
        Ok(x) => x,
        Err(e) => return json!({"conversion_changed_value": e}),
    };
    let mut vbuf: Vec<u8> = vec![];
    if rsig.signed_data(&mut vbuf, &mut cur.clone()[..]).is_err() {
        return json!({"signed_data_error": true});
    }

    // (ii) real keys: the verdict
    let mut verdicts = vec![];
    for rk in reals {
        let dnskey = Dnskey::new(flags, 3, rk.public.algorithm(), rk.public.public_key().clone())
            .expect("dnskey");
        let pair = match KeyPair::from_bytes(&rk.secret, &dnskey) {
            Ok(p) => p,
            Err(e) => return json!({"key_error": format!("{e}")}),
        };
        let sk = SigningKey::new(key_owner.clone(), flags, pair);
        let (sa, sb) = match sign_both(&sk, &orig, inc, exp) {
            Ok(x) => x,
            Err(e) => return json!({"sign_error": e}),
        };
        // both entry points produce signatures over the same data: each
        // verifies against the validator's reconstruction of the original
        for s in [&sa, &sb] {
            let mut b: Vec<u8> = vec![];
            let _ = s.data().signed_data(&mut b, &mut orig.clone()[..]);
            if s.data().verify_signed_data(&dnskey, &b).is_err() {
                return json!({"fresh_signature_does_not_verify": rk.public.algorithm().to_int()});
            }
        }
        let asig = altered_rrsig(sa.data(), input, tag_changed, input["sigflip"] == true);
        let asig = match convert(conv, &cur, &asig) {
            Ok(x) => x.1,
            Err(e) => return json!({"conversion_changed_value": e}),
        };
        let dnskey = match convert_dnskey(conv, &dnskey) {
            Ok(k) => k,
            Err(e) => return json!({"conversion_changed_value": e}),
        };
        let mut b: Vec<u8> = vec![];
        if asig.signed_data(&mut b, &mut cur.clone()[..]).is_err() {
            return json!({"signed_data_error": true});
        }
        let vkey = if input["keyflip"] == true {
            let mut p = dnskey.public_key().clone();
            let n = p.len();
            p[n / 3] ^= 0x04;
            Dnskey::new(flags, 3, dnskey.algorithm(), p).expect("dnskey")
        } else {
            dnskey.clone()
        };
        verdicts.push(asig.verify_signed_data(&vkey, &b).is_ok());
    }
    let verify = if verdicts.is_empty() {
        json!("no_real_keys")
    } else if verdicts.iter().all(|v| *v == verdicts[0]) {
        json!(verdicts[0])
    } else {
        json!({"algorithms_disagree": verdicts})
    };
    json!({
        "sig0": sig_fields(ra.data()),
        "signer": jbytes(&bufs[0]),
        "validator": jbytes(&vbuf),
        "verify": verify,
    })
}

/// The signer as a machine: a caller-owned scratch buffer re-used across
/// calls of sign_sorted_rrset_in, with failing backends and a buffer that is
/// not empty on entry.  Per op: the octets handed to sign_raw, Ok/Err, and
/// whether a signature made by a real key in the same situation verifies.
fn signer_case(input: &Value, reals: &[RealKey]) -> Value {
    let key_owner = name_of(&input["keyOwner"]);
    let flags = input["key"]["flags"].as_u64().unwrap_or(0) as u16;
    let (inc, exp) = (ts(&input["inc"]), ts(&input["exp"]));
    let rk = SigningKey::new(key_owner.clone(), flags, RecKey::of_json(&input["key"]));
    let real = reals.first().and_then(|r| {
        let dnskey = Dnskey::new(flags, 3, r.public.algorithm(), r.public.public_key().clone()).ok()?;
        let pair = KeyPair::from_bytes(&r.secret, &dnskey).ok()?;
        Some((SigningKey::new(key_owner.clone(), flags,
                              FlakyKey { inner: pair, fail_next: std::sync::Mutex::new(false) }), dnskey))
    });
    let mut scratch: Vec<u8> = vec![];
    let mut scratch_real: Vec<u8> = vec![];
    let mut steps = vec![];
    for op in input["ops"].as_array().cloned().unwrap_or_default() {
        if op["op"] == "scratch" {
            scratch = bytes_of(&op["junk"]);
            scratch_real = scratch.clone();
            steps.push(json!({"handed": [], "ok": true, "verifies": false}));
            continue;
        }
        let recs = match records_of(&op["rrs"]) {
            Ok(r) => r,
            Err(e) => return json!({"bad_rrs": e}),
        };
        let sorted: SortedRecords<SName, SData> = SortedRecords::from(recs.clone());
        let rrset = match sorted.rrsets().next() {
            Some(r) => r,
            None => return json!({"bad_rrs": "empty"}),
        };
        let fails = op["fails"] == true;
        *rk.raw_secret_key().fail_next.lock().unwrap() = fails;
        let res = sign_sorted_rrset_in(&rk, &rrset, inc, exp, &mut scratch);
        let handed = rk.raw_secret_key().take().pop().unwrap_or_default();
        let mut verifies = false;
        if let Some((sk, dnskey)) = &real {
            *sk.raw_secret_key().fail_next.lock().unwrap() = fails;
            if let Ok(rr) = sign_sorted_rrset_in(sk, &rrset, inc, exp, &mut scratch_real) {
                let mut b: Vec<u8> = vec![];
                let _ = rr.data().signed_data(&mut b, &mut recs.clone()[..]);
                verifies = rr.data().verify_signed_data(dnskey, &b).is_ok();
            }
        } else {
            verifies = res.is_ok();
        }
        steps.push(json!({"handed": jbytes(&handed), "ok": res.is_ok(), "verifies": verifies}));
    }
    json!({"steps": steps})
}

/// A published verification vector: the model supplies the signed octets,
/// the library must rebuild the same and judge the published signature.
fn vector_case(input: &Value) -> Value {
    let key = RecKey::of_json(&input["key"]).dnskey;
    let mut recs = match records_of(&input["rrs"]) {
        Ok(r) => r,
        Err(e) => return json!({"bad_rrs": e}),
    };
    let s = &input["sig"];
    let rrsig: SRrsig = Rrsig::new(
        rtype(s["tc"].as_u64().unwrap() as u16),
        SecurityAlgorithm::from_int(s["alg"].as_u64().unwrap() as u8),
        s["labels"].as_u64().unwrap() as u8,
        ttl(s["ottl"].as_u64().unwrap() as u32),
        ts(&s["exp"]),
        ts(&s["inc"]),
        s["tag"].as_u64().unwrap() as u16,
        name_of(&s["signer"]),
        Bytes::from(bytes_of(&input["signature"])),
    )
    .expect("rrsig");
    let mut b: Vec<u8> = vec![];
    if rrsig.signed_data(&mut b, &mut recs[..]).is_err() {
        return json!({"signed_data_error": true});
    }
    let model = bytes_of(&input["data"]);
    json!({"data_ok": b == model, "verify": rrsig.verify_signed_data(&key, &model).is_ok()})
}

fn keytag_case(input: &Value) -> Value {
    let k = RecKey::of_json(&input["key"]);
    json!({"tag": k.dnskey.key_tag()})
}

fn ds_case(input: &Value) -> Value {
    let k = RecKey::of_json(&input["key"]);
    let owner = name_of(&input["owner"]);
    let alg = DigestAlgorithm::from_int(input["dt"].as_u64().unwrap_or(0) as u8);
    let want = eval_term(&input["term"]);
    match k.dnskey.digest(&owner, alg) {
        Ok(d) => {
            if d.as_ref() == &want[..] {
                json!({"match": true})
            } else {
                json!({"match": false, "lib": jbytes(d.as_ref()), "term": jbytes(&want)})
            }
        }
        Err(_) => json!({"err": true}),
    }
}

fn main() {
    let _ = SecurityAlgorithm::ED25519;
    let reals = real_keys();
    run_cases(|input| match input["kind"].as_str() {
        Some("rrsig") => rrsig_case(input, &reals),
        Some("signer") => signer_case(input, &reals),
        Some("vector") => vector_case(input),
        Some("keytag") => keytag_case(input),
        Some("ds") => ds_case(input),
        Some("nsec") => denial::nsec_case(input),
        Some("nsec3") => denial::nsec3_case(input),
        Some("bitmap") => denial::bitmap_case(input),
        Some("zonebuild") => denial::zonebuild_case(input),
        _ => json!({"bad_case": true}),
    });
}
