//! C19: the same octets read by the established codec and by the new API
//! (`domain::new`), item by item and as a whole message, in the shape of
//! spec/Wire.tla `CodecView`.
use crate::wire::*;
use domain::base::name::ParsedName;
use domain::base::{Message, ParsedRecord, Question};
use domain::new::base::name::{NameBuf, RevNameBuf};
use domain::new::base::parse::{MessageParser, SplitMessageBytes};
use domain::new::base::wire::AsBytes;
use domain::new::base::{MessageItem, UnparsedRecordData};
use domain::new::rdata::RecordData;
use domain::rdata::AllRecordData;
use octseq::Parser;
use serde_json::{json, Value};
use verif_harness::common::*;

fn fail() -> Value {
    json!({"ok": false, "und": false, "item": [], "next": 0})
}
fn und() -> Value {
    json!({"ok": false, "und": true, "item": [], "next": 0})
}
fn okv(item: Value, next: usize) -> Value {
    json!({"ok": true, "und": false, "item": item, "next": next})
}
fn kind(t: u16) -> &'static str {
    match t {
        2 | 5 | 12 | 15 | 6 => "names",
        41 => "opt",
        1 | 28 => "fixed",
        65280..=65534 => "raw",
        _ => "opaque",
    }
}

//------------ established codec ---------------------------------------------------

fn old_parser<'a>(m: &'a &'a [u8], start: usize) -> Option<Parser<'a, &'a [u8]>> {
    let mut p = Parser::from_ref(m);
    p.advance(start).ok()?;
    Some(p)
}

fn old_record_item(rec: &ParsedRecord<'_, &[u8]>) -> Result<Option<Value>, ()> {
    let t = rec.rtype().to_int();
    if kind(t) == "opaque" {
        let _ = rec.to_any_record::<AllRecordData<_, ParsedName<_>>>().is_ok();
        return Ok(None);
    }
    let rd = old_rd(rec);
    if rd["ok"] != json!(true) {
        return Err(());
    }
    let ttl = rec.ttl().as_secs();
    Ok(Some(json!([labels_json(rec.owner().iter()), t, rec.class().to_int(), (ttl >> 16) as u16,
                   (ttl & 0xFFFF) as u16, rd["names"], rd["opts"]])))
}

pub fn old_view(m: &[u8], starts: &[usize]) -> Value {
    let mref: &[u8] = m;
    let mut names = vec![];
    let mut qs = vec![];
    let mut rs = vec![];
    for &s in starts {
        names.push(match old_parser(&mref, s) {
            Some(mut p) => match ParsedName::parse(&mut p) {
                Ok(n) => okv(json!([use_name(&n)]), p.pos()),
                Err(_) => fail(),
            },
            None => fail(),
        });
        qs.push(match old_parser(&mref, s) {
            Some(mut p) => match Question::parse(&mut p) {
                Ok(q) => okv(json!([use_name(q.qname()), q.qtype().to_int(), q.qclass().to_int()]), p.pos()),
                Err(_) => fail(),
            },
            None => fail(),
        });
        rs.push(match old_parser(&mref, s) {
            Some(mut p) => match ParsedRecord::parse(&mut p) {
                Ok(rec) => match old_record_item(&rec) {
                    Ok(Some(item)) => okv(item, p.pos()),
                    Ok(None) => und(),
                    Err(()) => fail(),
                },
                Err(_) => fail(),
            },
            None => fail(),
        });
    }
    json!({"names": names, "qs": qs, "rs": rs, "msg": old_msg_view(m)})
}

/// the new API's flattened view, computed with the established iterators
fn old_msg_view(m: &[u8]) -> Value {
    let msg = match Message::from_octets(m) {
        Ok(x) => x,
        Err(_) => return json!({"items": [], "end": "short"}),
    };
    let mut items = vec![];
    let mut q = msg.question();
    for x in &mut q {
        match x {
            Ok(x) => items.push(json!([0, [use_name(x.qname()), x.qtype().to_int(), x.qclass().to_int()]])),
            Err(_) => return json!({"items": items, "end": "err"}),
        }
    }
    let mut sec = match q.next_section() {
        Ok(s) => s,
        Err(_) => return json!({"items": items, "end": "err"}),
    };
    let mut secno = 1;
    loop {
        loop {
            let pos = sec.pos();
            let edns = secno == 3 && m.len() >= pos + 3 && m[pos..pos + 3] == [0, 0, 41];
            match sec.next() {
                None => break,
                Some(Err(_)) => return json!({"items": items, "end": "err"}),
                Some(Ok(rec)) => match old_record_item(&rec) {
                    Ok(Some(item)) => items.push(json!([if edns { 4 } else { secno }, item])),
                    Ok(None) => return json!({"items": items, "end": "und"}),
                    Err(()) => return json!({"items": items, "end": "err"}),
                },
            }
        }
        match sec.next_section() {
            Ok(Some(s)) => {
                sec = s;
                secno += 1;
            }
            Ok(None) => return json!({"items": items, "end": "done"}),
            Err(_) => return json!({"items": items, "end": "err"}),
        }
    }
}

//------------ new codec -----------------------------------------------------------

fn wire_labels(bytes: &[u8]) -> Value {
    // uncompressed wire format, root last
    let mut out = vec![];
    let mut i = 0;
    while i < bytes.len() && bytes[i] != 0 {
        let l = bytes[i] as usize;
        out.push(json_bytes(&bytes[i + 1..i + 1 + l]));
        i += 1 + l;
    }
    Value::Array(out)
}

fn rev_labels(bytes: &[u8]) -> Value {
    // reversed: root first, then the labels from the right
    let mut out = vec![];
    let mut i = 1;
    while i < bytes.len() {
        let l = bytes[i] as usize;
        out.push(json_bytes(&bytes[i + 1..i + 1 + l]));
        i += 1 + l;
    }
    out.reverse();
    Value::Array(out)
}

fn opt_pairs(bytes: &[u8]) -> Value {
    let mut out = vec![];
    let mut i = 0;
    while i + 4 <= bytes.len() {
        let code = u16::from_be_bytes([bytes[i], bytes[i + 1]]);
        let len = u16::from_be_bytes([bytes[i + 2], bytes[i + 3]]) as usize;
        out.push(json!([code, len]));
        i += 4 + len;
    }
    Value::Array(out)
}

type NewRecord<'a> = domain::new::base::Record<RevNameBuf, RecordData<'a, NameBuf>>;

fn new_record_item(r: &NewRecord<'_>) -> Option<Value> {
    let t = r.rtype.code.get();
    if kind(t) == "opaque" {
        return None;
    }
    let mut names = vec![];
    let mut opts = json!([]);
    match &r.rdata {
        RecordData::Ns(d) => names.push(wire_labels(d.server.as_bytes())),
        RecordData::CName(d) => names.push(wire_labels(d.name.as_bytes())),
        RecordData::Ptr(d) => names.push(wire_labels(d.name.as_bytes())),
        RecordData::Mx(d) => names.push(wire_labels(d.exchange.as_bytes())),
        RecordData::Soa(d) => {
            names.push(wire_labels(d.mname.as_bytes()));
            names.push(wire_labels(d.rname.as_bytes()));
        }
        RecordData::Opt(o) => opts = opt_pairs(o.as_bytes()),
        _ => {}
    }
    let ttl = r.ttl.value.get();
    Some(json!([rev_labels(r.rname.as_bytes()), t, r.rclass.code.get(), (ttl >> 16) as u16,
                (ttl & 0xFFFF) as u16, names, opts]))
}

pub fn new_view(m: &[u8], starts: &[usize]) -> Value {
    let mut names = vec![];
    let mut qs = vec![];
    let mut rs = vec![];
    if m.len() < 12 {
        return json!({"names": [], "qs": [], "rs": [], "msg": {"items": [], "end": "short"}});
    }
    let contents = &m[12..];
    for &s in starts {
        let st = s - 12;
        let a = NameBuf::split_message_bytes(contents, st);
        let b = RevNameBuf::split_message_bytes(contents, st);
        names.push(match (a, b) {
            (Ok((n, rest)), Ok((rn, rest2))) => {
                assert_eq!(rest, rest2, "NameBuf and RevNameBuf end at different offsets");
                assert_eq!(wire_labels(n.as_bytes()), rev_labels(rn.as_bytes()), "NameBuf and RevNameBuf differ");
                let _ = format!("{} {:?}", n, rn);
                okv(json!([wire_labels(n.as_bytes())]), rest + 12)
            }
            (Err(_), Err(_)) => fail(),
            _ => json!({"ok": "NameBuf and RevNameBuf disagree"}),
        });
        qs.push(match domain::new::base::Question::<RevNameBuf>::split_message_bytes(contents, st) {
            Ok((q, rest)) => okv(json!([rev_labels(q.qname.as_bytes()), q.qtype.code.get(), q.qclass.code.get()]), rest + 12),
            Err(_) => fail(),
        });
        rs.push(match NewRecord::split_message_bytes(contents, st) {
            Ok((r, rest)) => match new_record_item(&r) {
                Some(item) => okv(item, rest + 12),
                None => und(),
            },
            Err(_) => {
                // undecided when the type is opaque to the spec
                match domain::new::base::Record::<RevNameBuf, &UnparsedRecordData>::split_message_bytes(contents, st) {
                    Ok((r, _)) if kind(r.rtype.code.get()) == "opaque" => und(),
                    _ => fail(),
                }
            }
        });
    }
    json!({"names": names, "qs": qs, "rs": rs, "msg": new_msg_view(m)})
}

fn new_msg_view(m: &[u8]) -> Value {
    let mut p = match MessageParser::new(m) {
        Ok(p) => p,
        Err(_) => return json!({"items": [], "end": "short"}),
    };
    let contents = &m[12..];
    let mut items = vec![];
    loop {
        let off = p.offset();
        match p.next() {
            None => return json!({"items": items, "end": "done"}),
            Some(Ok(item)) => {
                let (tag, rec) = match item {
                    MessageItem::Question(q) => {
                        items.push(json!([0, [rev_labels(q.qname.as_bytes()), q.qtype.code.get(), q.qclass.code.get()]]));
                        continue;
                    }
                    MessageItem::Answer(r) => (1, r),
                    MessageItem::Authority(r) => (2, r),
                    MessageItem::Additional(r) => (3, r),
                    MessageItem::Edns(e) => {
                        let ttlhi = (u16::from(e.ext_rcode) << 8) | u16::from(e.version);
                        let flags = u16::from_be_bytes([e.flags.as_bytes()[0], e.flags.as_bytes()[1]]);
                        let opt: &domain::new::rdata::Opt = *e.data;
                        items.push(json!([4, [[], 41, e.max_udp_payload.get(), ttlhi, flags, [], opt_pairs(opt.as_bytes())]]));
                        continue;
                    }
                };
                match new_record_item(&rec) {
                    Some(v) => items.push(json!([tag, v])),
                    None => return json!({"items": items, "end": "und"}),
                }
            }
            Some(Err(_)) => {
                // an opaque type at the failing offset leaves the verdict open
                let u = domain::new::base::Record::<RevNameBuf, &UnparsedRecordData>::split_message_bytes(contents, off);
                let end = match u {
                    Ok((r, _)) if kind(r.rtype.code.get()) == "opaque" && !items.is_empty() => "und",
                    _ => "err",
                };
                assert!(p.next().is_none(), "new MessageParser not fused after an error");
                return json!({"items": items, "end": end});
            }
        }
    }
}

pub fn codec_view(m: &[u8], starts: &[usize]) -> Value {
    let old = observe(|| old_view(m, starts));
    let new = observe(|| new_view(m, starts));
    let old2 = observe(|| old_view(m, starts));
    let new2 = observe(|| new_view(m, starts));
    let mut o = json!({"agree": old == new, "old": old, "new": new});
    if old2 != o["old"] || new2 != o["new"] {
        o["nonidempotent"] = json!(true);
    }
    o
}
