//! placeholder, filled in below
use serde_json::{json, Value};
pub fn codec_view(_m: &[u8], _starts: &[usize]) -> Value { json!({}) }
