//! C19: the same octets read by the established codec and by the new API
//! (`domain::new`), item by item and as a whole message, in the shape of
//! spec/Wire.tla `CodecView`.
use crate::wire::*;
use domain::base::name::ParsedName;
use domain::base::{Message, ParsedRecord, Question};
use domain::new::base::name::{Name as NewName, NameBuf, RevNameBuf, UnparsedName};
use domain::new::base::parse::{MessageParser, SplitMessageBytes};
use domain::new::base::wire::{AsBytes, ParseBytes, SplitBytes};
use domain::new::base::{MessageItem, UnparsedRecordData};
use domain::new::rdata::RecordData;
use domain::rdata::AllRecordData;
use octseq::Parser;
use serde_json::{json, Value};
use verif_harness::common::*;

fn fail() -> Value {
    json!({"ok": false, "und": false, "item": [], "next": 0})
}
fn und() -> Value {
    json!({"ok": false, "und": true, "item": [], "next": 0})
}
fn okv(item: Value, next: usize) -> Value {
    json!({"ok": true, "und": false, "item": item, "next": next})
}
fn kind(t: u16) -> &'static str {
    match t {
        2 | 5 | 12 | 15 | 6 => "names",
        41 => "opt",
        1 | 28 => "fixed",
        65280..=65534 => "raw",
        _ => "opaque",
    }
}

/// Where the referee gives no verdict on the RDATA (part of a case's input,
/// computed by Wire.tla `CodecCase`): the call is still made, and once the
/// record's framing is read the executor reports "undecided".  Recorders
/// have no such knowledge (`Mask::none`): they report what the code said and
/// TLC ignores the verdicts the referee leaves open.
pub struct Mask {
    pub rs: Vec<bool>,
    pub msg: i64,
    pub rn: Vec<bool>,
    pub ro: Vec<bool>,
}
impl Mask {
    pub fn none() -> Mask {
        Mask { rs: vec![], msg: -1, rn: vec![], ro: vec![] }
    }
    pub fn of(v: &Value) -> Mask {
        let bools = |x: &Value| x.as_array().map(|a| a.iter().map(|b| b.as_bool().unwrap_or(false)).collect()).unwrap_or_default();
        Mask { rs: bools(&v["rs"]), msg: v["msg"].as_i64().unwrap_or(-1), rn: bools(&v["rn"]), ro: bools(&v["ro"]) }
    }
}
fn at(v: &[bool], i: usize) -> bool {
    v.get(i).copied().unwrap_or(false)
}

/// types whose RDATA the referee does not know but both codecs do: for
/// these the two codecs are compared with each other on accept / reject
fn both_know(t: u16) -> bool {
    matches!(t, 13 | 16 | 17 | 33 | 39 | 43 | 46 | 47 | 48 | 50 | 51 | 63)
}

/// does the uncompressed-looking name at rd[off..] contain a compression pointer?
fn name_has_pointer(rd: &[u8], mut off: usize) -> bool {
    while off < rd.len() {
        let b = rd[off];
        if b == 0 {
            return false;
        }
        if b >= 0xC0 {
            return true;
        }
        if b > 63 {
            return false;
        }
        off += 1 + b as usize;
    }
    false
}

fn name_end(rd: &[u8], mut off: usize) -> Option<usize> {
    while off < rd.len() {
        let b = rd[off];
        if b == 0 {
            return Some(off + 1);
        }
        if b > 63 {
            return None;
        }
        off += 1 + b as usize;
    }
    None
}

/// RFC 4034 4.1.2: windows ascending, 1..32 octets each, no trailing zero
/// octet (and at least one window)
fn bitmap_canonical(b: &[u8]) -> bool {
    if b.is_empty() {
        return false;
    }
    let mut i = 0;
    let mut last: i32 = -1;
    while i < b.len() {
        if i + 2 > b.len() {
            return false;
        }
        let (w, l) = (b[i] as i32, b[i + 1] as usize);
        if w <= last || l == 0 || l > 32 || i + 2 + l > b.len() || b[i + 1 + l] == 0 {
            return false;
        }
        last = w;
        i += 2 + l;
    }
    true
}

/// The documented disagreements between the codecs on RDATA the referee does
/// not know (open known findings of C19); anything else is a violation.
fn explain_accept_difference(m: &[u8], start: usize, old: Option<bool>, new: Option<bool>) -> Option<&'static str> {
    let mref: &[u8] = m;
    let mut p = old_parser(&mref, start)?;
    let rec = ParsedRecord::parse(&mut p).ok()?;
    let t = rec.rtype().to_int();
    let rdlen = rec.rdlen() as usize;
    let rd = &m[p.pos() - rdlen..p.pos()];
    match (t, old?, new?) {
        (16, true, false) if rd.is_empty() => Some("D_rdata_txt_empty"),
        (33, true, false) if rd.len() >= 6 && name_has_pointer(rd, 6) => Some("D_rdata_compressed_name"),
        (39, true, false) if name_has_pointer(rd, 0) => Some("D_rdata_compressed_name"),
        (46, true, false) if rd.len() >= 18 && name_has_pointer(rd, 18) => Some("D_rdata_compressed_name"),
        (47, true, false) if name_has_pointer(rd, 0) => Some("D_rdata_compressed_name"),
        (47, true, false) => {
            let e = name_end(rd, 0)?;
            if !bitmap_canonical(&rd[e..]) { Some("D_rdata_bitmap_noncanonical") } else { None }
        }
        (50, true, false) => {
            // alg flags iter(2) saltlen salt hashlen hash bitmap
            let sl = *rd.get(4)? as usize;
            let hl = *rd.get(5 + sl)? as usize;
            let b = rd.get(6 + sl + hl..)?;
            if !b.is_empty() && !bitmap_canonical(b) { Some("D_rdata_bitmap_noncanonical") } else { None }
        }
        (63, false, true) if rd.len() >= 6 && rd.len() < 18 => Some("D_rdata_zonemd_short_digest"),
        _ => None,
    }
}

//------------ established codec ---------------------------------------------------

fn old_parser<'a>(m: &'a &'a [u8], start: usize) -> Option<Parser<'a, &'a [u8]>> {
    let mut p = Parser::from_ref(m);
    p.advance(start).ok()?;
    Some(p)
}

/// The item of a record the established codec has parsed: owner, type, class,
/// TTL halves, the names inside the RDATA, the options.  Err: the RDATA is
/// rejected.
fn old_record_item(rec: &ParsedRecord<'_, &[u8]>) -> Result<Value, ()> {
    let t = rec.rtype().to_int();
    let (names, opts) = if kind(t) != "opaque" {
        let rd = old_rd(rec);
        if rd["ok"] != json!(true) {
            return Err(());
        }
        (rd["names"].clone(), rd["opts"].clone())
    } else {
        let r = rec.to_any_record::<AllRecordData<_, ParsedName<_>>>().map_err(|_| ())?;
        exercise_record(&r);
        let mut names = vec![];
        match r.data() {
            AllRecordData::Srv(d) => names.push(use_name(d.target())),
            AllRecordData::Dname(d) => names.push(use_name(d.dname())),
            AllRecordData::Nsec(d) => names.push(use_name(d.next_name())),
            AllRecordData::Rrsig(d) => names.push(use_name(d.signer_name())),
            AllRecordData::Rp(d) => {
                names.push(use_name(d.mbox()));
                names.push(use_name(d.txt()));
            }
            _ => {}
        }
        (Value::Array(names), json!([]))
    };
    let ttl = rec.ttl().as_secs();
    Ok(json!([labels_json(rec.owner().iter()), t, rec.class().to_int(), (ttl >> 16) as u16,
              (ttl & 0xFFFF) as u16, names, opts]))
}

/// a record read at `start` of `m` by the established codec's message route
fn old_rs_at(m: &[u8], start: usize, undecided: bool) -> Value {
    let mref: &[u8] = m;
    match old_parser(&mref, start) {
        Some(mut p) => match ParsedRecord::parse(&mut p) {
            Ok(rec) => {
                let item = old_record_item(&rec);
                if undecided {
                    return und();
                }
                match item {
                    Ok(item) => okv(item, p.pos()),
                    Err(()) => fail(),
                }
            }
            Err(_) => fail(),
        },
        None => fail(),
    }
}

pub fn old_view(m: &[u8], starts: &[usize], mask: &Mask) -> Value {
    let mref: &[u8] = m;
    let mut names = vec![];
    let mut qs = vec![];
    let mut rs = vec![];
    let mut acc = vec![];
    let mut edns = vec![];
    for (i, &s) in starts.iter().enumerate() {
        edns.push(old_edns(m, s));
        acc.push(match old_parser(&mref, s) {
            Some(mut p) => match ParsedRecord::parse(&mut p) {
                Ok(rec) if both_know(rec.rtype().to_int()) => {
                    json!(rec.to_any_record::<AllRecordData<_, ParsedName<_>>>().is_ok())
                }
                _ => Value::Null,
            },
            None => Value::Null,
        });
        names.push(match old_parser(&mref, s) {
            Some(mut p) => match ParsedName::parse(&mut p) {
                Ok(n) => okv(json!([use_name(&n)]), p.pos()),
                Err(_) => fail(),
            },
            None => fail(),
        });
        qs.push(match old_parser(&mref, s) {
            Some(mut p) => match Question::parse(&mut p) {
                Ok(q) => okv(json!([use_name(q.qname()), q.qtype().to_int(), q.qclass().to_int()]), p.pos()),
                Err(_) => fail(),
            },
            None => fail(),
        });
        rs.push(old_rs_at(m, s, at(&mask.rs, i)));
    }
    json!({"names": names, "qs": qs, "rs": rs, "msg": old_msg_view(m, mask.msg), "acc": acc, "edns": edns})
}

/// The routes of the established codec that read a byte string without a
/// message around it: Name::parse (split), Name::from_octets / from_slice
/// (exact), ParsedName::skip, and the string handed to the record reader as
/// if it were a message.
pub fn old_plain(m: &[u8], probes: &[(usize, usize)], mask: &Mask) -> Value {
    let mut out = vec![];
    for (i, &(s, e)) in probes.iter().enumerate() {
        let b: &[u8] = &m[s.min(m.len())..e.min(m.len())];
        out.push(observe(|| {
            let bref: &[u8] = b;
            let exact = domain::base::Name::from_octets(b).is_ok();
            assert_eq!(exact, domain::base::Name::from_slice(b).is_ok(), "from_octets and from_slice differ");
            let mut p = Parser::from_ref(&bref);
            let n = match domain::base::Name::parse(&mut p) {
                Ok(n) => {
                    assert_eq!(n.as_slice(), &b[..p.pos()], "Name::parse returns other octets");
                    let _ = format!("{} {:?}", n, n);
                    json!({"ok": true, "item": [labels_json(n.iter())], "next": p.pos(), "exact": exact})
                }
                Err(_) => {
                    assert!(!exact, "from_octets accepts what Name::parse rejects");
                    json!({"ok": false, "item": [], "next": 0, "exact": false})
                }
            };
            let mut p = Parser::from_ref(&bref);
            let sk = match ParsedName::skip(&mut p) {
                Ok(()) => json!({"ok": true, "next": p.pos()}),
                Err(_) => json!({"ok": false, "next": 0}),
            };
            let mut ro = old_rs_at(b, 0, at(&mask.ro, i));
            let exact = ro["ok"] == json!(true) && ro["next"] == json!(b.len());
            ro["exact"] = json!(exact);
            json!({"n": n, "sk": sk, "ro": ro})
        }));
    }
    Value::Array(out)
}

fn no_edns() -> Value {
    json!({"ok": false, "v": []})
}

/// OPT record with the root owner at `start`, read through OptRecord
fn old_edns(m: &[u8], start: usize) -> Value {
    if m.len() < start + 3 || m[start..start + 3] != [0, 0, 41] {
        return no_edns();
    }
    let mref: &[u8] = m;
    let mut p = match old_parser(&mref, start) {
        Some(p) => p,
        None => return no_edns(),
    };
    let rec = match ParsedRecord::parse(&mut p) {
        Ok(r) => r,
        Err(_) => return no_edns(),
    };
    let r = match rec.to_record::<domain::base::opt::Opt<_>>() {
        Ok(Some(r)) => r,
        _ => return no_edns(),
    };
    let o = domain::base::opt::OptRecord::from_record(r);
    let hdr = domain::base::Header::new();
    let mut opts = vec![];
    for x in o.opt().iter::<domain::base::opt::UnknownOptData<_>>().flatten() {
        opts.push(json!([x.code().to_int(), x.data().len()]));
    }
    let flags = (u16::from(o.dnssec_ok()) << 15) | (o.as_record().ttl().as_secs() as u16 & 0x7FFF);
    json!({"ok": true, "v": [o.udp_payload_size(), o.rcode(hdr).ext(), o.version(), flags, opts]})
}

/// the new API's flattened view, computed with the established iterators
fn old_msg_view(m: &[u8], und_at: i64) -> Value {
    let msg = match Message::from_octets(m) {
        Ok(x) => x,
        Err(_) => return json!({"items": [], "end": "short"}),
    };
    let mut items = vec![];
    let mut q = msg.question();
    for x in &mut q {
        match x {
            Ok(x) => items.push(json!([0, [use_name(x.qname()), x.qtype().to_int(), x.qclass().to_int()]])),
            Err(_) => return json!({"items": items, "end": "err"}),
        }
    }
    let mut sec = match q.next_section() {
        Ok(s) => s,
        Err(_) => return json!({"items": items, "end": "err"}),
    };
    let mut secno = 1;
    loop {
        loop {
            let pos = sec.pos();
            let edns = secno == 3 && m.len() >= pos + 3 && m[pos..pos + 3] == [0, 0, 41];
            match sec.next() {
                None => break,
                Some(Err(_)) => return json!({"items": items, "end": "err"}),
                Some(Ok(rec)) => {
                    let item = old_record_item(&rec);
                    if items.len() as i64 == und_at {
                        return json!({"items": items, "end": "und"});
                    }
                    match item {
                        Ok(item) => items.push(json!([if edns { 4 } else { secno }, item])),
                        Err(()) => return json!({"items": items, "end": "err"}),
                    }
                }
            }
        }
        match sec.next_section() {
            Ok(Some(s)) => {
                sec = s;
                secno += 1;
            }
            Ok(None) => return json!({"items": items, "end": "done"}),
            Err(_) => return json!({"items": items, "end": "err"}),
        }
    }
}

//------------ new codec -----------------------------------------------------------

fn wire_labels(bytes: &[u8]) -> Value {
    // uncompressed wire format, root last
    let mut out = vec![];
    let mut i = 0;
    while i < bytes.len() && bytes[i] != 0 {
        let l = bytes[i] as usize;
        out.push(json_bytes(&bytes[i + 1..i + 1 + l]));
        i += 1 + l;
    }
    Value::Array(out)
}

fn rev_labels(bytes: &[u8]) -> Value {
    // reversed: root first, then the labels from the right
    let mut out = vec![];
    let mut i = 1;
    while i < bytes.len() {
        let l = bytes[i] as usize;
        out.push(json_bytes(&bytes[i + 1..i + 1 + l]));
        i += 1 + l;
    }
    out.reverse();
    Value::Array(out)
}

fn opt_pairs(bytes: &[u8]) -> Value {
    let mut out = vec![];
    let mut i = 0;
    while i + 4 <= bytes.len() {
        let code = u16::from_be_bytes([bytes[i], bytes[i + 1]]);
        let len = u16::from_be_bytes([bytes[i + 2], bytes[i + 3]]) as usize;
        out.push(json!([code, len]));
        i += 4 + len;
    }
    Value::Array(out)
}

type NewRecord<'a> = domain::new::base::Record<RevNameBuf, RecordData<'a, NameBuf>>;

/// the labels of a name of the new API, whichever type holds it
trait Lbl: std::fmt::Debug {
    fn lbl(&self) -> Value;
}
impl Lbl for &NewName {
    fn lbl(&self) -> Value {
        wire_labels(self.as_bytes())
    }
}
impl Lbl for NameBuf {
    fn lbl(&self) -> Value {
        wire_labels(self.as_bytes())
    }
}
impl Lbl for RevNameBuf {
    fn lbl(&self) -> Value {
        rev_labels(self.as_bytes())
    }
}

/// the item of a record the new codec has parsed (see old_record_item)
fn new_record_item<N: Lbl, D: Lbl>(r: &domain::new::base::Record<N, RecordData<'_, D>>) -> Value {
    let t = r.rtype.code.get();
    let mut names = vec![];
    let mut opts = json!([]);
    match &r.rdata {
        RecordData::Ns(d) => names.push(d.server.lbl()),
        RecordData::CName(d) => names.push(d.name.lbl()),
        RecordData::Ptr(d) => names.push(d.name.lbl()),
        RecordData::Mx(d) => names.push(d.exchange.lbl()),
        RecordData::Soa(d) => {
            names.push(d.mname.lbl());
            names.push(d.rname.lbl());
        }
        RecordData::Rp(d) => {
            names.push(d.mailbox.lbl());
            names.push(d.texts.lbl());
        }
        RecordData::Srv(d) => names.push(wire_labels(d.name.as_bytes())),
        RecordData::DName(d) => names.push(wire_labels(d.name.as_bytes())),
        RecordData::Nsec(d) => names.push(wire_labels(d.next.as_bytes())),
        RecordData::Rrsig(d) => names.push(wire_labels(d.signer.as_bytes())),
        RecordData::Opt(o) => opts = opt_pairs(o.as_bytes()),
        _ => {}
    }
    let _ = format!("{:?}", r.rdata);
    let ttl = r.ttl.value.get();
    json!([r.rname.lbl(), t, r.rclass.code.get(), (ttl >> 16) as u16, (ttl & 0xFFFF) as u16, names, opts])
}

pub fn new_view(m: &[u8], starts: &[usize], mask: &Mask) -> Value {
    let mut names = vec![];
    let mut qs = vec![];
    let mut rs = vec![];
    if m.len() < 12 {
        return json!({"names": [], "qs": [], "rs": [], "msg": {"items": [], "end": "short"}, "acc": [], "edns": []});
    }
    let contents = &m[12..];
    let mut acc = vec![];
    let mut edns = vec![];
    for (i, &s) in starts.iter().enumerate() {
        let st = s - 12;
        edns.push(new_edns(contents, st));
        acc.push(
            match domain::new::base::Record::<RevNameBuf, &UnparsedRecordData>::split_message_bytes(contents, st) {
                Ok((r, _)) if both_know(r.rtype.code.get()) => {
                    json!(NewRecord::split_message_bytes(contents, st).is_ok())
                }
                _ => Value::Null,
            },
        );
        let a = NameBuf::split_message_bytes(contents, st);
        let b = RevNameBuf::split_message_bytes(contents, st);
        names.push(match (a, b) {
            (Ok((n, rest)), Ok((rn, rest2))) => {
                assert_eq!(rest, rest2, "NameBuf and RevNameBuf end at different offsets");
                assert_eq!(wire_labels(n.as_bytes()), rev_labels(rn.as_bytes()), "NameBuf and RevNameBuf differ");
                let _ = format!("{} {:?}", n, rn);
                okv(json!([wire_labels(n.as_bytes())]), rest + 12)
            }
            (Err(_), Err(_)) => fail(),
            _ => json!({"ok": "NameBuf and RevNameBuf disagree"}),
        });
        qs.push(match domain::new::base::Question::<RevNameBuf>::split_message_bytes(contents, st) {
            Ok((q, rest)) => okv(json!([rev_labels(q.qname.as_bytes()), q.qtype.code.get(), q.qclass.code.get()]), rest + 12),
            Err(_) => fail(),
        });
        // the framing first (owner, fixed fields, RDLENGTH octets present), then the RDATA
        let framed = domain::new::base::Record::<RevNameBuf, &UnparsedRecordData>::split_message_bytes(contents, st).is_ok();
        let full = NewRecord::split_message_bytes(contents, st);
        // the other name types in the same places give the same verdict
        let alt = domain::new::base::Record::<NameBuf, RecordData<'_, RevNameBuf>>::split_message_bytes(contents, st);
        rs.push(if full.is_ok() != alt.is_ok() {
            json!({"ok": "Record<RevNameBuf, RecordData<NameBuf>> and Record<NameBuf, RecordData<RevNameBuf>> disagree"})
        } else if !framed {
            assert!(full.is_err(), "a record is read whose framing is not");
            fail()
        } else if at(&mask.rs, i) {
            und()
        } else {
            match (full, alt) {
                (Ok((r, rest)), Ok((r2, rest2))) => {
                    let item = new_record_item(&r);
                    if item != new_record_item(&r2) || rest != rest2 {
                        json!({"ok": "name types disagree on the content", "a": item, "b": new_record_item(&r2)})
                    } else {
                        okv(item, rest + 12)
                    }
                }
                _ => fail(),
            }
        });
    }
    json!({"names": names, "qs": qs, "rs": rs, "msg": new_msg_view(m, mask.msg), "acc": acc, "edns": edns})
}

fn plain_fail() -> Value {
    json!({"ok": false, "item": [], "next": 0, "exact": false})
}

/// one route of the new codec on a byte string: split (value and what is
/// left) and parse (the whole string) with one name type
fn new_name_route<'a, N: SplitBytes<'a> + ParseBytes<'a> + Lbl>(b: &'a [u8]) -> Value {
    let exact = N::parse_bytes(b).map(|n| n.lbl());
    match N::split_bytes(b) {
        Ok((n, rest)) => {
            let next = b.len() - rest.len();
            let l = n.lbl();
            match exact {
                Ok(e) => {
                    assert!(rest.is_empty(), "parse_bytes accepts a string that split_bytes does not use up");
                    assert_eq!(e, l, "parse_bytes and split_bytes give different names");
                }
                Err(_) => assert!(!rest.is_empty(), "parse_bytes rejects what split_bytes uses up"),
            }
            json!({"ok": true, "item": [l], "next": next, "exact": rest.is_empty()})
        }
        Err(_) => {
            assert!(exact.is_err(), "parse_bytes accepts what split_bytes rejects");
            plain_fail()
        }
    }
}

fn new_question_route<'a, N: SplitBytes<'a> + Lbl>(b: &'a [u8]) -> Value {
    use domain::new::base::Question as NQ;
    let exact = NQ::<N>::parse_bytes(b).is_ok();
    match NQ::<N>::split_bytes(b) {
        Ok((q, rest)) => {
            assert_eq!(exact, rest.is_empty(), "Question: parse_bytes and split_bytes differ on the end");
            json!({"ok": true, "item": [q.qname.lbl(), q.qtype.code.get(), q.qclass.code.get()],
                   "next": b.len() - rest.len(), "exact": exact})
        }
        Err(_) => {
            assert!(!exact, "Question: parse_bytes accepts what split_bytes rejects");
            plain_fail()
        }
    }
}

fn new_record_route<'a, N: SplitBytes<'a> + Lbl>(b: &'a [u8], undecided: bool) -> Value {
    use domain::new::base::Record as NR;
    let framed = NR::<N, &UnparsedRecordData>::split_bytes(b).is_ok();
    let exact = NR::<N, RecordData<'a, N>>::parse_bytes(b).is_ok();
    let full = NR::<N, RecordData<'a, N>>::split_bytes(b);
    if !framed {
        assert!(full.is_err() && !exact, "a record is read whose framing is not");
        let mut v = fail();
        v["exact"] = json!(false);
        return v;
    }
    if undecided {
        let mut v = und();
        v["exact"] = json!(false);
        return v;
    }
    match full {
        Ok((r, rest)) => {
            assert_eq!(exact, rest.is_empty(), "Record: parse_bytes and split_bytes differ on the end");
            let mut v = okv(new_record_item(&r), b.len() - rest.len());
            v["exact"] = json!(exact);
            v
        }
        Err(_) => {
            assert!(!exact, "Record: parse_bytes accepts what split_bytes rejects");
            let mut v = fail();
            v["exact"] = json!(false);
            v
        }
    }
}

fn all_same(what: &str, a: Value, b: Value, c: Value) -> Value {
    if a == b && b == c {
        a
    } else {
        json!({"ok": format!("{}: &Name, NameBuf and RevNameBuf disagree", what), "ref": a, "buf": b, "rev": c})
    }
}

/// The routes of the new codec that read a byte string without a message
/// around it (ParseBytes / SplitBytes), with every name type that has them.
pub fn new_plain(m: &[u8], probes: &[(usize, usize)], mask: &Mask) -> Value {
    let mut out = vec![];
    for (i, &(s, e)) in probes.iter().enumerate() {
        let b: &[u8] = &m[s.min(m.len())..e.min(m.len())];
        let u = at(&mask.rn, i);
        let part = |f: &dyn Fn() -> Value| observe(|| f());
        let n = all_same("name",
            part(&|| new_name_route::<&NewName>(b)), part(&|| new_name_route::<NameBuf>(b)), part(&|| new_name_route::<RevNameBuf>(b)));
        let sk = part(&|| match <&UnparsedName>::split_bytes(b) {
            Ok((_, rest)) => {
                assert_eq!(<&UnparsedName>::parse_bytes(b).is_ok(), rest.is_empty());
                json!({"ok": true, "next": b.len() - rest.len()})
            }
            Err(_) => {
                assert!(<&UnparsedName>::parse_bytes(b).is_err());
                json!({"ok": false, "next": 0})
            }
        });
        let q = all_same("question",
            part(&|| new_question_route::<&NewName>(b)), part(&|| new_question_route::<NameBuf>(b)),
            part(&|| new_question_route::<RevNameBuf>(b)));
        let rn = all_same("record",
            part(&|| new_record_route::<&NewName>(b, u)), part(&|| new_record_route::<NameBuf>(b, u)),
            part(&|| new_record_route::<RevNameBuf>(b, u)));
        out.push(json!({"n": n, "sk": sk, "q": q, "rn": rn}));
    }
    Value::Array(out)
}

fn edns_fields(e: &domain::new::edns::EdnsRecord<&domain::new::rdata::Opt>) -> Value {
    let flags = u16::from_be_bytes([e.flags.as_bytes()[0], e.flags.as_bytes()[1]]);
    let opt: &domain::new::rdata::Opt = *e.data;
    json!([e.max_udp_payload.get(), e.ext_rcode, e.version, flags, opt_pairs(opt.as_bytes())])
}

/// The EDNS view of an OPT record with the root owner through every route
/// the new API offers: EdnsRecord parsed directly (what MessageParser does),
/// Record -> EdnsRecord, and EdnsRecord -> Record -> EdnsRecord.  All routes
/// must give the same fields.
fn new_edns(contents: &[u8], st: usize) -> Value {
    use domain::new::edns::EdnsRecord;
    use domain::new::rdata::Opt;
    if contents.len() < st + 3 || contents[st..st + 3] != [0, 0, 41] {
        return no_edns();
    }
    let direct = EdnsRecord::<&Opt>::split_message_bytes(contents, st).ok().map(|(e, _)| edns_fields(&e));
    let via_record = NewRecord::split_message_bytes(contents, st)
        .ok()
        .and_then(|(r, _)| EdnsRecord::<&Opt>::try_from(r).ok());
    let via = via_record.as_ref().map(edns_fields);
    if direct != via {
        return json!({"ok": "routes differ", "direct": direct, "via_record": via});
    }
    if let Some(e) = via_record {
        let back: NewRecord<'_> = e.clone().into();
        let again = EdnsRecord::<&Opt>::try_from(back).ok().map(|e| edns_fields(&e));
        if again != via {
            return json!({"ok": "round trip differs", "first": via, "again": again});
        }
    }
    match via {
        Some(v) => json!({"ok": true, "v": v}),
        None => no_edns(),
    }
}

fn new_msg_view(m: &[u8], und_at: i64) -> Value {
    let mut p = match MessageParser::new(m) {
        Ok(p) => p,
        Err(_) => return json!({"items": [], "end": "short"}),
    };
    let contents = &m[12..];
    let mut items = vec![];
    loop {
        let off = p.offset();
        match p.next() {
            None => return json!({"items": items, "end": "done"}),
            Some(Ok(item)) => {
                let (tag, rec) = match item {
                    MessageItem::Question(q) => {
                        items.push(json!([0, [rev_labels(q.qname.as_bytes()), q.qtype.code.get(), q.qclass.code.get()]]));
                        continue;
                    }
                    MessageItem::Answer(r) => (1, r),
                    MessageItem::Authority(r) => (2, r),
                    MessageItem::Additional(r) => (3, r),
                    MessageItem::Edns(e) => {
                        let ttlhi = (u16::from(e.ext_rcode) << 8) | u16::from(e.version);
                        let flags = u16::from_be_bytes([e.flags.as_bytes()[0], e.flags.as_bytes()[1]]);
                        let opt: &domain::new::rdata::Opt = *e.data;
                        items.push(json!([4, [[], 41, e.max_udp_payload.get(), ttlhi, flags, [], opt_pairs(opt.as_bytes())]]));
                        continue;
                    }
                };
                let item = new_record_item(&rec);
                if items.len() as i64 == und_at {
                    return json!({"items": items, "end": "und"});
                }
                items.push(json!([tag, item]));
            }
            Some(Err(_)) => {
                // where the referee leaves the RDATA open a record whose
                // framing is read leaves the verdict open
                let framed = domain::new::base::Record::<RevNameBuf, &UnparsedRecordData>::split_message_bytes(contents, off).is_ok();
                let end = if items.len() as i64 == und_at && framed { "und" } else { "err" };
                assert!(p.next().is_none(), "new MessageParser not fused after an error");
                return json!({"items": items, "end": end});
            }
        }
    }
}

/// The routes without a message around the octets, both codecs together:
/// n and sk are what both say (or both verdicts if they differ), q and rn
/// the new codec's, ro the established one's.
pub fn plain_view(m: &[u8], probes: &[(usize, usize)], mask: &Mask) -> Value {
    let pold = observe(|| old_plain(m, probes, mask));
    let pnew = observe(|| new_plain(m, probes, mask));
    let (po, pn) = match (pold.as_array(), pnew.as_array()) {
        (Some(a), Some(b)) if a.len() == b.len() => (a, b),
        _ => return json!({"old": pold, "new": pnew}),
    };
    let both = |a: &Value, b: &Value| if a == b { a.clone() } else { json!({"old": a, "new": b}) };
    Value::Array(
        po.iter()
            .zip(pn.iter())
            .map(|(o, n)| {
                if o.get("panic").is_some() || n.get("panic").is_some() {
                    return json!({"old": o, "new": n});
                }
                json!({"n": both(&o["n"], &n["n"]), "sk": both(&o["sk"], &n["sk"]),
                       "q": n["q"], "rn": n["rn"], "ro": o["ro"]})
            })
            .collect(),
    )
}

pub fn codec_view(m: &[u8], starts: &[usize], probes: &[(usize, usize)], mask: &Mask) -> Value {
    let old = observe(|| old_view(m, starts, mask));
    let new = observe(|| new_view(m, starts, mask));
    let old2 = observe(|| old_view(m, starts, mask));
    let new2 = observe(|| new_view(m, starts, mask));
    let plain = plain_view(m, probes, mask);
    let nonidem = old2 != old || new2 != new;
    let agree = old == new;
    // the accept / reject verdicts on RDATA the referee does not know are
    // compared between the codecs only; they are not part of the spec's view
    let strip = |mut v: Value| {
        let acc = v.as_object_mut().and_then(|o| o.remove("acc")).unwrap_or(Value::Null);
        (v, acc)
    };
    let (old, oacc) = strip(old);
    let (new, nacc) = strip(new);
    let mut o = json!({"agree": agree, "old": old, "new": new, "plain": plain});
    if oacc != nacc {
        // each differing verdict must be one of the documented disagreements
        let mut devs: Vec<String> = vec![];
        let mut unexplained = false;
        for (i, &st) in starts.iter().enumerate() {
            let (a, b) = (oacc.get(i).cloned().unwrap_or(Value::Null), nacc.get(i).cloned().unwrap_or(Value::Null));
            if a == b {
                continue;
            }
            match explain_accept_difference(m, st, a.as_bool(), b.as_bool()) {
                Some(d) => devs.push(d.to_string()),
                None => unexplained = true,
            }
        }
        devs.sort();
        devs.dedup();
        if unexplained || devs.is_empty() {
            o["accept_differs"] = json!({"old": oacc, "new": nacc});
        } else {
            o["harness_devs"] = json!(devs);
        }
    }
    if nonidem {
        o["nonidempotent"] = json!(true);
    }
    o
}
