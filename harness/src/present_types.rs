//! Hand-assembled wire RDATA per zone record type (C06 type sweep).
//! Every variant is uncompressed, valid wire data; names and strings use the
//! octets that matter for presentation format.
#![allow(dead_code)]
pub struct TypeCase {
    pub rtype: u16,
    pub name: &'static str,
    pub variants: Vec<Vec<u8>>,
}

fn name(labels: &[&[u8]]) -> Vec<u8> {
    let mut v = vec![];
    for l in labels {
        v.push(l.len() as u8);
        v.extend_from_slice(l);
    }
    v.push(0);
    v
}
fn cs(s: &[u8]) -> Vec<u8> {
    let mut v = vec![s.len() as u8];
    v.extend_from_slice(s);
    v
}
fn u16be(x: u16) -> Vec<u8> { x.to_be_bytes().to_vec() }
fn u32be(x: u32) -> Vec<u8> { x.to_be_bytes().to_vec() }
fn cat(parts: &[Vec<u8>]) -> Vec<u8> { parts.concat() }
fn bytes(n: usize, pat: u8) -> Vec<u8> {
    (0..n).map(|i| match pat { 0 => 0, 1 => 0xff, _ => (i * 37 + 11) as u8 }).collect()
}
/// binary field values whose lengths cover every residue class of Base32
/// (mod 5) and Base64 (mod 3), each with an all-ones last octet, a last octet
/// with only the low bits set, and a mixed pattern
fn residues() -> Vec<Vec<u8>> {
    let mut v = vec![];
    for n in [1usize, 2, 3, 4, 5, 6, 7, 8, 9, 10, 19, 20, 21, 24, 33, 34, 64] {
        v.push(bytes(n, 1));
        let mut m = bytes(n, 2);
        m[n - 1] = 0x03 | ((n as u8) << 4);
        v.push(m);
        let mut k = bytes(n, 2);
        k[n - 1] = 0xa5;
        v.push(k);
    }
    v
}
/// RFC 4034 type bitmap
pub fn bitmap(types: &[u16]) -> Vec<u8> {
    let mut v = vec![];
    let mut ts = types.to_vec();
    ts.sort();
    let mut w = 0;
    while w < 256 {
        let in_w: Vec<u16> = ts.iter().cloned().filter(|t| (t >> 8) == w as u16).collect();
        if !in_w.is_empty() {
            let mut bits = [0u8; 32];
            for t in &in_w {
                let lo = (t & 0xff) as usize;
                bits[lo / 8] |= 0x80 >> (lo % 8);
            }
            let len = 32 - bits.iter().rev().take_while(|b| **b == 0).count();
            v.push(w as u8);
            v.push(len as u8);
            v.extend_from_slice(&bits[..len]);
        }
        w += 1;
    }
    v
}
fn svc(key: u16, val: &[u8]) -> Vec<u8> {
    cat(&[u16be(key), u16be(val.len() as u16), val.to_vec()])
}

pub fn type_table() -> Vec<TypeCase> {
    let root = name(&[]);
    let plain = name(&[b"ns1", b"example", b"com"]);
    let odd = name(&[b"a;b", b"x y", b"q\"(", b")\\.", b"\x00\x7f\xff", b"$@"]);
    let long = name(&[&[b'A'; 63][..], b"Ex"]);
    let names = vec![root.clone(), plain.clone(), odd.clone(), long.clone()];
    let strs: Vec<Vec<u8>> = vec![
        vec![], b"plain".to_vec(), b"a b".to_vec(), b"\"q\";(x)\\".to_vec(),
        vec![0, 0x7f, 0xff, b'\n', b'\t'], vec![b'x'; 255],
    ];
    let bins: Vec<Vec<u8>> = vec![
        bytes(1, 0), bytes(2, 1), bytes(3, 2), bytes(4, 2), bytes(5, 1), bytes(20, 2), bytes(32, 0), bytes(33, 2),
    ];
    let one_name = |t: u16, n: &'static str| TypeCase { rtype: t, name: n, variants: names.clone() };
    let mut table = vec![
        TypeCase { rtype: 1, name: "A", variants: vec![vec![0, 0, 0, 0], vec![255, 255, 255, 255], vec![192, 0, 2, 1]] },
        TypeCase { rtype: 28, name: "AAAA", variants: vec![vec![0; 16], vec![0xff; 16],
            vec![0x20, 1, 0x0d, 0xb8, 0, 0, 0, 0, 0, 0, 0, 0, 0, 0, 0, 1],
            vec![0, 0, 0, 0, 0, 0, 0, 0, 0, 0, 0xff, 0xff, 192, 0, 2, 1]] },
        one_name(2, "NS"), one_name(5, "CNAME"), one_name(12, "PTR"), one_name(39, "DNAME"),
        one_name(3, "MD"), one_name(4, "MF"), one_name(7, "MB"), one_name(8, "MG"), one_name(9, "MR"),
        TypeCase { rtype: 6, name: "SOA", variants: vec![
            cat(&[plain.clone(), name(&[b"host.master", b"example"]), u32be(0), u32be(0), u32be(0), u32be(0), u32be(0)]),
            cat(&[root.clone(), root.clone(), u32be(u32::MAX), u32be(u32::MAX), u32be(u32::MAX), u32be(u32::MAX), u32be(u32::MAX)]),
            cat(&[odd.clone(), long.clone(), u32be(2024010101), u32be(3600), u32be(900), u32be(604800), u32be(86400)]),
        ] },
        TypeCase { rtype: 14, name: "MINFO", variants: vec![cat(&[plain.clone(), odd.clone()]), cat(&[root.clone(), root.clone()])] },
        TypeCase { rtype: 15, name: "MX", variants: vec![
            cat(&[u16be(0), root.clone()]), cat(&[u16be(65535), odd.clone()]), cat(&[u16be(10), plain.clone()]), cat(&[u16be(1), long.clone()])] },
        TypeCase { rtype: 16, name: "TXT", variants: vec![
            cs(b""), cs(b"plain"), cat(&[cs(b"a b"), cs(b""), cs(b"\"q\";(x)\\")]), cs(&[0, 0x7f, 0xff, b'\n']),
            cs(&[b'x'; 255]), cat(&[cs(&[b'y'; 255]), cs(&[b'z'; 255]), cs(b"tail")])] },
        TypeCase { rtype: 13, name: "HINFO", variants: strs.iter().map(|s| cat(&[cs(s), cs(&strs[(s.len() + 1) % strs.len()])])).collect() },
        TypeCase { rtype: 33, name: "SRV", variants: vec![
            cat(&[u16be(0), u16be(0), u16be(0), root.clone()]),
            cat(&[u16be(65535), u16be(65535), u16be(65535), odd.clone()]),
            cat(&[u16be(10), u16be(60), u16be(5060), plain.clone()])] },
        TypeCase { rtype: 35, name: "NAPTR", variants: vec![
            cat(&[u16be(0), u16be(0), cs(b""), cs(b""), cs(b""), root.clone()]),
            cat(&[u16be(100), u16be(10), cs(b"U"), cs(b"E2U+sip"), cs(b"!^.*$!sip:info@example.com!"), root.clone()]),
            cat(&[u16be(65535), u16be(65535), cs(b"a b"), cs(b"\"x\";"), cs(&[b'\\', 0, 0xff, b'(', b')']), odd.clone()])] },
        TypeCase { rtype: 257, name: "CAA", variants: vec![
            cat(&[vec![0], cs(b"issue"), b"ca.example.net".to_vec()]),
            cat(&[vec![128], cs(b"iodef"), b"mailto:a b@\"x\";(y)\\".to_vec()]),
            cat(&[vec![255], cs(b"tag123"), vec![]]),
            cat(&[vec![1], cs(b"issuewild"), vec![0, 0x7f, 0xff]])] },
        TypeCase { rtype: 43, name: "DS", variants: bins.iter().map(|b| cat(&[u16be(60485), vec![5, 1], b.clone()])).chain(
            vec![cat(&[u16be(0), vec![0, 0], bytes(1, 2)]), cat(&[u16be(65535), vec![255, 255], bytes(48, 1)])])
            .chain(residues().into_iter().step_by(3).map(|d| cat(&[u16be(7), vec![8, 2], d]))).collect() },
        TypeCase { rtype: 59, name: "CDS", variants: vec![cat(&[u16be(1), vec![13, 2], bytes(32, 2)]), cat(&[u16be(0), vec![0, 0], vec![0]])] },
        TypeCase { rtype: 48, name: "DNSKEY", variants: bins.iter().map(|b| cat(&[u16be(257), vec![3, 13], b.clone()])).chain(
            vec![cat(&[u16be(0), vec![0, 0], bytes(1, 0)]), cat(&[u16be(65535), vec![255, 255], bytes(64, 2)])])
            .chain(residues().into_iter().map(|k| cat(&[u16be(256), vec![3, 15], k]))).collect() },
        TypeCase { rtype: 60, name: "CDNSKEY", variants: vec![cat(&[u16be(256), vec![3, 8], bytes(7, 2)]), cat(&[u16be(0), vec![3, 0], vec![0]])] },
        TypeCase { rtype: 46, name: "RRSIG", variants: vec![
            cat(&[u16be(1), vec![13, 2], u32be(3600), u32be(1700000000), u32be(1690000000), u16be(12345), plain.clone(), bytes(64, 2)]),
            cat(&[u16be(1234), vec![0, 0], u32be(0), u32be(0), u32be(0), u16be(0), root.clone(), bytes(1, 0)]),
            cat(&[u16be(65535), vec![255, 255], u32be(u32::MAX), u32be(u32::MAX), u32be(u32::MAX), u16be(65535), odd.clone(), bytes(5, 1)]),
            cat(&[u16be(6), vec![8, 3], u32be(86400), u32be(2147483648), u32be(2147483647), u16be(1), long.clone(), bytes(4, 2)])]
            .into_iter().chain(residues().into_iter().take(12).map(|sg| cat(&[u16be(1), vec![13, 2], u32be(300), u32be(1700000000), u32be(1690000000), u16be(9), plain.clone(), sg]))).collect() },
        TypeCase { rtype: 47, name: "NSEC", variants: vec![
            cat(&[plain.clone(), bitmap(&[1, 2, 46, 47])]),
            cat(&[root.clone(), bitmap(&[1234, 65535, 256, 257])]),
            cat(&[odd.clone(), bitmap(&[6])]),
            cat(&[long.clone(), bitmap(&[1, 28, 255, 32768, 65280])])] },
        TypeCase { rtype: 50, name: "NSEC3", variants: vec![
            cat(&[vec![1, 0], u16be(0), vec![0], vec![20], bytes(20, 2), bitmap(&[1, 2, 46])]),
            cat(&[vec![1, 1], u16be(65535), cs(&bytes(4, 1)), cs(&bytes(20, 0)), bitmap(&[])]),
            cat(&[vec![255, 255], u16be(12), cs(&bytes(1, 2)), cs(&bytes(1, 2)), bitmap(&[1234, 65535])]),
            cat(&[vec![1, 0], u16be(5), cs(&bytes(8, 2)), cs(&bytes(32, 2)), bitmap(&[6, 48])]),
            cat(&[vec![1, 0], u16be(5), cs(&bytes(3, 2)), cs(&bytes(5, 1)), bitmap(&[1])])]
            .into_iter().chain(residues().into_iter().map(|h| cat(&[vec![1, 0], u16be(1), cs(&h[..h.len().min(3)]), cs(&h), bitmap(&[1, 46])]))).collect() },
        TypeCase { rtype: 51, name: "NSEC3PARAM", variants: vec![
            cat(&[vec![1, 0], u16be(0), vec![0]]), cat(&[vec![1, 1], u16be(65535), cs(&bytes(8, 2))]),
            cat(&[vec![255, 255], u16be(1), cs(&bytes(1, 0))]), cat(&[vec![0, 0], u16be(10), cs(&bytes(255, 2))])] },
        TypeCase { rtype: 52, name: "TLSA", variants: bins.iter().map(|b| cat(&[vec![3, 1, 1], b.clone()])).chain(
            vec![cat(&[vec![0, 0, 0], bytes(1, 1)]), cat(&[vec![255, 255, 255], bytes(6, 2)])]).collect() },
        TypeCase { rtype: 44, name: "SSHFP", variants: bins.iter().map(|b| cat(&[vec![4, 2], b.clone()])).chain(
            vec![cat(&[vec![0, 0], bytes(1, 0)]), cat(&[vec![255, 255], bytes(20, 1)])]).collect() },
        TypeCase { rtype: 61, name: "OPENPGPKEY", variants: bins.iter().cloned().chain(residues()).collect() },
        TypeCase { rtype: 63, name: "ZONEMD", variants: vec![
            cat(&[u32be(2018031500), vec![1, 1], bytes(48, 2)]), cat(&[u32be(0), vec![0, 0], bytes(12, 0)]),
            cat(&[u32be(u32::MAX), vec![255, 255], bytes(13, 1)]), cat(&[u32be(1), vec![1, 2], bytes(64, 2)])] },
    ];
    for (t, n) in [(64u16, "SVCB"), (65u16, "HTTPS")] {
        table.push(TypeCase { rtype: t, name: n, variants: vec![
            cat(&[u16be(0), plain.clone()]),
            cat(&[u16be(0), root.clone()]),
            cat(&[u16be(1), root.clone()]),
            cat(&[u16be(16), plain.clone(), svc(3, &u16be(53))]),
            cat(&[u16be(1), plain.clone(), svc(1, &cat(&[cs(b"h2"), cs(b"h3")])), svc(3, &u16be(8443)), svc(4, &[192, 0, 2, 1, 198, 51, 100, 2])]),
            cat(&[u16be(1), plain.clone(), svc(1, &cat(&[cs(b"f\\oo,bar"), cs(b"h2")]))]),
            cat(&[u16be(1), plain.clone(), svc(0, &cat(&[u16be(1), u16be(4)])), svc(1, &cs(b"h2")), svc(4, &[192, 0, 2, 1])]),
            cat(&[u16be(65535), plain.clone(), svc(1, &cs(b"h3")), svc(2, &[])]),
            cat(&[u16be(1), plain.clone(), svc(5, &bytes(5, 2)), svc(6, &[0x20, 1, 0x0d, 0xb8, 0, 0, 0, 0, 0, 0, 0, 0, 0, 0, 0, 1])]),
            cat(&[u16be(1), plain.clone(), svc(667, b"hello\xd2\"qoo\\;( )"), svc(65280, &[])]),
            // list-valued parameters: three or more elements, not in ascending
            // order -- the order is data (alpn preference, address hints,
            // tls-supported-groups preference); `mandatory` is sorted by definition
            cat(&[u16be(1), plain.clone(), svc(9, &cat(&[u16be(4588), u16be(29), u16be(23)]))]),
            cat(&[u16be(1), plain.clone(), svc(1, &cat(&[cs(b"h3"), cs(b"h2"), cs(b"http/1.1"), cs(b"dot")]))]),
            cat(&[u16be(1), plain.clone(), svc(4, &[203, 0, 113, 9, 198, 51, 100, 2, 192, 0, 2, 1]),
                  svc(6, &cat(&[vec![0x20, 1, 0x0d, 0xb8, 0, 0, 0, 0, 0, 0, 0, 0, 0, 0, 0, 9],
                                vec![0x20, 1, 0x0d, 0xb8, 0, 0, 0, 0, 0, 0, 0, 0, 0, 0, 0, 5],
                                vec![0x20, 1, 0x0d, 0xb8, 0, 0, 0, 0, 0, 0, 0, 0, 0, 0, 0, 1]]))]),
            cat(&[u16be(1), plain.clone(), svc(0, &cat(&[u16be(1), u16be(3), u16be(4)])), svc(1, &cat(&[cs(b"h3"), cs(b"h2")])),
                  svc(3, &u16be(443)), svc(4, &[198, 51, 100, 2, 192, 0, 2, 1])]),
            cat(&[u16be(2), plain.clone(), svc(1, &cat(&[cs(b"doq"), cs(b"dot"), cs(b"h3")])), svc(3, &u16be(853)),
                  svc(4, &[203, 0, 113, 1, 192, 0, 2, 7, 198, 51, 100, 3]), svc(9, &cat(&[u16be(65535), u16be(256), u16be(1), u16be(25497)]))]),
            // unknown keys whose number contains the digit 9
            cat(&[u16be(1), plain.clone(), svc(129, b"abc"), svc(65289, b"x")]),
            // dohpath (RFC 9461), ohttp (RFC 9540), and all known keys together
            cat(&[u16be(1), plain.clone(), svc(7, b"/dns-query{?dns}")]),
            cat(&[u16be(1), plain.clone(), svc(8, &[])]),
            cat(&[u16be(3), plain.clone(), svc(0, &cat(&[u16be(1), u16be(7)])), svc(1, &cat(&[cs(b"h2"), cs(b"h3")])), svc(3, &u16be(443)),
                  svc(4, &[192, 0, 2, 1]), svc(5, &bytes(7, 2)), svc(6, &[0x20, 1, 0x0d, 0xb8, 0, 0, 0, 0, 0, 0, 0, 0, 0, 0, 0, 2]),
                  svc(7, b"/q{?dns}"), svc(8, &[]), svc(9, &cat(&[u16be(29), u16be(23)]))]),
        ] });
    }
    // unknown type: RFC 3597 generic form
    table.push(TypeCase { rtype: 65280, name: "TYPE65280", variants: vec![vec![], vec![0], vec![0xff, 0], bytes(5, 2), bytes(40, 2)] });
    table
}

// ---------------------------------------------------------------------------
// Restricted-alphabet token fields (Presentation.tla "Field kinds"): the
// carrier records built through their *constructors* (the specification's
// Admitted(kind, v) is what the constructors and the wire parser admit).
pub type FieldData = domain::rdata::ZoneRecordData<bytes::Bytes, domain::base::name::Name<bytes::Bytes>>;

/// The types of an RFC 4034 bitmap, ascending.
pub fn bitmap_types(mut w: &[u8]) -> Option<Vec<u16>> {
    let mut out = vec![];
    while !w.is_empty() {
        if w.len() < 2 { return None; }
        let (win, n) = (w[0] as u16, w[1] as usize);
        if n == 0 || n > 32 || w.len() < 2 + n { return None; }
        for (i, b) in w[2..2 + n].iter().enumerate() {
            for bit in 0..8 { if b & (0x80 >> bit) != 0 { out.push(win * 256 + (i * 8 + bit) as u16); } }
        }
        w = &w[2 + n..];
    }
    Some(out)
}

/// Record data of a carrier type from its field values, through the typed
/// constructors.  None: not a carrier type.  Some(Err): a constructor
/// refuses the value (or the constructors of one field disagree).
pub fn typed_fields(rtype: u16, rdata: &[u8]) -> Option<Result<FieldData, String>> {
    use bytes::Bytes;
    use domain::base::charstr::CharStr;
    use domain::base::iana::{Nsec3HashAlgorithm, Rtype, TlsaCertificateUsage, TlsaMatchingType, TlsaSelector};
    use domain::base::name::Name;
    use domain::rdata::caa::{Caa, CaaFlags, CaaTag};
    use domain::rdata::dnssec::{Nsec, RtypeBitmapBuilder};
    use domain::rdata::nsec3::{Nsec3Salt, Nsec3param};
    use domain::rdata::tlsa::Tlsa;
    let e = |s: &str| Some(Err(s.to_string()));
    match rtype {
        257 => {
            if rdata.len() < 2 || rdata.len() < 2 + rdata[1] as usize { return e("short"); }
            let n = rdata[1] as usize;
            let (tag, val) = (&rdata[2..2 + n], &rdata[2 + n..]);
            // the three checked constructors of a tag agree
            let a = CaaTag::from_octets(Bytes::copy_from_slice(tag));
            let b = CharStr::from_octets(Bytes::copy_from_slice(tag)).map_err(|x| x.to_string())
                .and_then(|c| CaaTag::new(c).map_err(|x| x.to_string()));
            let c = CaaTag::<[u8]>::from_slice(tag).map(|_| ());
            if a.is_ok() != b.is_ok() || a.is_ok() != c.is_ok() { return e("CaaTag constructors disagree"); }
            let t = match a { Ok(t) => t, Err(x) => return Some(Err(x.to_string())) };
            if let Ok(b) = b {
                if b != t || t.to_string().as_bytes() != tag { return e("CaaTag constructors build different tags"); }
            }
            let caa = Caa::new(CaaFlags::new(rdata[0]), t, Bytes::copy_from_slice(val));
            if caa.flags().bits() != rdata[0] || &caa.value()[..] != val { return e("Caa getters"); }
            Some(Ok(FieldData::from(caa)))
        }
        52 => {
            if rdata.len() < 3 { return e("short"); }
            Some(Ok(FieldData::from(Tlsa::new(TlsaCertificateUsage::from_int(rdata[0]), TlsaSelector::from_int(rdata[1]),
                TlsaMatchingType::from_int(rdata[2]), Bytes::copy_from_slice(&rdata[3..])))))
        }
        51 => {
            if rdata.len() < 5 || rdata.len() != 5 + rdata[4] as usize { return e("short"); }
            let salt = match Nsec3Salt::from_octets(Bytes::copy_from_slice(&rdata[5..])) { Ok(s) => s, Err(x) => return Some(Err(x.to_string())) };
            Some(Ok(FieldData::from(Nsec3param::new(Nsec3HashAlgorithm::from_int(rdata[0]), rdata[1],
                u16::from_be_bytes([rdata[2], rdata[3]]), salt))))
        }
        47 => {
            let mut end = 0;
            while end < rdata.len() && rdata[end] != 0 { end += 1 + rdata[end] as usize; }
            if end >= rdata.len() { return e("short"); }
            end += 1;
            let next = match Name::<Bytes>::from_octets(Bytes::copy_from_slice(&rdata[..end])) { Ok(n) => n, Err(x) => return Some(Err(x.to_string())) };
            let types = match bitmap_types(&rdata[end..]) { Some(t) => t, None => return e("bitmap") };
            let mut b = RtypeBitmapBuilder::new_vec();
            // added in descending order: the builder keeps the wire form sorted
            for t in types.iter().rev() { if b.add(Rtype::from_int(*t)).is_err() { return e("bitmap builder"); } }
            let bm = b.finalize();
            if types.iter().any(|t| !bm.contains(Rtype::from_int(*t))) || bm.iter().count() != types.len() { return e("bitmap contents"); }
            let bm = match domain::rdata::dnssec::RtypeBitmap::from_octets(Bytes::from(bm.as_slice().to_vec())) { Ok(x) => x, Err(x) => return Some(Err(x.to_string())) };
            Some(Ok(FieldData::from(Nsec::new(next, bm))))
        }
        _ => None,
    }
}
