//! X11 support code shared by replay_srvmw / record_srvmw: abstract
//! messages of spec/ServerEdns.tla <-> real messages, a recording service,
//! the real stacks (MandatoryMiddlewareSvc(EdnsMiddlewareSvc(svc)),
//! QnameRouter behind SingleServiceToService) and the util.rs helpers.
//!
//! Included with `#[path = "../srvmw.rs"] mod srvmw;` by the two binaries.
#![allow(dead_code)]

use std::sync::{Arc, Mutex};
use std::time::Duration;

use domain::base::iana::{Class, Opcode, OptRcode, OptionCode, Rcode};
use domain::base::message_builder::AdditionalBuilder;
use domain::base::name::Name;
use domain::base::opt::ExtendedError;
use domain::base::rdata::UnknownRecordData;
use domain::base::record::Ttl;
use domain::base::{Message, MessageBuilder, Rtype, StreamTarget};
use domain::net::server::adapter::SingleServiceToService;
use domain::net::server::message::{
    NonUdpTransportContext, Request, TransportSpecificContext, UdpTransportContext,
};
use domain::net::server::middleware::edns::EdnsMiddlewareSvc;
use domain::net::server::middleware::mandatory::MandatoryMiddlewareSvc;
use domain::net::server::qname_router::QnameRouter;
use domain::net::server::service::{CallResult, Service, ServiceError, ServiceResult};
use domain::net::server::single_service::{ComposeReply, ReplyMessage, SingleService};
use domain::net::server::util::{
    add_edns_options, mk_builder_for_target, mk_error_response, remove_edns_opt_record,
    service_fn,
};
use domain::rdata::A;
use futures_util::StreamExt;
use serde_json::{json, Value};

pub const NOV: u64 = 70000;
pub const FILL_RTYPE: u16 = 65280;

pub fn rt() -> tokio::runtime::Runtime {
    tokio::runtime::Builder::new_current_thread()
        .enable_time()
        .start_paused(true)
        .build()
        .unwrap()
}

//------------ abstract -> real ----------------------------------------------

fn opt_data(o: &Value) -> Vec<u8> {
    let len = o["len"].as_u64().unwrap_or(0) as usize;
    let val = o["val"].as_u64().unwrap_or(0);
    let mut d = vec![0u8; len];
    if len >= 2 {
        d[len - 2] = (val >> 8) as u8;
        d[len - 1] = val as u8;
    } else if len == 1 {
        d[0] = val as u8;
    }
    d
}

fn opt_rdata(it: &Value) -> Vec<u8> {
    if it["bad"].as_bool().unwrap_or(false) {
        // an option that announces five octets and has one
        return vec![0, 10, 0, 5, 1];
    }
    let mut r = vec![];
    for o in it["opts"].as_array().cloned().unwrap_or_default() {
        let d = opt_data(&o);
        r.extend_from_slice(&(o["code"].as_u64().unwrap_or(0) as u16).to_be_bytes());
        r.extend_from_slice(&(d.len() as u16).to_be_bytes());
        r.extend_from_slice(&d);
    }
    r
}

pub fn push_item(b: &mut AdditionalBuilder<StreamTarget<Vec<u8>>>, it: &Value) {
    if it["t"] == "a" {
        b.push((Name::root_vec(), Class::IN, Ttl::from_secs(0), A::from_octets(10, 0, 0, 1)))
            .unwrap();
    } else {
        let ttl = ((it["xrc"].as_u64().unwrap_or(0) as u32) << 24)
            | ((it["ver"].as_u64().unwrap_or(0) as u32) << 16)
            | if it["do"].as_bool().unwrap_or(false) { 0x8000 } else { 0 };
        b.push((
            Name::root_vec(),
            Class::from_int(it["size"].as_u64().unwrap_or(0) as u16),
            Ttl::from_secs(ttl),
            UnknownRecordData::from_octets(Rtype::OPT, opt_rdata(it)).unwrap(),
        ))
        .unwrap();
    }
}

pub fn qname(i: usize) -> Name<Vec<u8>> {
    let s = if i == 0 { "a.example.com" } else { "b.example.com" };
    Name::from_chars(s.chars()).unwrap()
}

/// A message [id, qr, opcode, rd, tc, rcode, qd, body, adds] as a builder.
pub fn build_msg(m: &Value, qn: &dyn Fn(usize) -> Name<Vec<u8>>) -> AdditionalBuilder<StreamTarget<Vec<u8>>> {
    let mut b = mk_builder_for_target::<Vec<u8>>();
    {
        let h = b.header_mut();
        h.set_id(m["id"].as_u64().unwrap_or(0) as u16);
        h.set_qr(m["qr"].as_bool().unwrap_or(false));
        h.set_opcode(Opcode::from_int(m["opcode"].as_u64().unwrap_or(0) as u8));
        h.set_rd(m["rd"].as_bool().unwrap_or(false));
        h.set_tc(m["tc"].as_bool().unwrap_or(false));
        h.set_rcode(Rcode::masked_from_int(m["rcode"].as_u64().unwrap_or(0) as u8));
    }
    let mut q = b.question();
    for i in 0..m["qd"].as_u64().unwrap_or(0) as usize {
        q.push((qn(i), Rtype::A)).unwrap();
    }
    let mut an = q.answer();
    for r in m["body"].as_array().cloned().unwrap_or_default() {
        let n = r.as_u64().unwrap_or(0) as usize;
        an.push((
            Name::root_vec(),
            Class::IN,
            Ttl::from_secs(0),
            UnknownRecordData::from_octets(Rtype::from_int(FILL_RTYPE), vec![0u8; n]).unwrap(),
        ))
        .unwrap();
    }
    let mut ad = an.additional();
    for it in m["adds"].as_array().cloned().unwrap_or_default() {
        push_item(&mut ad, &it);
    }
    ad
}

pub fn build_request(req: &Value) -> Request<Vec<u8>, ()> {
    build_request_q(req, &qname)
}

pub fn build_request_q(req: &Value, qn: &dyn Fn(usize) -> Name<Vec<u8>>) -> Request<Vec<u8>, ()> {
    let mut m = req.clone();
    m["tc"] = json!(false);
    m["rcode"] = json!(0);
    m["body"] = json!([]);
    let b = build_msg(&m, qn);
    let msg = Message::from_octets(b.finish().as_dgram_slice().to_vec()).unwrap();
    let ctx: TransportSpecificContext = if req["udp"].as_bool().unwrap_or(true) {
        let h = req["hint"].as_u64().unwrap_or(NOV);
        UdpTransportContext::new(if h >= NOV { None } else { Some(h as u16) }).into()
    } else {
        let i = req["idle"].as_u64().unwrap_or(NOV);
        NonUdpTransportContext::new(if i == NOV {
            None
        } else {
            Some(Duration::from_millis(i * 100))
        })
        .into()
    };
    Request::new("192.0.2.1:5353".parse().unwrap(), tokio::time::Instant::now(), msg, ctx, ())
}

//------------ real -> abstract ----------------------------------------------

fn proj_opt(class: u16, ttl: u32, rdata: &[u8]) -> Value {
    let mut opts = vec![];
    let mut p = 0usize;
    let mut bad = false;
    while p < rdata.len() {
        if p + 4 > rdata.len() {
            bad = true;
            break;
        }
        let code = u16::from_be_bytes([rdata[p], rdata[p + 1]]);
        let len = u16::from_be_bytes([rdata[p + 2], rdata[p + 3]]) as usize;
        if p + 4 + len > rdata.len() {
            bad = true;
            break;
        }
        let d = &rdata[p + 4..p + 4 + len];
        let val: u64 = if len >= 2 {
            ((d[len - 2] as u64) << 8) | d[len - 1] as u64
        } else if len == 1 {
            d[0] as u64
        } else {
            0
        };
        opts.push(json!({"code": code, "len": len, "val": val}));
        p += 4 + len;
    }
    if bad {
        return json!({"t": "opt", "bad": true, "ver": 0, "size": 0, "do": false, "xrc": 0, "opts": []});
    }
    json!({"t": "opt", "bad": false, "ver": (ttl >> 16) & 0xff, "size": class,
           "do": ttl & 0x8000 != 0, "xrc": ttl >> 24, "opts": opts})
}

pub fn a_item() -> Value {
    json!({"t": "a", "bad": false, "ver": 0, "size": 0, "do": false, "xrc": 0, "opts": []})
}

/// The abstract message of some octets; `want_q`: the questions it must
/// carry (qd = -1 otherwise).  Other header bits than the modelled ones
/// and the remaining TTL bits of an OPT record must be clear (z).
pub fn proj_msg(bytes: &[u8], want_q: &[u8]) -> Value {
    let m = match Message::from_octets(bytes.to_vec()) {
        Ok(m) => m,
        Err(_) => return json!({"unparsable": true}),
    };
    let h = m.header();
    let c = m.header_counts();
    // the question section, octet for octet (no compression in a Vec target)
    let q = m.question();
    let mut qd = c.qdcount() as i64;
    let mut n = 0;
    for x in q {
        if x.is_err() {
            qd = -1;
        }
        n += 1;
    }
    if n != c.qdcount() {
        qd = -1;
    }
    let ans = match m.answer() {
        Ok(a) => a,
        Err(_) => return json!({"unparsable": true}),
    };
    // where the question section ends
    let qend = {
        let mut pos = 12usize;
        for _ in 0..c.qdcount() {
            while pos < bytes.len() && bytes[pos] != 0 {
                pos += 1 + bytes[pos] as usize;
            }
            pos += 5;
        }
        pos
    };
    if qend > bytes.len() || &bytes[12..qend] != want_q {
        qd = -1;
    }
    let mut body = vec![];
    for r in ans {
        match r {
            Ok(r) => body.push(json!(r.into_record::<UnknownRecordData<_>>().ok().flatten().map(|x| x.data().data().len()).unwrap_or(99999))),
            Err(_) => return json!({"unparsable": true}),
        }
    }
    let mut z = 0;
    if h.aa() { z += 1 }
    if h.ra() { z += 1 }
    if h.z() { z += 1 }
    if h.ad() { z += 1 }
    if h.cd() { z += 1 }
    if c.nscount() != 0 { z += 1 }
    let mut nonopt = vec![];
    let mut opts = vec![];
    let mut narec = 0;
    match m.additional() {
        Ok(sec) => {
            for r in sec {
                match r {
                    Ok(r) => {
                        narec += 1;
                        if r.rtype() == Rtype::OPT {
                            let ttl = r.ttl().as_secs();
                            if ttl & 0x7fff != 0 { z += 1 }
                            if !r.owner().is_root() { z += 1 }
                            let rec = r.into_record::<UnknownRecordData<_>>().unwrap().unwrap();
                            opts.push(proj_opt(rec.class().to_int(), ttl, rec.data().data().as_ref()));
                        } else {
                            nonopt.push(a_item());
                        }
                    }
                    Err(_) => return json!({"unparsable": true}),
                }
            }
        }
        Err(_) => return json!({"unparsable": true}),
    }
    if narec != c.arcount() { z += 1 }
    nonopt.extend(opts);
    json!({"err": false, "id": h.id(), "qr": h.qr(), "opcode": h.opcode().to_int(),
           "rd": h.rd(), "tc": h.tc(), "rcode": h.rcode().to_int(), "qd": qd,
           "body": body, "adds": nonopt, "z": z})
}

pub fn err_msg() -> Value {
    json!({"err": true, "id": 0, "qr": false, "opcode": 0, "rd": false, "tc": false,
           "rcode": 0, "qd": 0, "body": [], "adds": [], "z": 0})
}

pub fn question_octets(req: &Request<Vec<u8>, ()>) -> Vec<u8> {
    let b = req.message().as_slice();
    let mut pos = 12usize;
    for _ in 0..req.message().header_counts().qdcount() {
        while pos < b.len() && b[pos] != 0 {
            pos += 1 + b[pos] as usize;
        }
        pos += 5;
    }
    b[12..pos.min(b.len())].to_vec()
}

//------------ the recording service -----------------------------------------

#[derive(Default, Debug)]
pub struct Seen {
    pub calls: u64,
    pub hint: u64,
    pub reserved: u64,
}

#[derive(Clone)]
pub struct SvcMeta {
    pub seen: Arc<Mutex<Seen>>,
    pub svc: Value,
}

fn handler(req: Request<Vec<u8>, ()>, meta: SvcMeta) -> ServiceResult<Vec<u8>> {
    {
        let mut s = meta.seen.lock().unwrap();
        s.calls += 1;
        s.hint = match req.transport_ctx() {
            TransportSpecificContext::Udp(c) => c.max_response_size_hint().map(|x| x as u64).unwrap_or(NOV),
            TransportSpecificContext::NonUdp(_) => NOV,
        };
        s.reserved = req.num_reserved_bytes() as u64;
    }
    let svc = &meta.svc;
    if svc["kind"] == "err" {
        return Err(ServiceError::Refused);
    }
    let b = mk_builder_for_target::<Vec<u8>>();
    let mut an = b
        .start_answer(req.message(), Rcode::masked_from_int(svc["rc"].as_u64().unwrap_or(0) as u8))
        .map_err(|_| ServiceError::InternalError)?;
    for r in svc["body"].as_array().cloned().unwrap_or_default() {
        let n = r.as_u64().unwrap_or(0) as usize;
        an.push((
            Name::root_vec(),
            Class::IN,
            Ttl::from_secs(0),
            UnknownRecordData::from_octets(Rtype::from_int(FILL_RTYPE), vec![0u8; n]).unwrap(),
        ))
        .unwrap();
    }
    let mut ad = an.additional();
    for it in svc["adds"].as_array().cloned().unwrap_or_default() {
        push_item(&mut ad, &it);
    }
    if svc["scr"].as_bool().unwrap_or(false) {
        let id = req.message().header().id().wrapping_add(1);
        let rd = !req.message().header().rd();
        let h = ad.header_mut();
        h.set_id(id);
        h.set_qr(false);
        h.set_rd(rd);
    }
    Ok(CallResult::new(ad))
}

/// One request through MandatoryMiddlewareSvc(EdnsMiddlewareSvc(service)).
pub fn run_stack(input: &Value) -> Value {
    let req = build_request(&input["req"]);
    let want_q = question_octets(&req);
    let keep = req.clone();
    let seen = Arc::new(Mutex::new(Seen::default()));
    let meta = SvcMeta { seen: seen.clone(), svc: input["svc"].clone() };
    let inner = service_fn(handler, meta);
    let edns = EdnsMiddlewareSvc::new(inner).enable(input["cfg"]["eon"].as_bool().unwrap_or(true));
    let items: Vec<ServiceResult<Vec<u8>>> = rt().block_on(async {
        if input["cfg"]["strict"].as_bool().unwrap_or(true) {
            let st = MandatoryMiddlewareSvc::new(edns);
            st.call(req).await.collect().await
        } else {
            let st = MandatoryMiddlewareSvc::relaxed(edns);
            st.call(req).await.collect().await
        }
    });
    let s = seen.lock().unwrap();
    let resp = match items.first() {
        Some(Ok(cr)) => match cr.response() {
            Some(r) => proj_msg(r.as_slice(), &want_q),
            None => json!({"noresponse": true}),
        },
        Some(Err(_)) => err_msg(),
        None => json!({"noitem": true}),
    };
    let hint = match keep.transport_ctx() {
        TransportSpecificContext::Udp(c) => c.max_response_size_hint().map(|x| x as u64).unwrap_or(NOV),
        TransportSpecificContext::NonUdp(_) => NOV,
    };
    let mut o = json!({
        "by": if s.calls > 0 { "service" } else { "mw" },
        "seen": if s.calls > 0 { json!({"called": true, "hint": s.hint, "reserved": s.reserved}) }
                else { json!({"called": false, "hint": 0, "reserved": 0}) },
        "hint": hint,
        "resp": resp,
    });
    if items.len() != 1 || s.calls > 1 {
        o["items"] = json!(items.len());
        o["calls"] = json!(s.calls);
    }
    // the stream-framed view must announce the same length
    if let Some(Ok(cr)) = items.first() {
        if let Some(r) = cr.response() {
            let f = r.clone().finish();
            let st = f.as_stream_slice();
            if st.len() != f.as_dgram_slice().len() + 2
                || u16::from_be_bytes([st[0], st[1]]) as usize != f.as_dgram_slice().len()
            {
                o["badframe"] = json!(true);
            }
        }
    }
    o
}

//------------ util.rs -------------------------------------------------------

pub fn run_err(input: &Value) -> Value {
    let req = build_request(&input["req"]);
    let want_q = question_octets(&req);
    let rc = OptRcode::masked_from_int(input["rc"].as_u64().unwrap_or(0) as u16);
    let r: AdditionalBuilder<StreamTarget<Vec<u8>>> = mk_error_response(req.message(), rc);
    proj_msg(r.as_slice(), &want_q)
}

fn q_octets_of(m: &Value) -> Vec<u8> {
    let mut r = json!({"udp": true, "hint": NOV, "idle": NOV});
    for k in ["id", "rd", "qr", "opcode", "qd"] {
        r[k] = m[k].clone();
    }
    r["adds"] = json!([]);
    question_octets(&build_request(&r))
}

pub fn run_add(input: &Value) -> Value {
    let mut b = build_msg(&input["m"], &qname);
    let want_q = q_octets_of(&input["m"]);
    let cap = input["cap"].as_u64().unwrap_or(NOV);
    if cap < NOV {
        b.set_push_limit(cap as usize + 1);
    }
    let new = input["new"].as_array().cloned().unwrap_or_default();
    let res = add_edns_options(&mut b, |ob| {
        for o in &new {
            let d = opt_data(o);
            ob.push_raw_option(
                OptionCode::from_int(o["code"].as_u64().unwrap_or(0) as u16),
                d.len() as u16,
                |t| {
                    use octseq::OctetsBuilder;
                    t.append_slice(&d)
                },
            )?;
        }
        Ok(())
    });
    json!({"ok": res.is_ok(), "m": proj_msg(b.as_slice(), &want_q)})
}

pub fn run_rm(input: &Value) -> Value {
    let mut b = build_msg(&input["m"], &qname);
    let want_q = q_octets_of(&input["m"]);
    let res = remove_edns_opt_record(&mut b);
    json!({"ok": res.is_ok(), "m": proj_msg(b.as_slice(), &want_q)})
}

//------------ routing -------------------------------------------------------

pub fn name_of(v: &Value) -> Name<Vec<u8>> {
    let mut w = vec![];
    for l in v.as_array().cloned().unwrap_or_default() {
        let l: Vec<u8> = l.as_array().map(|a| a.iter().map(|x| x.as_u64().unwrap_or(0) as u8).collect()).unwrap_or_default();
        w.push(l.len() as u8);
        w.extend_from_slice(&l);
    }
    w.push(0);
    Name::from_octets(w).unwrap()
}

pub struct Leaf {
    pub idx: u8,
    pub log: Arc<Mutex<Vec<u8>>>,
}

impl SingleService<Vec<u8>, (), ReplyMessage> for Leaf {
    fn call(
        &self,
        request: Request<Vec<u8>, ()>,
    ) -> std::pin::Pin<Box<dyn std::future::Future<Output = Result<ReplyMessage, ServiceError>> + Send + Sync>>
    {
        self.log.lock().unwrap().push(self.idx);
        let b = MessageBuilder::new_vec();
        let mut an = b.start_answer(request.message(), Rcode::NOERROR).unwrap();
        an.push((Name::root_vec(), Class::IN, Ttl::from_secs(5), A::from_octets(10, 0, 0, self.idx)))
            .unwrap();
        let msg = an.into_message();
        Box::pin(std::future::ready(ReplyMessage::from_message(&msg)))
    }
}

pub type Router = QnameRouter<Vec<u8>, Vec<u8>, (), ReplyMessage>;

pub fn route_request(q: &Value, qd: u64, edns: bool) -> Request<Vec<u8>, ()> {
    let qn = name_of(q);
    let adds = if edns {
        json!([{"t": "opt", "bad": false, "ver": 0, "size": 1232, "do": false, "xrc": 0, "opts": []}])
    } else {
        json!([])
    };
    let r = json!({"udp": true, "hint": NOV, "idle": NOV, "id": 4242, "rd": true, "qr": false,
                   "opcode": 0, "qd": qd, "adds": adds});
    build_request_q(&r, &|_| qn.clone())
}

/// the reply of a routed request, projected as ServerRouting!Reply
pub fn proj_route(items: &[ServiceResult<Vec<u8>>], log: &[u8], req: &Request<Vec<u8>, ()>, qd: u64) -> Value {
    let chosen = log.last().copied().unwrap_or(0);
    if qd == 0 {
        return json!({"chosen": chosen, "ncalls": log.len(), "answered": items.len() == 1});
    }
    let want_q = question_octets(req);
    match items.first() {
        Some(Ok(cr)) if items.len() == 1 => {
            let r = cr.response().unwrap();
            let m = Message::from_octets(r.as_slice().to_vec()).unwrap();
            let p = proj_msg(r.as_slice(), &want_q);
            let mut marker = 0u8;
            let mut nans = 0;
            if let Ok(ans) = m.answer() {
                for rr in ans.limit_to::<A>().flatten() {
                    marker = rr.data().addr().octets()[3];
                    nans += 1;
                }
            }
            if nans > 1 {
                marker = 255;
            }
            let ede = m
                .opt()
                .map(|o| {
                    o.opt().iter::<ExtendedError<_>>().flatten().any(|e| {
                        e.text().map(|t| t.map(|s| { let s: &str = s.as_ref(); s == "No upstream for request" }).unwrap_or(false)).unwrap_or(false)
                    })
                })
                .unwrap_or(false);
            json!({"chosen": chosen, "ncalls": log.len(), "rcode": m.opt_rcode().to_int(),
                   "marker": marker, "opt": m.opt().is_some(), "ede": ede,
                   "qd": p["qd"], "idok": m.header().id() == req.message().header().id() && m.header().qr()})
        }
        _ => json!({"chosen": chosen, "ncalls": log.len(), "items": items.len()}),
    }
}

pub fn call_router(router: Arc<SingleServiceToService<Vec<u8>, Router, ReplyMessage, ()>>, req: Request<Vec<u8>, ()>, mw: bool) -> Vec<ServiceResult<Vec<u8>>> {
    rt().block_on(async {
        if mw {
            let st = EdnsMiddlewareSvc::new(ArcSvc(router));
            st.call(req).await.collect().await
        } else {
            router.call(req).await.collect().await
        }
    })
}

/// Service through an Arc (the adapter is neither Clone nor needs to be)
pub struct ArcSvc(pub Arc<SingleServiceToService<Vec<u8>, Router, ReplyMessage, ()>>);
impl Service<Vec<u8>, ()> for ArcSvc {
    type Target = Vec<u8>;
    type Stream = <SingleServiceToService<Vec<u8>, Router, ReplyMessage, ()> as Service<Vec<u8>, ()>>::Stream;
    type Future = <SingleServiceToService<Vec<u8>, Router, ReplyMessage, ()> as Service<Vec<u8>, ()>>::Future;
    fn call(&self, request: Request<Vec<u8>, ()>) -> Self::Future {
        self.0.call(request)
    }
}

pub fn run_route(input: &Value) -> Value {
    let log = Arc::new(Mutex::new(vec![]));
    let mut router: Router = QnameRouter::new();
    for (i, n) in input["routes"].as_array().cloned().unwrap_or_default().iter().enumerate() {
        router.add(name_of(n), Leaf { idx: i as u8 + 1, log: log.clone() });
    }
    let qd = input["qd"].as_u64().unwrap_or(1);
    let req = route_request(&input["q"], qd, input["edns"].as_bool().unwrap_or(false));
    let keep = req.clone();
    let svc = Arc::new(SingleServiceToService::new(router));
    let items = call_router(svc, req, input["mw"].as_bool().unwrap_or(false));
    let l = log.lock().unwrap().clone();
    proj_route(&items, &l, &keep, qd)
}

pub fn run_case(input: &Value) -> Value {
    match input["k"].as_str().unwrap_or("") {
        "stack" => run_stack(input),
        "err" => run_err(input),
        "add" => run_add(input),
        "rm" => run_rm(input),
        "route" => run_route(input),
        _ => json!({"badkind": true}),
    }
}
