//! X07 — whole-zone signing (spec/ZoneSigner.tla) and the SortedRecords
//! collection (spec/SortedRecords.tla): building zones from the
//! specification's RRset entries, running `sign_zone` through both calling
//! conventions and several assemblies of the collection, projecting the
//! result (signatures, denial records, untouched remainder), the closure
//! with the real verification routine and the real validator, and the
//! op-by-op driver of a SortedRecords collection.
#![allow(dead_code)]

use crate::dnssec::*;
use bytes::Bytes;
use domain::base::iana::{Class, Nsec3HashAlgorithm, Rcode, Rtype};
use domain::base::name::{ToLabelIter, ToName};
use domain::base::{Message, MessageBuilder, Record};
use domain::crypto::sign::{generate, GenerateParams, KeyPair, SignRaw};
use domain::dnssec::sign::denial::config::DenialConfig;
use domain::dnssec::sign::denial::nsec::GenerateNsecConfig;
use domain::dnssec::sign::denial::nsec3::GenerateNsec3Config;
use domain::dnssec::sign::keys::SigningKey;
use domain::dnssec::sign::records::{DefaultSorter, Rrset, SortedRecords};
use domain::dnssec::sign::signatures::rrsigs::sign_rrset;
use domain::dnssec::sign::traits::{SignableZone, SignableZoneInPlace};
use domain::dnssec::sign::SigningConfig;
use domain::dnssec::validator::anchor::TrustAnchors;
use domain::dnssec::validator::base::RrsigExt;
use domain::dnssec::validator::context::{ValidationContext, ValidationState};
use domain::net::client::request::{
    ComposeRequest, Error as ReqError, GetResponse, RequestMessage, SendRequest,
};
use domain::rdata::dnssec::Timestamp;
use domain::rdata::nsec3::Nsec3Salt;
use domain::rdata::{Dnskey, Nsec3param, ZoneRecordData};
use domain::utils::base32;
use serde_json::{json, Value};
use std::cmp::Ordering;
use std::collections::HashMap;
use std::future::Future;
use std::pin::Pin;
use std::sync::Arc;

pub type Coll = SortedRecords<SName, SData>;

//------------ record construction ----------------------------------------------

fn raw(o: &[u8]) -> Value {
    json!({"k": "raw", "o": jbytes(o), "n": []})
}
fn nmf(labels: &[&[u8]]) -> Value {
    json!({"k": "name", "o": [], "n": labels.iter().map(|l| jbytes(l)).collect::<Vec<_>>()})
}

/// Well-formed record data number `i` of type `t` (field sequence for
/// `dnssec::rd_wire`); different `i` give different data.
pub fn rd_for(t: u16, i: u8, soa_min: u32) -> Value {
    let tag = [b'0' + (i % 10)];
    match t {
        1 => json!([raw(&[192, 0, 2, i + 1])]),
        2 | 5 | 12 | 39 => json!([nmf(&[&[b'n', b's', tag[0]], b"Example"])]),
        6 => {
            let mut tail = vec![0, 0, 0, 1, 0, 0, 14, 16, 0, 0, 3, 132, 0, 9, 58, 128];
            tail.extend_from_slice(&soa_min.to_be_bytes());
            json!([nmf(&[b"ns", b"example"]), nmf(&[b"h", b"example"]), raw(&tail)])
        }
        13 => json!([raw(&[3, b'c', b'p', b'u', 2, b'o', tag[0]])]),
        15 => json!([raw(&[0, 10 + i]), nmf(&[b"mx", b"example"])]),
        16 => json!([raw(&[2, b'x', tag[0]])]),
        17 => json!([nmf(&[b"mbox", b"example"]), nmf(&[&[b't', tag[0]], b"example"])]),
        28 => json!([raw(&[32, 1, 13, 184, 0, 0, 0, 0, 0, 0, 0, 0, 0, 0, 0, i + 1])]),
        33 => json!([raw(&[0, 1, 0, i, 0, 80]), nmf(&[b"h", b"example"])]),
        35 => json!([raw(&[0, i, 0, 1, 1, b'u', 3, b's', b'i', b'p', 0]), nmf(&[b"r", b"example"])]),
        43 | 59 => {
            let mut v = vec![0, i, 13, 2];
            v.extend_from_slice(&[7u8; 32]);
            json!([raw(&v)])
        }
        44 => json!([raw(&[4, 2, 1, 2, 3, i])]),
        48 | 60 => {
            let mut v = vec![1, 0, 3, 13];
            v.extend_from_slice(&[9u8.wrapping_add(i); 64]);
            json!([raw(&v)])
        }
        61 => json!([raw(&[0x99, 1, i])]),
        64 | 65 => json!([raw(&[0, 1 + i]), nmf(&[b"svc", b"example"])]),
        257 => json!([raw(&[0, 5, b'i', b's', b's', b'u', b'e', b'x', tag[0]])]),
        _ => json!([raw(&[1, 2, 3, i])]),
    }
}

/// `[{n, t, ttl, cnt}]` -> records (through the library's own parsers)
pub fn records_of_rrsets(rrsets: &Value, soa_min: u32) -> Result<Vec<SRecord>, String> {
    let mut rrs = vec![];
    for e in rrsets.as_array().cloned().unwrap_or_default() {
        let t = e["t"].as_u64().unwrap_or(1) as u16;
        for i in 0..e["cnt"].as_u64().unwrap_or(1) {
            rrs.push(json!({"owner": e["n"], "type": t, "class": 1, "ttl": e["ttl"],
                            "rd": rd_for(t, i as u8, soa_min)}));
        }
    }
    records_of(&Value::Array(rrs))
}

/// the collection assembled in one of several ways from the same records
pub fn assemble(recs: &[SRecord], how: usize) -> Coll {
    match how % 4 {
        0 => SortedRecords::from(recs.to_vec()),
        1 => {
            // insert() one by one, starting in the middle
            let mut c: Coll = SortedRecords::default();
            let n = recs.len();
            for i in 0..n {
                let _ = c.insert(recs[(i + n / 2) % n].clone());
            }
            c
        }
        2 => {
            // two overlapping extend() batches
            let mut c: Coll = SortedRecords::default();
            let n = recs.len();
            c.extend(recs[n / 3..].iter().cloned());
            c.extend(recs[..(2 * n / 3).max(n / 3)].iter().rev().cloned());
            c
        }
        _ => {
            let mut v = recs.to_vec();
            v.reverse();
            let mut c: Coll = v.into_iter().collect();
            for r in recs.iter().take(2) {
                let _ = c.insert(r.clone()); // refused duplicates
            }
            c
        }
    }
}

//------------ signing ------------------------------------------------------------

pub fn denial_config(den: &str, salt: &[u8], iters: u16) -> Result<DenialConfig<Bytes, DefaultSorter>, String> {
    Ok(match den {
        "none" => DenialConfig::AlreadyPresent,
        "nsec" => DenialConfig::Nsec(GenerateNsecConfig::new()),
        "nsec3" | "optout" => {
            let salt = Nsec3Salt::from_octets(Bytes::copy_from_slice(salt)).map_err(|e| format!("{e}"))?;
            let params = Nsec3param::new(Nsec3HashAlgorithm::SHA1, 0, iters, salt);
            let cfg = GenerateNsec3Config::<Bytes, DefaultSorter>::new(params);
            DenialConfig::Nsec3(if den == "optout" { cfg.with_opt_out() } else { cfg })
        }
        _ => return Err("denial mode".into()),
    })
}

/// Runs sign_zone.  Returns the zone collection after the call and the
/// records written to `out` (empty for in-place signing).
pub fn run_sign<K: SignRaw + std::fmt::Debug>(
    zone: Coll,
    apex: &SName,
    mode: &str,
    den: DenialConfig<Bytes, DefaultSorter>,
    inc: u32,
    exp: u32,
    keys: &[&SigningKey<Bytes, K>],
) -> (Result<(), String>, Vec<SRecord>, Vec<SRecord>) {
    let cfg: SigningConfig<Bytes, DefaultSorter> =
        SigningConfig::new(den, Timestamp::from(inc), Timestamp::from(exp));
    if mode == "into" {
        let mut out: Coll = SortedRecords::default();
        let r = SignableZone::sign_zone(&zone, apex, &cfg, keys, &mut out).map_err(|e| format!("{e}"));
        (r, zone.into_inner(), out.into_inner())
    } else {
        let mut zone = zone;
        let r = SignableZoneInPlace::sign_zone(&mut zone, apex, &cfg, keys).map_err(|e| format!("{e}"));
        (r, zone.into_inner(), vec![])
    }
}

//------------ projection ---------------------------------------------------------

/// a record as a comparable tuple: lower-cased owner wire, class, type, ttl,
/// canonical record data
pub fn tuple(r: &SRecord) -> (Vec<u8>, u16, u16, u32, Vec<u8>) {
    use domain::base::rdata::ComposeRecordData;
    let mut rd = vec![];
    let _ = r.data().compose_canonical_rdata(&mut rd);
    let mut o = vec![];
    for l in r.owner().iter_labels() {
        o.push(l.len() as u8);
        o.extend(l.as_slice().iter().map(|b| b.to_ascii_lowercase()));
    }
    (o, r.class().to_int(), r.rtype().to_int(), r.ttl().as_secs(), rd)
}

fn is_denial(t: Rtype) -> bool {
    t == Rtype::NSEC || t == Rtype::NSEC3 || t == Rtype::NSEC3PARAM
}

/// hash label (lower case base32hex) -> the name the specification says it
/// is the hash of (independent SHA-1 through the term evaluator)
pub fn hash_names(names: &Value) -> HashMap<String, Value> {
    let mut m = HashMap::new();
    for n in names.as_array().cloned().unwrap_or_default() {
        let h = eval_term(&n["term"]);
        m.insert(base32::encode_string_hex(&h).to_ascii_lowercase(), n["n"].clone());
    }
    m
}

/// (hashed?, name) of a record owner: NSEC3 owners and the owners of RRSIGs
/// covering NSEC3 are mapped back to the hashed name
fn owner_key(owner: &SName, hashed: bool, hmap: &HashMap<String, Value>) -> Result<(u8, SName), String> {
    if !hashed {
        return Ok((0, owner.clone()));
    }
    let first = owner.iter_labels().next().ok_or("empty owner")?;
    let l = String::from_utf8_lossy(first.as_slice()).to_ascii_lowercase();
    match hmap.get(&l) {
        Some(n) => Ok((1, name_of(n))),
        None => Err(format!("NSEC3 owner label {l} is not the hash of an expected name")),
    }
}

pub struct Projection {
    pub sigs: Value,
    pub den: Value,
    /// everything that is neither RRSIG nor a denial record
    pub rest: Vec<SRecord>,
}

/// `keytags[i]` -> key index i+1, `model_tags[i]` the tag to report for it
pub fn project(
    recs: &[SRecord],
    hmap: &HashMap<String, Value>,
    keytags: &[(u8, u16)],
    model_tags: &[u16],
) -> Result<Projection, String> {
    let mut sigs: Vec<((u8, SName), u16, usize, Value)> = vec![];
    let mut den: Vec<((u8, SName), u16, Value)> = vec![];
    let mut rest = vec![];
    for r in recs {
        match r.data() {
            ZoneRecordData::Rrsig(s) => {
                let cov = s.type_covered();
                let k = owner_key(r.owner(), cov == Rtype::NSEC3, hmap)?;
                let ki = keytags
                    .iter()
                    .position(|(a, t)| *a == s.algorithm().to_int() && *t == s.key_tag())
                    .ok_or_else(|| format!("RRSIG with key tag {} of no key", s.key_tag()))?;
                let v = json!({
                    "h": k.0, "n": jname_lower(&k.1), "cov": cov.to_int(), "key": ki + 1,
                    "alg": s.algorithm().to_int(), "labels": s.labels(),
                    "ttl": r.ttl().as_secs(), "ottl": s.original_ttl().as_secs(),
                    "exp": jbytes(&s.expiration().into_int().to_be_bytes()),
                    "inc": jbytes(&s.inception().into_int().to_be_bytes()),
                    "tag": model_tags[ki], "signer": jname_lower(s.signer_name()),
                });
                if r.class() != Class::IN {
                    return Err("RRSIG class".into());
                }
                sigs.push((k, cov.to_int(), ki, v));
            }
            _ if is_denial(r.rtype()) => {
                let k = owner_key(r.owner(), r.rtype() == Rtype::NSEC3, hmap)?;
                let v = json!({"h": k.0, "n": jname_lower(&k.1), "t": r.rtype().to_int(),
                               "ttl": r.ttl().as_secs()});
                den.push((k, r.rtype().to_int(), v));
            }
            _ => rest.push(r.clone()),
        }
    }
    let ord = |a: &(u8, SName), b: &(u8, SName)| a.0.cmp(&b.0).then_with(|| a.1.name_cmp(&b.1));
    sigs.sort_by(|a, b| ord(&a.0, &b.0).then(a.1.cmp(&b.1)).then(a.2.cmp(&b.2)));
    den.sort_by(|a, b| ord(&a.0, &b.0).then(a.1.cmp(&b.1)));
    Ok(Projection {
        sigs: Value::Array(sigs.into_iter().map(|x| x.3).collect()),
        den: Value::Array(den.into_iter().map(|x| x.2).collect()),
        rest,
    })
}

pub fn same_records(a: &[SRecord], b: &[SRecord]) -> bool {
    let mut x: Vec<_> = a.iter().map(tuple).collect();
    let mut y: Vec<_> = b.iter().map(tuple).collect();
    x.sort();
    y.sort();
    x == y
}

/// strictly ascending in the library's canonical order?
pub fn is_canonical(recs: &[SRecord]) -> bool {
    use domain::base::cmp::CanonicalOrd;
    recs.windows(2).all(|w| w[0].canonical_cmp(&w[1]) == Ordering::Less)
}

//------------ closure: real keys, real verification, real validator --------------

pub struct RealKey {
    pub key: SigningKey<Bytes, KeyPair>,
    pub dnskey: Dnskey<Vec<u8>>,
}

pub fn real_key(owner: &SName, flags: u16) -> RealKey {
    let (sec, pubk) = generate(&GenerateParams::Ed25519, flags).expect("generate");
    let kp = KeyPair::from_bytes(&sec, &pubk).expect("keypair");
    RealKey { key: SigningKey::new(owner.clone(), flags, kp), dnskey: pubk }
}

/// every RRSIG of the signed zone verifies over the RRset it covers
pub fn verify_all(signed: &[SRecord], keys: &[&RealKey]) -> Result<usize, String> {
    let mut n = 0;
    for r in signed {
        let ZoneRecordData::Rrsig(sig) = r.data() else { continue };
        let mut set: Vec<SRecord> = signed
            .iter()
            .filter(|x| x.rtype() == sig.type_covered() && x.owner().name_eq(r.owner()))
            .cloned()
            .collect();
        if set.is_empty() {
            return Err(format!("RRSIG at {} covers the absent type {}", r.owner(), sig.type_covered()));
        }
        let k = keys
            .iter()
            .find(|k| k.dnskey.key_tag() == sig.key_tag() && k.dnskey.algorithm() == sig.algorithm())
            .ok_or("RRSIG of an unknown key")?;
        let mut buf: Vec<u8> = vec![];
        sig.signed_data(&mut buf, &mut set[..]).map_err(|_| "signed_data failed".to_string())?;
        sig.verify_signed_data(&k.dnskey, &buf)
            .map_err(|e| format!("RRSIG {} at {} does not verify: {e}", sig.type_covered(), r.owner()))?;
        n += 1;
    }
    Ok(n)
}

/// the signed zone as an upstream: answers DNSKEY at the apex and nothing else
#[derive(Clone)]
pub struct ApexKeys {
    pub apex: SName,
    pub recs: Arc<Vec<SRecord>>,
}

fn message(qname: &SName, qtype: Rtype, rcode: Rcode, an: &[SRecord], au: &[SRecord]) -> Message<Bytes> {
    let mut mb = MessageBuilder::new_vec();
    {
        let h = mb.header_mut();
        h.set_qr(true);
        h.set_rd(true);
        h.set_ra(true);
        h.set_cd(true);
        h.set_rcode(rcode);
    }
    let mut q = mb.question();
    q.push((qname, qtype)).expect("q");
    let mut a = q.answer();
    for r in an {
        a.push(r.clone()).expect("push");
    }
    let mut u = a.authority();
    for r in au {
        u.push(r.clone()).expect("push");
    }
    Message::from_octets(Bytes::from(u.finish())).expect("msg")
}

#[derive(Debug)]
struct Ready(Option<Result<Message<Bytes>, ReqError>>);

impl GetResponse for Ready {
    fn get_response(
        &mut self,
    ) -> Pin<Box<dyn Future<Output = Result<Message<Bytes>, ReqError>> + Send + Sync + '_>> {
        let r = self.0.take().unwrap_or(Err(ReqError::ConnectionClosed));
        Box::pin(async move { r })
    }
}

impl<Octs> SendRequest<RequestMessage<Octs>> for ApexKeys
where
    Octs: AsRef<[u8]> + Clone + std::fmt::Debug + Send + Sync + 'static + domain::dep::octseq::Octets,
{
    fn send_request(&self, req: RequestMessage<Octs>) -> Box<dyn GetResponse + Send + Sync> {
        let m = match req.to_message() {
            Ok(m) => m,
            Err(e) => return Box::new(Ready(Some(Err(e)))),
        };
        let q = m.sole_question().expect("question");
        let qname: SName = q.qname().to_name();
        let qtype = q.qtype();
        let an: Vec<SRecord> = if qname.name_eq(&self.apex) && qtype == Rtype::DNSKEY {
            with_sigs(&self.recs, &qname, qtype)
        } else {
            vec![]
        };
        let msg = message(&qname, qtype, Rcode::NOERROR, &an, &[]);
        let mut v = msg.as_slice().to_vec();
        v[0..2].copy_from_slice(&m.header().id().to_be_bytes());
        Box::new(Ready(Some(Ok(Message::from_octets(Bytes::from(v)).unwrap()))))
    }
}

/// the RRset (owner, type) of the signed zone followed by the RRSIGs covering it
pub fn with_sigs(recs: &[SRecord], owner: &SName, t: Rtype) -> Vec<SRecord> {
    let mut v: Vec<SRecord> =
        recs.iter().filter(|r| r.rtype() == t && r.owner().name_eq(owner)).cloned().collect();
    if v.is_empty() {
        return v;
    }
    v.extend(recs.iter().filter(|r| {
        r.owner().name_eq(owner) && matches!(r.data(), ZoneRecordData::Rrsig(s) if s.type_covered() == t)
    }).cloned());
    v
}

/// Honest answers drawn from the signed zone: every RRset in `ask` (the
/// RRsets the specification says are signed; DS at a delegation included) as
/// a positive answer, and for NSEC zones one NODATA answer at the apex.  Returns the number of
/// answers the validator called Secure, or the first that it did not.
pub fn validate_all(
    rt: &tokio::runtime::Runtime,
    signed: &[SRecord],
    apex: &SName,
    anchor: &RealKey,
    ask: &[(SName, u16)],
) -> Result<usize, String> {
    let mut recs = signed.to_vec();
    // the DNSKEY RRset and its signature are the caller's business
    let dk = Dnskey::new(anchor.dnskey.flags(), anchor.dnskey.protocol(), anchor.dnskey.algorithm(),
                         Bytes::copy_from_slice(anchor.dnskey.public_key().as_ref())).expect("dnskey");
    recs.retain(|r| !(r.owner().name_eq(apex) && r.rtype() == Rtype::DNSKEY));
    let dkrec: SRecord = Record::new(apex.clone(), Class::IN, ttl(3600), ZoneRecordData::Dnskey(dk));
    let now = Timestamp::now().into_int();
    let set = [dkrec.clone()];
    let rrset = Rrset::new_from_owned(&set).map_err(|e| format!("{e}"))?;
    let sig = sign_rrset(&anchor.key, &rrset, Timestamp::from(now.wrapping_sub(3600)),
                         Timestamp::from(now.wrapping_add(86400))).map_err(|e| format!("{e}"))?;
    recs.push(dkrec.clone());
    recs.push(Record::new(sig.owner().clone(), sig.class(), sig.ttl(), ZoneRecordData::Rrsig(sig.data().clone())));
    let anchor_text = format!("{}. 3600 IN DNSKEY {}\n", apex, dkrec.data());
    let ta = TrustAnchors::from_u8(anchor_text.as_bytes()).map_err(|e| format!("anchor: {e}"))?;
    let up = ApexKeys { apex: apex.clone(), recs: Arc::new(recs.clone()) };
    let vc = ValidationContext::new(ta, up);
    let asked: Vec<(SName, Rtype)> = ask.iter().map(|(n, t)| (n.clone(), Rtype::from_int(*t))).collect();
    let mut n = 0;
    let mut msgs: Vec<(String, Message<Bytes>)> = vec![];
    for (name, t) in &asked {
        msgs.push((format!("{name} {t}"), message(name, *t, Rcode::NOERROR, &with_sigs(&recs, name, *t), &[])));
    }
    if recs.iter().any(|r| r.rtype() == Rtype::NSEC) {
        let mut au = with_sigs(&recs, apex, Rtype::SOA);
        au.extend(with_sigs(&recs, apex, Rtype::NSEC));
        msgs.push((format!("{apex} NODATA"), message(apex, Rtype::HINFO, Rcode::NOERROR, &[], &au)));
    }
    for (what, mut msg) in msgs {
        let r = rt.block_on(async {
            tokio::time::timeout(std::time::Duration::from_secs(10),
                                 vc.validate_msg::<Bytes, Vec<u8>>(&mut msg)).await
        });
        match r {
            Ok(Ok((ValidationState::Secure, _))) => n += 1,
            Ok(Ok((st, ede))) => return Err(format!("{what}: {st:?} {ede:?}")),
            Ok(Err(e)) => return Err(format!("{what}: error {e}")),
            Err(_) => return Err(format!("{what}: hang")),
        }
    }
    Ok(n)
}

//------------ SortedRecords, op by op --------------------------------------------

/// `{n, t, ttl, rd:[octets]}` -> record
pub fn rec_of(v: &Value) -> SRecord {
    let rr = json!([{"owner": v["n"], "type": v["t"], "class": 1, "ttl": v["ttl"],
                     "rd": [raw(&bytes_of(&v["rd"]))]}]);
    records_of(&rr).expect("record of the case").remove(0)
}

pub fn jrec(r: &SRecord) -> Value {
    let mut v = jrec_spelled(r);
    v["n"] = jname_lower(r.owner());
    v
}

pub fn jrec_spelled(r: &SRecord) -> Value {
    use domain::base::rdata::ComposeRecordData;
    let mut rd = vec![];
    let _ = r.data().compose_rdata(&mut rd);
    json!({"n": jname(r.owner()), "t": r.rtype().to_int(), "ttl": r.ttl().as_secs(), "rd": jbytes(&rd)})
}

/// the projected state: content in order, owner groups, RRsets, find_soa,
/// find_apex_rtype(apex, NS), len / is_empty — through the public iterators
pub fn coll_state(c: &Coll, apex: &SName) -> Value {
    let recs: Vec<Value> = c.iter().map(jrec).collect();
    let groups: Vec<Value> = c
        .owner_rrs()
        .map(|g| json!({"n": jname_lower(g.owner()), "len": g.records().count(),
                        "types": g.rrsets().map(|s| s.rtype().to_int()).collect::<Vec<_>>()}))
        .collect();
    let rrsets: Vec<Value> = c
        .rrsets()
        .map(|s| json!({"n": jname_lower(s.owner()), "t": s.rtype().to_int(), "len": s.len(),
                        "ttl": s.ttl().as_secs()}))
        .collect();
    let soa = c.find_soa().map(|s| jname_lower(s.owner())).unwrap_or(json!([]));
    let apex_ns = c.find_apex_rtype(apex, Rtype::NS).map(|s| s.len()).unwrap_or(0);
    json!({"recs": recs, "groups": groups, "rrsets": rrsets, "soa": soa, "apex_ns": apex_ns,
           "len": c.len(), "empty": c.is_empty(), "deref_len": (&**c).len()})
}

fn opt_rtype(v: &Value) -> Option<Rtype> {
    match v.as_u64().unwrap_or(0) {
        0 => None,
        t => Some(Rtype::from_int(t as u16)),
    }
}

/// performs one op; returns its result value
pub fn apply_op(c: &mut Coll, op: &Value) -> Value {
    match op["op"].as_str().unwrap_or("") {
        "from" => {
            let v: Vec<SRecord> = op["batch"].as_array().cloned().unwrap_or_default().iter().map(rec_of).collect();
            *c = SortedRecords::from(v);
            json!("ok")
        }
        "collect" => {
            *c = op["batch"].as_array().cloned().unwrap_or_default().iter().map(rec_of).collect();
            json!("ok")
        }
        "extend" => {
            let v: Vec<SRecord> = op["batch"].as_array().cloned().unwrap_or_default().iter().map(rec_of).collect();
            c.extend(v);
            json!("ok")
        }
        "insert" => match c.insert(rec_of(&op["r"])) {
            Ok(()) => json!({"ok": true, "dup": []}),
            Err(back) => json!({"ok": false, "dup": [jrec_spelled(&back)]}),
        },
        "remove_first" => {
            json!(c.remove_first_by_name_class_rtype(&name_of(&op["n"]), class_arg(op), opt_rtype(&op["t"])))
        }
        "remove_all" => {
            json!(c.remove_all_by_name_class_rtype(&name_of(&op["n"]), class_arg(op), opt_rtype(&op["t"])))
        }
        "update_data" => {
            let old = rec_of(&op["r"]);
            let newd = rec_of(&op["new"]).data().clone();
            // PartialEq of Record: owner, class, data (not the TTL)
            c.update_data(|r| *r == old, newd);
            json!("ok")
        }
        other => json!({"unknown_op": other}),
    }
}

fn class_arg(op: &Value) -> Option<Class> {
    if op["class"] == true { Some(Class::IN) } else { None }
}
