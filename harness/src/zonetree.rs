//! Shared code of the ZoneTree / ZoneVersions executors (X03):
//! the mapping between the vocabulary of spec/ZoneTree.tla and the real
//! `domain::zonetree::{ZoneTree, Zone, ZoneBuilder}`.
//!
//! Model vocabulary (JSON): a name is an array of labels (each an array of
//! octets), leftmost label first, absolute (root implicit); a class is
//! "IN" / "CH" / "HS"; a zone is identified by a positive integer which the
//! executor stores as the serial of the zone's SOA record, so that a `&Zone`
//! handed out by the tree can be identified through its public read
//! interface only.
#![allow(dead_code)]

use bytes::Bytes;
use domain::base::iana::{Class, Rtype};
use domain::base::{Name, NameBuilder, Serial, ToName, Ttl};
use domain::rdata::{Soa, ZoneRecordData};
use domain::zonetree::types::StoredName;
use domain::zonetree::{AnswerContent, Rrset, SharedRrset, Zone, ZoneBuilder, ZoneTree};
use serde_json::{json, Value};
use std::collections::BTreeMap;
use std::str::FromStr;

pub fn class_of(v: &Value) -> Class {
    match v.as_str().unwrap_or("") {
        "IN" => Class::IN,
        "CH" => Class::CH,
        "HS" => Class::HS,
        _ => Class::NONE,
    }
}

pub fn class_name(c: Class) -> &'static str {
    if c == Class::IN {
        "IN"
    } else if c == Class::CH {
        "CH"
    } else if c == Class::HS {
        "HS"
    } else {
        "?"
    }
}

/// model name -> absolute name, octets exactly as given (case preserved)
pub fn abs_name(v: &Value) -> StoredName {
    let mut b = NameBuilder::new_bytes();
    if let Some(labels) = v.as_array() {
        for l in labels {
            let octs: Vec<u8> = l
                .as_array()
                .map(|a| a.iter().map(|x| x.as_u64().unwrap_or(0) as u8).collect())
                .unwrap_or_default();
            b.append_label(&octs).unwrap();
        }
    }
    b.into_name().unwrap()
}

pub fn model_name(n: &impl ToName) -> Value {
    Value::Array(
        n.iter_labels()
            .filter(|l| !l.is_root())
            .map(|l| Value::Array(l.as_slice().iter().map(|o| json!(*o)).collect()))
            .collect(),
    )
}

pub fn soa_rrset(serial: u32) -> SharedRrset {
    let mut rrset = Rrset::new(Rtype::SOA, Ttl::from_secs(3600));
    rrset.push_data(ZoneRecordData::Soa(Soa::new(
        Name::<Bytes>::from_str("mname.invalid.").unwrap(),
        Name::<Bytes>::from_str("rname.invalid.").unwrap(),
        Serial(serial),
        Ttl::from_secs(10),
        Ttl::from_secs(10),
        Ttl::from_secs(10),
        Ttl::from_secs(10),
    )));
    SharedRrset::new(rrset)
}

/// A real, tiny zone: apex SOA whose serial is the zone's identity.
pub fn make_zone(id: u32, class: Class, apex: &StoredName) -> Zone {
    let mut b = ZoneBuilder::new(apex.clone(), class);
    b.insert_rrset(apex, soa_rrset(id)).expect("apex is in zone");
    b.build()
}

/// The SOA serial a fresh reader of the zone sees (0 = no SOA).
pub fn zone_serial(zone: &Zone) -> u32 {
    let answer = zone.read().query(zone.apex_name().clone(), Rtype::SOA);
    match answer {
        Ok(a) => match a.content() {
            AnswerContent::Data(rrset) => match rrset.first() {
                Some(rr) => match rr.data() {
                    ZoneRecordData::Soa(soa) => soa.serial().into_int(),
                    _ => 0,
                },
                None => 0,
            },
            _ => 0,
        },
        Err(_) => 0,
    }
}

/// The executor's book-keeping of what it inserted under which identity.
#[derive(Default)]
pub struct Registry {
    pub zones: BTreeMap<u32, (Class, StoredName)>,
}

impl Registry {
    /// identity of a zone handed out by the tree; -1 if the zone's own
    /// class()/apex_name() is not what was inserted under that identity
    pub fn ident(&self, z: Option<&Zone>) -> i64 {
        match z {
            None => 0,
            Some(z) => {
                let id = zone_serial(z);
                match self.zones.get(&id) {
                    Some((c, a)) if *c == z.class() && a.as_slice() == z.apex_name().as_slice() => id as i64,
                    _ => -1,
                }
            }
        }
    }
}

/// Performs one model op on a real tree; returns the call's result in the
/// model's vocabulary.
pub fn apply(tree: &mut ZoneTree, reg: &mut Registry, op: &Value) -> Value {
    let c = class_of(&op["c"]);
    match op["op"].as_str().unwrap_or("") {
        "insert" => {
            let a = abs_name(&op["a"]);
            let id = op["id"].as_u64().unwrap_or(0) as u32;
            let z = make_zone(id, c, &a);
            match tree.insert_zone(z) {
                Ok(()) => {
                    reg.zones.insert(id, (c, a));
                    json!("ok")
                }
                Err(_) => json!("err"),
            }
        }
        "remove" => match tree.remove_zone(&abs_name(&op["a"]), c) {
            Ok(()) => json!("ok"),
            Err(_) => json!("err"),
        },
        "get" => json!(reg.ident(tree.get_zone(&abs_name(&op["a"]), c))),
        "find" => json!(reg.ident(tree.find_zone(&abs_name(&op["a"]), c))),
        "iter" => iter_proj(tree, reg),
        _ => json!("badop"),
    }
}

/// iter_zones(): how many zones were yielded and which (sorted, distinct)
pub fn iter_proj(tree: &ZoneTree, reg: &Registry) -> Value {
    let mut ids: Vec<i64> = tree.iter_zones().map(|z| reg.ident(Some(z))).collect();
    let n = ids.len();
    ids.sort();
    ids.dedup();
    json!({"n": n, "it": ids})
}

/// The complete projection of a tree over a list of probes `{c, n}`.
pub fn project(tree: &ZoneTree, reg: &Registry, probes: &[Value]) -> Value {
    let g: Vec<i64> = probes
        .iter()
        .map(|p| reg.ident(tree.get_zone(&abs_name(&p["n"]), class_of(&p["c"]))))
        .collect();
    let f: Vec<i64> = probes
        .iter()
        .map(|p| reg.ident(tree.find_zone(&abs_name(&p["n"]), class_of(&p["c"]))))
        .collect();
    let it = iter_proj(tree, reg);
    json!({"g": g, "f": f, "n": it["n"], "it": it["it"]})
}

//------------ ZoneVersions (spec/ZoneVersions.tla) --------------------------

use domain::rdata::Txt;
use domain::zonetree::{ReadableZone, WritableZone, WritableZoneNode};

/// The model's serials live in Z/2^bits; they are embedded around the
/// 32-bit wrap point so that `+1` and RFC 1982 comparison agree:
/// s >= 2^(bits-1) |-> 2^32 - 2^bits + s, otherwise s.
pub fn embed_serial(s: u64, bits: u32) -> u32 {
    let m = 1u64 << bits;
    if s >= m / 2 {
        ((1u64 << 32) - m + s) as u32
    } else {
        s as u32
    }
}

pub fn unembed_serial(r: u32, bits: u32) -> i64 {
    (r as u64 % (1u64 << bits)) as i64
}

pub fn txt_rrset(x: u64) -> SharedRrset {
    let mut rrset = Rrset::new(Rtype::TXT, Ttl::from_secs(3600));
    rrset.push_data(ZoneRecordData::Txt(Txt::<Bytes>::build_from_slice(&[b'v', x as u8]).unwrap()));
    SharedRrset::new(rrset)
}

fn apex_value(reader: &dyn ReadableZone, apex: &StoredName, rtype: Rtype, bits: u32) -> i64 {
    match reader.query(apex.clone(), rtype) {
        Ok(a) => match a.content() {
            AnswerContent::Data(rrset) => match rrset.first().map(|rr| rr.data().clone()) {
                Some(ZoneRecordData::Soa(soa)) => unembed_serial(soa.serial().into_int(), bits),
                Some(ZoneRecordData::Txt(txt)) => {
                    let v: Vec<u8> = txt.iter().flat_map(|s| s.iter().copied()).collect();
                    if v.len() == 2 && v[0] == b'v' { v[1] as i64 } else { -2 }
                }
                _ => -2,
            },
            _ => -1,
        },
        Err(_) => -3,
    }
}

/// One real in-memory zone with held readers and at most one write session.
pub struct VersionsHarness {
    pub rt: tokio::runtime::Runtime,
    pub zone: Zone,
    pub apex: StoredName,
    pub bits: u32,
    pub readers: BTreeMap<String, Box<dyn ReadableZone>>,
    pub writer: Option<(Box<dyn WritableZone>, Option<Box<dyn WritableZoneNode>>)>,
}

impl VersionsHarness {
    pub fn new(soa0: i64, bits: u32) -> Self {
        let apex: StoredName = Name::from_str("example.").unwrap();
        let mut b = ZoneBuilder::new(apex.clone(), Class::IN);
        if soa0 >= 0 {
            b.insert_rrset(&apex, soa_rrset(embed_serial(soa0 as u64, bits))).unwrap();
        }
        VersionsHarness {
            rt: tokio::runtime::Builder::new_current_thread().enable_all().build().unwrap(),
            zone: b.build(),
            apex,
            bits,
            readers: BTreeMap::new(),
            writer: None,
        }
    }

    pub fn apply(&mut self, op: &Value) {
        let r = op["r"].as_str().unwrap_or("").to_string();
        let t = op["t"].as_str().unwrap_or("");
        match op["a"].as_str().unwrap_or("") {
            "ReaderAcquire" => {
                self.readers.insert(r, self.zone.read());
            }
            "ReaderRelease" => {
                self.readers.remove(&r);
            }
            "Begin" => {
                let wz = self.rt.block_on(self.zone.write());
                let root = self.rt.block_on(wz.open(false)).unwrap();
                self.writer = Some((wz, Some(root)));
            }
            "Update" => {
                if let Some((_, Some(root))) = &self.writer {
                    let x = op["x"].as_u64().unwrap_or(0);
                    let rrset = if t == "SOA" { soa_rrset(embed_serial(x, self.bits)) } else { txt_rrset(x) };
                    self.rt.block_on(root.update_rrset(rrset)).unwrap();
                }
            }
            "RemoveRrset" => {
                if let Some((_, Some(root))) = &self.writer {
                    let rt = if t == "SOA" { Rtype::SOA } else { Rtype::TXT };
                    self.rt.block_on(root.remove_rrset(rt)).unwrap();
                }
            }
            "CommitUpdateCurrent" => {
                if let Some((wz, root)) = &mut self.writer {
                    *root = None;
                    let bump = op["bump"].as_bool().unwrap_or(false);
                    self.rt.block_on(wz.commit(bump)).unwrap();
                }
            }
            // the second half of commit() happened in the same call; the
            // session ends here (the writer is dropped clean)
            "CommitPushVersion" => {
                self.writer = None;
            }
            "Abandon" => {
                self.writer = None;
            }
            // ZoneVersions::clean_versions is not reachable through the
            // public interface (and has no caller): a model-only step
            "Clean" => {}
            _ => {}
        }
    }

    fn see(&self, reader: &dyn ReadableZone) -> Value {
        json!({"soa": apex_value(reader, &self.apex, Rtype::SOA, self.bits),
               "txt": apex_value(reader, &self.apex, Rtype::TXT, self.bits)})
    }

    pub fn project(&self) -> Value {
        let fresh = self.zone.read();
        let held: serde_json::Map<String, Value> =
            self.readers.iter().map(|(k, r)| (k.clone(), self.see(r.as_ref()))).collect();
        // TLC's ToJson renders a function with an empty domain as []
        let held = if held.is_empty() { json!([]) } else { Value::Object(held) };
        json!({"fresh": self.see(fresh.as_ref()), "held": held})
    }
}
