//! C01, WireQuery.tla: the QUERY methods (methods that take an argument) of
//! record data parsed from a message, performed for every argument the case
//! names.  `query_projection(input)` is the implementation side of the
//! spec's `QueryProj`: the record is read out of the message by three routes
//! (`Message<&[u8]>` + `into_record::<Nsec/Nsec3>`, `AllRecordData` over a
//! `Message<Bytes>`, the bitmap re-read with `RtypeBitmap::from_octets`);
//! every single query is observed on its own: a panic inside `contains(t)`
//! is the element `"panic@t"` of the observation, never a crash.
use bytes::Bytes;
use domain::base::iana::Rtype;
use domain::base::name::ParsedName;
use domain::base::Message;
use domain::rdata::dnssec::RtypeBitmap;
use domain::rdata::nsec3::Nsec3;
use domain::rdata::{AllRecordData, Nsec};
use serde_json::{json, Map, Value};
use std::panic::{catch_unwind, AssertUnwindSafe};
use verif_harness::common::*;

fn guarded<F: FnOnce() -> Value>(f: F) -> Value {
    catch_unwind(AssertUnwindSafe(f)).unwrap_or_else(|_| json!({"panic": true}))
}

/// contains(t) for all 256 types of every block: the list of members
pub fn contains_list<O: AsRef<[u8]>>(bm: &RtypeBitmap<O>, blocks: &[usize]) -> Value {
    let mut v = vec![];
    for b in blocks {
        for k in 0..256usize {
            let t = (b * 256 + k) as u16;
            match catch_unwind(AssertUnwindSafe(|| bm.contains(Rtype::from_int(t)))) {
                Ok(true) => v.push(json!(t)),
                Ok(false) => {}
                Err(_) => v.push(json!(format!("panic@{}", t))),
            }
        }
    }
    Value::Array(v)
}

pub fn iter_list<O: AsRef<[u8]>>(bm: &RtypeBitmap<O>) -> Value {
    guarded(|| {
        let a: Vec<u16> = bm.iter().map(|t| t.to_int()).collect();
        let b: Vec<u16> = bm.into_iter().map(|t| t.to_int()).collect();
        if a != b || a.len() != bm.iter().count() {
            return json!({"iter_routes_differ": [a, b]});
        }
        json!(a)
    })
}

/// the bitmap's part of the projection
pub fn bitmap_obs<O: AsRef<[u8]>>(bm: &RtypeBitmap<O>, blocks: &[usize]) -> Map<String, Value> {
    let mut o = Map::new();
    o.insert("parse".into(), json!("ok"));
    o.insert("empty".into(), guarded(|| json!(bm.is_empty())));
    o.insert("iter".into(), iter_list(bm));
    o.insert("contains".into(), contains_list(bm, blocks));
    o
}

fn eq_list<F: Fn(&Vec<u8>) -> bool>(args: &Value, f: F) -> Value {
    Value::Array(
        args.as_array()
            .map(|a| {
                a.iter()
                    .map(|x| {
                        let arg = bytes_of(x);
                        match catch_unwind(AssertUnwindSafe(|| f(&arg))) {
                            Ok(b) => json!(b),
                            Err(_) => json!("panic"),
                        }
                    })
                    .collect()
            })
            .unwrap_or_default(),
    )
}

fn nsec3_obs<O: AsRef<[u8]>>(d: &Nsec3<O>, input: &Value, blocks: &[usize]) -> Map<String, Value> {
    let mut o = bitmap_obs(d.types(), blocks);
    // ==, != and the orderings with an argument of any length
    o.insert(
        "hasheq".into(),
        eq_list(&input["hargs"], |a| {
            let h = d.next_owner();
            let _ = h.partial_cmp(a);
            *h == *a
        }),
    );
    o.insert(
        "salteq".into(),
        eq_list(&input["sargs"], |a| {
            let s = d.salt();
            let _ = s.partial_cmp(a);
            *s == *a
        }),
    );
    o
}

fn route_slice(m: &[u8], rt: u16, input: &Value, blocks: &[usize]) -> Value {
    let msg = match Message::from_octets(m) {
        Ok(x) => x,
        Err(_) => return json!({"short": true}),
    };
    let rec = match msg.answer().ok().and_then(|mut a| a.next()) {
        Some(Ok(r)) => r,
        _ => return json!({"norecord": true}),
    };
    if rec.rtype().to_int() != rt {
        return json!({"rtype": rec.rtype().to_int()});
    }
    if rt == 47 {
        match rec.into_record::<Nsec<_, ParsedName<_>>>() {
            Ok(Some(r)) => Value::Object(bitmap_obs(r.data().types(), blocks)),
            Ok(None) => json!({"notmine": true}),
            Err(_) => json!({"parse": "err"}),
        }
    } else {
        match rec.into_record::<Nsec3<_>>() {
            Ok(Some(r)) => Value::Object(nsec3_obs(r.data(), input, blocks)),
            Ok(None) => json!({"notmine": true}),
            Err(_) => json!({"parse": "err"}),
        }
    }
}

fn route_all(m: &[u8], input: &Value, blocks: &[usize]) -> Value {
    let msg = match Message::from_octets(Bytes::copy_from_slice(m)) {
        Ok(x) => x,
        Err(_) => return json!({"short": true}),
    };
    let rec = match msg.answer().ok().and_then(|mut a| a.next()) {
        Some(Ok(r)) => r,
        _ => return json!({"norecord": true}),
    };
    match rec.into_record::<AllRecordData<_, ParsedName<_>>>() {
        Ok(Some(r)) => match r.data() {
            AllRecordData::Nsec(d) => Value::Object(bitmap_obs(d.types(), blocks)),
            AllRecordData::Nsec3(d) => Value::Object(nsec3_obs(d, input, blocks)),
            _ => json!({"other": true}),
        },
        Ok(None) => json!({"notmine": true}),
        Err(_) => json!({"parse": "err"}),
    }
}

/// the bitmap's octets (as the parsed value hands them out) read again
fn route_reread(m: &[u8], rt: u16, blocks: &[usize]) -> Option<Value> {
    let msg = Message::from_octets(m).ok()?;
    let rec = msg.answer().ok()?.next()?.ok()?;
    let raw: Vec<u8> = if rt == 47 {
        rec.into_record::<Nsec<_, ParsedName<_>>>().ok()??.data().types().as_slice().to_vec()
    } else {
        rec.into_record::<Nsec3<_>>().ok()??.data().types().as_slice().to_vec()
    };
    Some(match RtypeBitmap::from_octets(raw) {
        Ok(bm) => Value::Object(bitmap_obs(&bm, blocks)),
        Err(_) => json!({"parse": "err"}),
    })
}

pub fn query_projection(input: &Value) -> Value {
    let m = bytes_of(&input["m"]);
    let rt = input["rt"].as_u64().unwrap_or(0) as u16;
    let blocks: Vec<usize> = input["blocks"]
        .as_array()
        .map(|a| a.iter().map(|x| x.as_u64().unwrap_or(0) as usize).collect())
        .unwrap_or_default();
    let a = guarded(|| route_slice(&m, rt, input, &blocks));
    let b = guarded(|| route_all(&m, input, &blocks));
    if a != b {
        return json!({"routes_differ": ["slice", a, "all", b]});
    }
    if let Some(c) = catch_unwind(AssertUnwindSafe(|| route_reread(&m, rt, &blocks))).unwrap_or(Some(json!({"panic": true}))) {
        for k in ["parse", "empty", "iter", "contains"] {
            if a.get(k) != c.get(k) {
                return json!({"routes_differ": ["slice", a, "reread", c]});
            }
        }
    }
    a
}

/// twice: the same answers
pub fn query_projection_twice(input: &Value) -> Value {
    let a = query_projection(input);
    let b = query_projection(input);
    if a != b {
        return json!({"not_repeatable": [a, b]});
    }
    a
}
