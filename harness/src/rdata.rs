//! Shared helpers for the C05 / C04 executors and recorders: one-record
//! messages, observation of record data through the real library.
#![allow(dead_code)]

use domain::base::iana::{Class, Rtype};
use domain::base::message::Message;
use domain::base::message_builder::{
    MessageBuilder, StaticCompressor, TreeCompressor,
};
use domain::base::name::{ParsedName, ToName};
use domain::base::rdata::{ComposeRecordData, RecordData, UnknownRecordData};
use domain::base::record::Record;
use domain::base::wire::Composer;
use domain::base::Ttl;
use domain::rdata::{AllRecordData, ZoneRecordData};
use serde_json::{json, Value};

pub const ISSUE_EQ: &str = "value parsed back compares unequal (==)";
pub type Msg = Message<Vec<u8>>;
pub type AllData<'a> = AllRecordData<&'a [u8], ParsedName<&'a [u8]>>;
pub type ZoneData<'a> = ZoneRecordData<&'a [u8], ParsedName<&'a [u8]>>;
pub type AllRec<'a> = Record<ParsedName<&'a [u8]>, AllData<'a>>;

/// header + owner + type + class IN + ttl 3600 + rdlen + rdata, one answer
pub fn one_record_msg(owner_wire: &[u8], rtype: u16, rd: &[u8]) -> Vec<u8> {
    let mut m = vec![0, 0, 0x80, 0, 0, 0, 0, 1, 0, 0, 0, 0];
    m.extend_from_slice(owner_wire);
    m.extend_from_slice(&rtype.to_be_bytes());
    m.extend_from_slice(&[0, 1, 0, 0, 14, 16]);
    m.extend_from_slice(&(rd.len() as u16).to_be_bytes());
    m.extend_from_slice(rd);
    m
}

/// Parses the first answer record of `msg` as AllRecordData.
pub fn parse_all(msg: &Message<[u8]>) -> Result<AllRec<'_>, String> {
    let mut sec = msg.answer().map_err(|e| e.to_string())?;
    let rec = match sec.next() {
        Some(Ok(r)) => r,
        Some(Err(e)) => return Err(e.to_string()),
        None => return Err("no record".into()),
    };
    rec.into_any_record::<AllData<'_>>().map_err(|e| e.to_string())
}

pub fn compose_plain<D: ComposeRecordData>(d: &D) -> Vec<u8> {
    let mut v = Vec::new();
    d.compose_rdata(&mut v).unwrap();
    v
}

pub fn compose_canon<D: ComposeRecordData>(d: &D) -> Vec<u8> {
    let mut v = Vec::new();
    d.compose_canonical_rdata(&mut v).unwrap();
    v
}

/// RDATA slice of the n-th answer record of a message (by walking it).
pub fn raw_rdata(msg: &[u8], nth: usize) -> Option<Vec<u8>> {
    let m = Message::from_slice(msg).ok()?;
    let mut p = 12usize;
    // skip questions
    for _ in 0..m.header_counts().qdcount() {
        p = skip_name(msg, p)? + 4;
    }
    for i in 0.. {
        p = skip_name(msg, p)?;
        if p + 10 > msg.len() {
            return None;
        }
        let rdlen = u16::from_be_bytes([msg[p + 8], msg[p + 9]]) as usize;
        p += 10;
        if p + rdlen > msg.len() {
            return None;
        }
        if i == nth {
            return Some(msg[p..p + rdlen].to_vec());
        }
        p += rdlen;
    }
    None
}

fn skip_name(msg: &[u8], mut p: usize) -> Option<usize> {
    loop {
        let b = *msg.get(p)?;
        if b == 0 {
            return Some(p + 1);
        }
        if b >= 0xC0 {
            return Some(p + 2);
        }
        p += 1 + b as usize;
    }
}

/// Everything C05 observes about one parsed record data value.  `issues`
/// collects internal inconsistencies (each a violation of the property on
/// its own); the spec expects it to be empty.
pub fn observe_rdata(msg_octets: &[u8], _may_compress: bool, strict_opts: bool) -> Value {
    let msg = match Message::from_slice(msg_octets) {
        Ok(m) => m,
        Err(_) => return json!({"parse": "err"}),
    };
    let rec = match parse_all(msg) {
        Ok(r) => r,
        Err(_) => {
            // the other two parsers must reject as well, unless they carry
            // the type opaquely
            return json!({"parse": "err"});
        }
    };
    let mut issues: Vec<String> = vec![];
    let data = rec.data();
    let rtype = data.rtype();
    let wire = compose_plain(data);
    let canon = compose_canon(data);
    let known = !matches!(data, AllRecordData::Unknown(_));

    // advertised length
    let len = match data.rdlen(false) {
        Some(n) => n as usize,
        None => wire.len(),
    };
    let mut lenbuf = Vec::new();
    data.compose_len_rdata(&mut lenbuf).unwrap();
    if lenbuf.len() < 2
        || u16::from_be_bytes([lenbuf[0], lenbuf[1]]) as usize != lenbuf.len() - 2
    {
        issues.push("compose_len_rdata: RDLENGTH differs from octets written".into());
    }
    if lenbuf.len() >= 2 && lenbuf[2..] != wire[..] {
        issues.push("compose_len_rdata: data differs from compose_rdata".into());
    }
    let mut clenbuf = Vec::new();
    data.compose_canonical_len_rdata(&mut clenbuf).unwrap();
    if clenbuf.len() < 2
        || u16::from_be_bytes([clenbuf[0], clenbuf[1]]) as usize != clenbuf.len() - 2
        || clenbuf[2..] != canon[..]
    {
        issues.push("compose_canonical_len_rdata inconsistent".into());
    }
    if let Some(n) = data.rdlen(true) {
        // only allowed when compression cannot change the size
        if n as usize != wire.len() {
            issues.push("rdlen(true) differs from uncompressed length".into());
        }
    }

    // the other record data enums / opaque carrier
    {
        let mut sec = msg.answer().unwrap();
        let prec = sec.next().unwrap().unwrap();
        match prec.to_record::<ZoneData<'_>>() {
            Ok(Some(z)) => {
                if compose_plain(z.data()) != wire {
                    issues.push("ZoneRecordData composes different octets".into());
                }
                if compose_canon(z.data()) != canon {
                    issues.push("ZoneRecordData canonical form differs".into());
                }
                let zr = via_ref(z.data());
                if zr.wire != wire || zr.canon != canon || zr.rtype != rtype.to_int() {
                    issues.push("through &ZoneRecordData: composition differs".into());
                }
                if z.data().rtype() != rtype {
                    issues.push("ZoneRecordData rtype differs".into());
                }
                if z.data().rdlen(false).map(|n| n as usize).unwrap_or(wire.len()) != len {
                    issues.push("ZoneRecordData rdlen differs".into());
                }
            }
            _ => {
                // pseudo types are carried opaquely by ZoneRecordData, which
                // must then not fail; real types must parse like AllRecordData
                issues.push("ZoneRecordData rejects what AllRecordData accepts".into());
            }
        }
        match prec.to_record::<UnknownRecordData<&[u8]>>() {
            Ok(Some(u)) => {
                // opaque and unchanged: exactly the input RDATA octets
                let raw = raw_rdata(msg_octets, 0).unwrap_or_default();
                if compose_plain(u.data()) != raw || compose_canon(u.data()) != raw {
                    issues.push("UnknownRecordData changed the octets".into());
                }
                if u.data().rtype() != rtype {
                    issues.push("UnknownRecordData rtype differs".into());
                }
            }
            _ => issues.push("UnknownRecordData did not parse".into()),
        }
    }

    // through the message builder on plain and compressing targets: the
    // record is pushed twice so that the second copy can be compressed
    // against the first.  Only the plain target must reproduce the
    // uncompressed octets; on compressing targets the property asks for a
    // consistent RDLENGTH and a re-parse to an equal value, nothing about
    // which embedded names are compressed.
    recompose(&rec, MessageBuilder::new_vec(), "Vec", &wire, true, &mut issues);
    recompose(
        &rec,
        MessageBuilder::from_target(StaticCompressor::new(Vec::new())).unwrap(),
        "StaticCompressor",
        &wire,
        false,
        &mut issues,
    );
    recompose(
        &rec,
        MessageBuilder::from_target(TreeCompressor::new(Vec::new())).unwrap(),
        "TreeCompressor",
        &wire,
        false,
        &mut issues,
    );

    // the forwarding impls for references: the same answers through `&T`
    // as a type parameter and through `Record<_, &T>`
    {
        let r = via_ref(data);
        if r.rtype != rtype.to_int() {
            issues.push("through &T: rtype differs".into());
        }
        if r.rdlen != data.rdlen(false) || r.rdlen_c != data.rdlen(true) {
            issues.push("through &T: rdlen differs".into());
        }
        if r.wire != wire {
            issues.push("through &T: compose_rdata differs".into());
        }
        if r.canon != canon {
            issues.push("through &T: compose_canonical_rdata differs".into());
        }
        if r.len_rdata != lenbuf {
            issues.push("through &T: compose_len_rdata differs".into());
        }
        if r.canon_len_rdata != clenbuf {
            issues.push("through &T: compose_canonical_len_rdata differs".into());
        }
        let rr = via_ref(&data);
        if rr.wire != wire || rr.canon != canon || rr.rdlen != data.rdlen(false) {
            issues.push("through &&T: composition differs".into());
        }
        // whole records, owned data and borrowed data
        let owner_w: Vec<u8> = {
            let mut v = Vec::new();
            rec.owner().compose(&mut v).unwrap();
            v
        };
        let mut expect = owner_w.to_ascii_lowercase();
        expect.extend_from_slice(&rtype.to_int().to_be_bytes());
        expect.extend_from_slice(&[0, 1, 0, 0, 14, 16]);
        expect.extend_from_slice(&(canon.len() as u16).to_be_bytes());
        expect.extend_from_slice(&canon);
        let mut plain = owner_w.clone();
        plain.extend_from_slice(&expect[owner_w.len()..owner_w.len() + 8]);
        plain.extend_from_slice(&(wire.len() as u16).to_be_bytes());
        plain.extend_from_slice(&wire);
        let by_ref = Record::new(rec.owner().clone(), Class::IN, Ttl::from_secs(3600), data);
        let (mut c1, mut c2, mut p1, mut p2) = (Vec::new(), Vec::new(), Vec::new(), Vec::new());
        rec.compose_canonical(&mut c1).unwrap();
        by_ref.compose_canonical(&mut c2).unwrap();
        rec.compose(&mut p1).unwrap();
        by_ref.compose(&mut p2).unwrap();
        if c1 != expect {
            issues.push("Record::compose_canonical differs from lower-cased owner + canonical RDATA".into());
        }
        if c2 != expect {
            issues.push("Record<_, &T>::compose_canonical differs from lower-cased owner + canonical RDATA".into());
        }
        if p1 != plain || p2 != plain {
            issues.push("Record::compose differs from owner + RDATA".into());
        }
    }

    // the signature-less RRSIG used for signing has its own (canonical)
    // composition: it must be the RRSIG's up to and including the signer
    if let AllRecordData::Rrsig(rr) = data {
        let proto = domain::rdata::dnssec::ProtoRrsig::new(
            rr.type_covered(),
            rr.algorithm(),
            rr.labels(),
            rr.original_ttl(),
            rr.expiration(),
            rr.inception(),
            rr.key_tag(),
            rr.signer_name().clone(),
        );
        let k = wire.len() - rr.signature().len();
        let (mut p, mut c) = (Vec::new(), Vec::new());
        proto.compose(&mut p).unwrap();
        proto.compose_canonical(&mut c).unwrap();
        if p != wire[..k] {
            issues.push("ProtoRrsig::compose differs from the RRSIG RDATA before the signature".into());
        }
        if c != canon[..k] {
            issues.push("ProtoRrsig::compose_canonical differs from the canonical RRSIG RDATA before the signature".into());
        }
    }

    // conversion into owned octets / flat names keeps the value
    {
        use domain::base::name::{FlattenInto, Name};
        type OwnedData = AllRecordData<Vec<u8>, Name<Vec<u8>>>;
        let owned: Result<OwnedData, _> = data.clone().try_flatten_into();
        match owned {
            Ok(o) => {
                if compose_plain(&o) != wire || compose_canon(&o) != canon {
                    issues.push("flattened value composes differently".into());
                }
                if o.rdlen(false) != data.rdlen(false) || o.rtype() != rtype {
                    issues.push("flattened value: rdlen / rtype differ".into());
                }
                if o != *data {
                    issues.push(ISSUE_EQ.to_string());
                }
            }
            Err(_) => issues.push("value does not flatten".into()),
        }
    }

    // EDNS options: every option the library parses must re-compose to its
    // own octets; well-formed options of the kinds in OptLayout must parse
    if let AllRecordData::Opt(opt) = data {
        check_options(opt, &wire, strict_opts, &mut issues);
    }

    // a value equals itself (parsed twice from the same octets)
    match parse_all(msg) {
        Ok(again) => {
            if again.data() != rec.data() {
                issues.push(ISSUE_EQ.to_string());
            }
        }
        Err(_) => issues.push("second parse failed".into()),
    }
    issues.sort();
    issues.dedup();
    json!({"parse": "ok", "wire": wire, "canon": canon, "len": len,
           "known": known, "issues": issues})
}

pub struct ViaRef {
    pub rtype: u16,
    pub rdlen: Option<u16>,
    pub rdlen_c: Option<u16>,
    pub wire: Vec<u8>,
    pub canon: Vec<u8>,
    pub len_rdata: Vec<u8>,
    pub canon_len_rdata: Vec<u8>,
}

/// Everything ComposeRecordData / RecordData offer, called on a type
/// parameter: instantiated with `&data` this runs the `impl for &T`.
pub fn via_ref<T: ComposeRecordData>(t: T) -> ViaRef {
    let mut r = ViaRef {
        rtype: t.rtype().to_int(),
        rdlen: t.rdlen(false),
        rdlen_c: t.rdlen(true),
        wire: Vec::new(),
        canon: Vec::new(),
        len_rdata: Vec::new(),
        canon_len_rdata: Vec::new(),
    };
    t.compose_rdata(&mut r.wire).unwrap();
    t.compose_canonical_rdata(&mut r.canon).unwrap();
    t.compose_len_rdata(&mut r.len_rdata).unwrap();
    t.compose_canonical_len_rdata(&mut r.canon_len_rdata).unwrap();
    r
}

fn check_options(
    opt: &domain::base::opt::Opt<&[u8]>,
    rd: &[u8],
    strict: bool,
    issues: &mut Vec<String>,
) {
    use domain::base::opt::{AllOptData, ComposeOptData, OptData};
    let mut it = opt.iter::<AllOptData<_, _>>();
    let mut p = 0;
    let mut recomposed: Vec<u8> = Vec::new();
    let mut all_parsed = true;
    while p + 4 <= rd.len() {
        let code = u16::from_be_bytes([rd[p], rd[p + 1]]);
        let len = u16::from_be_bytes([rd[p + 2], rd[p + 3]]) as usize;
        if p + 4 + len > rd.len() {
            break;
        }
        let data = &rd[p + 4..p + 4 + len];
        match it.next() {
            Some(Ok(o)) => {
                let mut v = Vec::new();
                o.compose_option(&mut v).unwrap();
                if o.code().to_int() != code {
                    issues.push(format!("option {code}: parsed option reports another code"));
                }
                if v != data {
                    issues.push(format!("option {code}: re-composes to different octets"));
                }
                if o.compose_len() as usize != v.len() {
                    issues.push(format!("option {code}: compose_len differs from octets written"));
                }
                // as a sender frames it: code, advertised length, data
                recomposed.extend_from_slice(&o.code().to_int().to_be_bytes());
                recomposed.extend_from_slice(&o.compose_len().to_be_bytes());
                recomposed.extend_from_slice(&v);
            }
            Some(Err(_)) => {
                if strict {
                    issues.push(format!("option {code}: well-formed option data rejected"));
                }
                // malformed option data (damaged input): what the iterator
                // does after reporting the error is not judged
                all_parsed = false;
                break;
            }
            None => {
                issues.push("option iterator ended before the options did".into());
                all_parsed = false;
                break;
            }
        }
        p += 4 + len;
    }
    if all_parsed && p == rd.len() {
        // parse -> compose -> parse, as for RDATA: same octets, parses again,
        // equal value, every option parses again to the same octets
        if recomposed != rd {
            issues.push("options re-compose to different OPT RDATA".into());
        }
        match domain::base::opt::Opt::from_slice(&recomposed) {
            Ok(again) => {
                if again.for_slice_ref() != *opt {
                    issues.push("re-composed options parse to an unequal OPT".into());
                }
                let mut n = 0;
                for o in again.for_slice_ref().iter::<AllOptData<_, _>>() {
                    match o {
                        Ok(_) => n += 1,
                        Err(_) => issues.push("a re-composed option does not parse again".into()),
                    }
                }
                if n != opt.iter::<AllOptData<_, _>>().filter(|x| x.is_ok()).count() {
                    issues.push("re-composed OPT has a different number of options".into());
                }
            }
            Err(_) => issues.push("re-composed options do not parse as OPT RDATA".into()),
        }
    }
}

fn recompose<T>(
    rec: &AllRec<'_>,
    builder: MessageBuilder<T>,
    what: &str,
    wire: &[u8],
    exact: bool,
    issues: &mut Vec<String>,
) where
    T: Composer + AsRef<[u8]>,
{
    let mut ans = builder.answer();
    // first copy as a tuple by value, second as a reference to a record
    // whose data is itself a reference (the forwarding impls)
    let by_ref = Record::new(rec.owner().clone(), Class::IN, Ttl::from_secs(3600), rec.data());
    if ans
        .push((rec.owner(), Class::IN, Ttl::from_secs(3600), rec.data()))
        .is_err()
        || ans.push(&by_ref).is_err()
    {
        issues.push(format!("{what}: push failed"));
        return;
    }
    let out = ans.finish();
    let bytes: &[u8] = out.as_ref();
    let m2 = match Message::from_slice(bytes) {
        Ok(m) => m,
        Err(_) => {
            issues.push(format!("{what}: short message"));
            return;
        }
    };
    let sec = match m2.answer() {
        Ok(s) => s,
        Err(_) => {
            issues.push(format!("{what}: answer section unreadable"));
            return;
        }
    };
    let mut n = 0;
    for r in sec {
        let r = match r {
            Ok(r) => r,
            Err(_) => {
                issues.push(format!("{what}: record unreadable (RDLENGTH wrong?)"));
                return;
            }
        };
        match r.into_any_record::<AllData<'_>>() {
            Ok(r2) => {
                // a compressing target may point an embedded name at an earlier
                // occurrence that differs in ASCII case; the value is then still
                // equal (checked below), the octets only up to case
                let back = compose_plain(r2.data());
                if (exact && back != wire) || !back.eq_ignore_ascii_case(wire) {
                    issues.push(format!("{what}: record re-parses to different octets"));
                }
                if r2.data() != rec.data() {
                    issues.push(ISSUE_EQ.to_string());
                }
            }
            Err(_) => issues.push(format!("{what}: record does not re-parse")),
        }
        let raw = raw_rdata(bytes, n);
        match raw {
            Some(raw) => {
                if exact && raw != wire {
                    issues.push(format!("{what}: RDATA differs from the uncompressed form"));
                }
            }
            None => issues.push(format!("{what}: record not found")),
        }
        n += 1;
    }
    if n != 2 {
        issues.push(format!("{what}: {n} records instead of 2"));
    }
}

/// Drives the RtypeBitmap builder with the given add calls.
pub fn build_bitmap(adds: &[u16]) -> domain::rdata::dnssec::RtypeBitmap<Vec<u8>> {
    let mut b = domain::rdata::dnssec::RtypeBitmap::<Vec<u8>>::builder();
    for t in adds {
        b.add(Rtype::from_int(*t)).unwrap();
    }
    b.finalize()
}

/// value -> compose -> parse for an NSEC built through the bitmap builder
pub fn observe_bitmap(adds: &[u16], probe: &[u16]) -> Value {
    use domain::base::name::Name;
    let bm = build_bitmap(adds);
    let contains: Vec<bool> = probe.iter().map(|t| bm.contains(Rtype::from_int(*t))).collect();
    let octets = bm.as_slice().to_vec();
    let nsec = domain::rdata::Nsec::new(Name::from_octets(vec![1u8, b'a', 0]).unwrap(), bm);
    let mut rd = Vec::new();
    nsec.compose_rdata(&mut rd).unwrap();
    let msg = one_record_msg(&[1, b'x', 2, b'Y', b'z', 0], 47, &rd);
    json!({"bitmap": octets, "contains": contains, "rd": observe_rdata(&msg, false, false)})
}

/// Drives the SVCB parameter builder with pushes of opaque values in the
/// given order (directly and through SvcParams::from_values), then builds
/// an SVCB record from the result: value -> compose -> parse.
pub fn observe_svcparams(pushes: &[(u16, Vec<u8>)]) -> Value {
    use domain::base::name::Name;
    use domain::base::iana::SvcParamKey;
    use domain::rdata::svcb::{SvcParams, SvcParamsBuilder, UnknownSvcParam};
    let mut issues: Vec<String> = vec![];
    let mut b = SvcParamsBuilder::<Vec<u8>>::empty();
    for (k, v) in pushes {
        let val = UnknownSvcParam::new(SvcParamKey::from_int(*k), v.clone()).unwrap();
        if b.push(&val).is_err() {
            issues.push(format!("push of key {k} refused"));
        }
    }
    if let Some((k, v)) = pushes.first() {
        // a key can be present only once
        let val = UnknownSvcParam::new(SvcParamKey::from_int(*k), v.clone()).unwrap();
        if b.push(&val).is_ok() {
            issues.push("second push of the same key accepted".into());
        }
    }
    let params: SvcParams<Vec<u8>> = match b.freeze() {
        Ok(p) => p,
        Err(_) => return json!({"freeze": "err"}),
    };
    let octets = params.as_slice().to_vec();
    let again: Result<SvcParams<Vec<u8>>, _> = SvcParams::from_values(|b| {
        for (k, v) in pushes {
            b.push(&UnknownSvcParam::new(SvcParamKey::from_int(*k), v.clone()).unwrap())?;
        }
        Ok(())
    });
    match again {
        Ok(p2) => {
            if p2.as_slice() != &octets[..] {
                issues.push("SvcParams::from_values gives different octets".into());
            }
        }
        Err(_) => issues.push("SvcParams::from_values failed".into()),
    }
    let svcb = domain::rdata::Svcb::new(1, Name::from_octets(vec![1u8, b'a', 0]).unwrap(), params).unwrap();
    let mut rd = Vec::new();
    svcb.compose_rdata(&mut rd).unwrap();
    let msg = one_record_msg(&[1, b'x', 2, b'Y', b'z', 0], 64, &rd);
    json!({"params": octets, "issues": issues, "rd": observe_rdata(&msg, false, false)})
}

/// Drives the TXT builder with a sequence of operations; the content of the
/// i-th operation (1-based) with n octets is (i * 16 + j) % 256, j = 1..n.
pub fn observe_txt(ops: &[(String, usize)]) -> Value {
    use domain::base::charstr::CharStr;
    use domain::rdata::rfc1035::TxtBuilder;
    use domain::rdata::Txt;
    let mut issues: Vec<String> = vec![];
    let mut b = TxtBuilder::<Vec<u8>>::new();
    for (i, (op, n)) in ops.iter().enumerate() {
        let data: Vec<u8> = (1..=*n).map(|j| (((i + 1) * 16 + j) % 256) as u8).collect();
        match op.as_str() {
            "slice" => {
                if b.append_slice(&data).is_err() {
                    issues.push("append_slice refused".into());
                }
            }
            "charstr" => {
                let cs = CharStr::from_octets(data).unwrap();
                if b.append_charstr(&cs).is_err() {
                    issues.push("append_charstr refused".into());
                }
            }
            _ => b.close_charstr(),
        }
    }
    let txt = match b.finish() {
        Ok(t) => t,
        Err(_) => return json!({"finish": "err"}),
    };
    let mut rd = Vec::new();
    txt.compose_rdata(&mut rd).unwrap();
    if ops.len() == 1 && ops[0].0 == "slice" {
        // the one-call constructor must agree with the builder
        let data: Vec<u8> = (1..=ops[0].1).map(|j| ((16 + j) % 256) as u8).collect();
        match Txt::<Vec<u8>>::build_from_slice(&data) {
            Ok(t2) => {
                let mut rd2 = Vec::new();
                t2.compose_rdata(&mut rd2).unwrap();
                if rd2 != rd {
                    issues.push("Txt::build_from_slice differs from the builder".into());
                }
            }
            Err(_) => issues.push("Txt::build_from_slice failed".into()),
        }
    }
    let msg = one_record_msg(&[1, b'x', 2, b'Y', b'z', 0], 16, &rd);
    json!({"txt": rd, "issues": issues, "rd": observe_rdata(&msg, false, false)})
}

/// The ALPN value builder and the value pushed into SVCB parameters.
pub fn observe_alpn(ids: &[Vec<u8>]) -> Value {
    use domain::rdata::svcb::value::AlpnBuilder;
    use domain::rdata::svcb::SvcParamsBuilder;
    let mut issues: Vec<String> = vec![];
    let mut b = AlpnBuilder::<Vec<u8>>::empty();
    for id in ids {
        if b.push(id).is_err() {
            issues.push("push refused".into());
        }
    }
    if b.push(b"").is_ok() {
        issues.push("empty protocol id accepted".into());
    }
    let alpn = b.freeze();
    let value: Vec<u8> = alpn.as_slice().to_vec();
    let mut pb = SvcParamsBuilder::<Vec<u8>>::empty();
    if pb.push(&alpn).is_err() {
        issues.push("push of the alpn value refused".into());
    }
    let params = match pb.freeze::<Vec<u8>>() {
        Ok(p) => p.as_slice().to_vec(),
        Err(_) => vec![],
    };
    json!({"value": value, "params": params, "issues": issues})
}

pub fn rtype_of(v: &Value) -> Rtype {
    Rtype::from_int(v.as_u64().unwrap_or(0) as u16)
}

//============================================================================
// C04: equality / order / hash observations
//============================================================================

pub mod order {
    use super::*;
    use bytes::Bytes;
    use domain::base::cmp::CanonicalOrd;
    use domain::base::charstr::CharStr;
    use domain::base::name::{
        Chain, FlattenInto, Label, Name, OwnedLabel, RelativeName, ToName, ToRelativeName,
        UncertainName,
    };
    use domain::base::question::Question;
    use domain::base::record::{ParsedRecord, RecordHeader};
    use std::collections::HashMap;
    use std::hash::BuildHasherDefault;
    use octseq::parse::Parser;
    use std::cmp::Ordering;
    use std::collections::hash_map::DefaultHasher;
    use std::hash::{Hash, Hasher};

    pub fn sgn(o: Ordering) -> i64 {
        match o {
            Ordering::Less => -1,
            Ordering::Equal => 0,
            Ordering::Greater => 1,
        }
    }
    /// hash under a fixed hasher (SipHash with zero keys)
    pub fn h<T: Hash + ?Sized>(x: &T) -> u64 {
        let mut s = DefaultHasher::new();
        x.hash(&mut s);
        s.finish()
    }

    /// Collects answers that must be the same for every representation.
    pub struct Agree {
        pub vals: std::collections::BTreeMap<&'static str, Value>,
        pub issues: Vec<String>,
    }
    impl Agree {
        pub fn new() -> Self {
            Agree { vals: Default::default(), issues: vec![] }
        }
        pub fn put(&mut self, key: &'static str, v: Value, what: &str) {
            match self.vals.get(key) {
                None => {
                    self.vals.insert(key, v);
                }
                Some(old) => {
                    if *old != v {
                        self.issues.push(format!(
                            "{key}: {what} gives {v} where another representation/method gave {old}"
                        ));
                    }
                }
            }
        }
        pub fn finish(mut self) -> Value {
            self.issues.sort();
            self.issues.dedup();
            self.issues.truncate(6);
            let mut m = serde_json::Map::new();
            for (k, v) in self.vals {
                m.insert(k.to_string(), v);
            }
            m.insert("issues".into(), json!(self.issues));
            Value::Object(m)
        }
    }

    pub fn recase(w: &[u8], mode: usize) -> Vec<u8> {
        // length octets are < 64 and so untouched by ASCII case mapping
        w.iter()
            .enumerate()
            .map(|(i, b)| match mode {
                0 => *b,
                1 => b.to_ascii_uppercase(),
                2 => b.to_ascii_lowercase(),
                _ => {
                    if i % 2 == 0 { b.to_ascii_uppercase() } else { b.to_ascii_lowercase() }
                }
            })
            .collect()
    }

    //--- labels

    pub fn observe_labels(a: &[u8], b: &[u8]) -> Value {
        let mut ag = Agree::new();
        for ma in 0..4 {
            for mb in 0..4 {
                let (wa, wb) = (recase(a, ma), recase(b, mb));
                let (la, lb) = (Label::from_slice(&wa).unwrap(), Label::from_slice(&wb).unwrap());
                let what = format!("case variant {ma}/{mb}");
                ag.put("eq", json!(la == lb), &what);
                ag.put("eq", json!(la.eq(&wb[..])), &what);
                ag.put("cmp", json!(sgn(la.cmp(lb))), &what);
                ag.put("cmp", json!(la.partial_cmp(lb).map(sgn)), &what);
                ag.put("lcomposed", json!(sgn(la.lowercase_composed_cmp(lb))), &what);
                if ma == 0 && mb == 0 {
                    ag.put("composed", json!(sgn(la.composed_cmp(lb))), &what);
                }
                let hash_ok = la != lb || h(la) == h(lb);
                ag.put("hash_ok", json!(hash_ok), &what);
                // the owned form of the same labels
                let (oa, ob) = (OwnedLabel::from_label(la), OwnedLabel::from_label(lb));
                let what = format!("OwnedLabel, case variant {ma}/{mb}");
                ag.put("eq", json!(oa == ob), &what);
                ag.put("cmp", json!(sgn(oa.cmp(&ob))), &what);
                ag.put("cmp", json!(oa.partial_cmp(&ob).map(sgn)), &what);
                ag.put("hash_ok", json!(oa != ob || h(&oa) == h(&ob)), &what);
                ag.put("hash_ok", json!(oa != ob || h(&oa) == h(lb)), &what);
                // Borrow<Label>: owned and borrowed form must hash alike
                if h(&oa) != h(la) || h(&ob) != h(lb) {
                    ag.issues.push("OwnedLabel hashes differently from the Label it borrows as".into());
                }
                let mut map: HashMap<OwnedLabel, u8, BuildHasherDefault<DefaultHasher>> =
                    HashMap::default();
                map.insert(oa, 1);
                ag.put("eq", json!(map.get(lb).is_some()), "HashMap<OwnedLabel,_>::get(&Label)");
                ag.put("eq", json!(map.contains_key(&ob)), "HashMap<OwnedLabel,_>::contains_key(&OwnedLabel)");
            }
        }
        ag.finish()
    }

    //--- names

    pub enum NRep<'a> {
        V(Name<Vec<u8>>),
        B(Name<Bytes>),
        P(ParsedName<&'a [u8]>),
        C(Chain<RelativeName<Vec<u8>>, Name<Vec<u8>>>),
    }

    fn label_offsets(w: &[u8]) -> Vec<usize> {
        let mut v = vec![];
        let mut p = 0;
        while w[p] != 0 {
            v.push(p);
            p += 1 + w[p] as usize;
        }
        v.push(p);
        v
    }

    /// message-like buffers holding the name uncompressed and compressed at
    /// two different split points / offsets: (buffer, start position)
    pub fn name_buffers(w: &[u8]) -> Vec<(Vec<u8>, usize, usize)> {
        let offs = label_offsets(w);
        let nl = offs.len() - 1; // number of non-root labels
        let ptr = |b: &mut Vec<u8>, target: usize| {
            b.push(0xC0 | (target >> 8) as u8);
            b.push(target as u8);
        };
        let mut out = vec![];
        // 0: flat
        let mut b0 = vec![0u8; 12];
        b0.extend_from_slice(w);
        out.push((b0, 12, 0));
        // labels + pointer, at different split points / offsets
        for (pad, k) in [(0usize, 1usize.min(nl)), (5, nl), (300, (nl + 1) / 2)] {
            let cut = offs[k];
            let mut b = vec![0u8; 12 + pad];
            let target = b.len();
            b.extend_from_slice(&w[cut..]);
            let start = b.len();
            b.extend_from_slice(&w[..cut]);
            ptr(&mut b, target);
            out.push((b, start, 0));
        }
        // pointer-only chains of 1, 2 and 3 hops to the flat name
        {
            let mut b = vec![0u8; 12];
            b.extend_from_slice(w);
            let mut target = 12;
            for _ in 0..3 {
                let start = b.len();
                ptr(&mut b, target);
                out.push((b.clone(), start, 0));
                target = start;
            }
        }
        // pointer -> labels -> pointer (the name begins with a pointer to a
        // name that is itself compressed), also through two pointer hops
        for k in [1usize.min(nl), nl] {
            let cut = offs[k];
            let mut b = vec![0u8; 12];
            b.extend_from_slice(&w[cut..]); // suffix, flat, at 12
            let t1 = b.len();
            b.extend_from_slice(&w[..cut]);
            ptr(&mut b, 12); // first labels + pointer to the suffix
            let t2 = b.len();
            ptr(&mut b, t1);
            out.push((b.clone(), t2, 0));
            let t3 = b.len();
            ptr(&mut b, t2);
            out.push((b, t3, 0));
        }
        // labels + pointer -> labels + pointer -> flat suffix
        if nl >= 2 {
            let (c1, c2) = (offs[1], offs[2]);
            let mut b = vec![0u8; 14];
            b.extend_from_slice(&w[c2..]);
            let t1 = b.len();
            b.extend_from_slice(&w[c1..c2]);
            ptr(&mut b, 14);
            let t2 = b.len();
            b.extend_from_slice(&w[..c1]);
            ptr(&mut b, t1);
            out.push((b, t2, 0));
        }
        // longer names (two more labels in front) from which the name is
        // *derived* by stripping labels: the stripped labels are reached
        // through compression pointers in different ways
        if w.len() + 4 <= 255 {
            // p + ptr -> q + ptr -> flat name
            let mut b = vec![0u8; 12];
            b.extend_from_slice(w);
            let t1 = b.len();
            b.extend_from_slice(&[1, b'q']);
            ptr(&mut b, 12);
            out.push((b.clone(), t1, 1));
            let t2 = b.len();
            b.extend_from_slice(&[1, b'p']);
            ptr(&mut b, t1);
            out.push((b, t2, 2));
            // p + ptr -> q + ptr -> first labels + ptr -> suffix
            let cut = offs[1usize.min(nl)];
            let mut b = vec![0u8; 12];
            b.extend_from_slice(&w[cut..]);
            let t0 = b.len();
            b.extend_from_slice(&w[..cut]);
            ptr(&mut b, 12);
            let t1 = b.len();
            b.extend_from_slice(&[1, b'q']);
            ptr(&mut b, t0);
            let t2 = b.len();
            b.extend_from_slice(&[1, b'p']);
            ptr(&mut b, t1);
            out.push((b, t2, 2));
            // p + ptr -> ptr -> q + ptr -> flat name
            let mut b = vec![0u8; 12];
            b.extend_from_slice(w);
            let t1 = b.len();
            b.extend_from_slice(&[1, b'q']);
            ptr(&mut b, 12);
            let t1b = b.len();
            ptr(&mut b, t1);
            let t2 = b.len();
            b.extend_from_slice(&[1, b'p']);
            ptr(&mut b, t1b);
            out.push((b, t2, 2));
            // uncompressed
            let mut b = vec![0u8; 12];
            b.extend_from_slice(&[1, b'p', 1, b'q']);
            b.extend_from_slice(w);
            out.push((b, 12, 2));
        }
        out
    }

    pub fn name_reps<'a>(
        w: &[u8],
        bufs: &'a [(Vec<u8>, usize, usize)],
        with_suffix_iter: bool,
    ) -> Vec<(String, NRep<'a>)> {
        let mut out = vec![];
        out.push(("Name<Vec>".to_string(), NRep::V(Name::from_octets(w.to_vec()).unwrap())));
        out.push(("Name<Bytes>".to_string(), NRep::B(Name::from_octets(Bytes::copy_from_slice(w)).unwrap())));
        for (i, (buf, start, strip)) in bufs.iter().enumerate() {
            let mut p = Parser::from_ref(&buf[..]);
            p.advance(*start).unwrap();
            let n = ParsedName::parse(&mut p).unwrap();
            if *strip == 0 {
                out.push((format!("ParsedName#{i}"), NRep::P(n)));
                continue;
            }
            // names derived from a longer parsed name
            let mut a = n;
            for _ in 0..*strip {
                a.split_first().unwrap();
            }
            out.push((format!("ParsedName#{i}.split_first x{strip}"), NRep::P(a)));
            let mut b = n;
            for _ in 0..*strip {
                assert!(b.parent());
            }
            out.push((format!("ParsedName#{i}.parent x{strip}"), NRep::P(b)));
            if with_suffix_iter {
                // the iterator borrows the name it came from
                let keep: &'a ParsedName<&'a [u8]> = Box::leak(Box::new(n));
                let c = keep.iter_suffixes().nth(*strip).unwrap();
                out.push((format!("ParsedName#{i}.iter_suffixes[{strip}]"), NRep::P(c)));
            }
        }
        let offs = label_offsets(w);
        for k in [0, offs.len() / 2, offs.len() - 1] {
            let cut = offs[k];
            let rel = RelativeName::from_octets(w[..cut].to_vec()).unwrap();
            let abs = Name::from_octets(w[cut..].to_vec()).unwrap();
            out.push((format!("Chain@{k}"), NRep::C(rel.chain(abs).unwrap())));
        }
        out
    }

    fn generic_ops<A: ToName, B: ToName>(x: &A, y: &B, same_case: bool, what: &str, ag: &mut Agree) {
        ag.put("eq", json!(x.name_eq(y)), what);
        ag.put("cmp", json!(sgn(x.name_cmp(y))), what);
        ag.put("lcomposed", json!(sgn(x.lowercase_composed_cmp(y))), what);
        if same_case {
            ag.put("composed", json!(sgn(x.composed_cmp(y))), what);
        }
    }
    fn trait_ops<A, B>(x: &A, y: &B, what: &str, ag: &mut Agree)
    where
        A: PartialEq<B> + PartialOrd<B> + CanonicalOrd<B> + Hash,
        B: Hash,
    {
        ag.put("eq", json!(x == y), what);
        ag.put("cmp", json!(x.partial_cmp(y).map(sgn)), what);
        ag.put("cmp", json!(sgn(x.canonical_cmp(y))), what);
        ag.put("hash_ok", json!(x != y || h(x) == h(y)), what);
    }
    fn ord_ops<A: Ord>(x: &A, y: &A, what: &str, ag: &mut Agree) {
        ag.put("cmp", json!(sgn(x.cmp(y))), what);
    }

    macro_rules! right {
        ($x:expr, $b:expr, $f:ident, $($arg:expr),*) => {
            match $b {
                NRep::V(y) => $f($x, y, $($arg),*),
                NRep::B(y) => $f($x, y, $($arg),*),
                NRep::P(y) => $f($x, y, $($arg),*),
                NRep::C(y) => $f($x, y, $($arg),*),
            }
        };
    }
    macro_rules! right_hash {
        ($x:expr, $b:expr, $f:ident, $($arg:expr),*) => {
            match $b {
                NRep::V(y) => $f($x, y, $($arg),*),
                NRep::B(y) => $f($x, y, $($arg),*),
                NRep::P(y) => $f($x, y, $($arg),*),
                NRep::C(_) => {}
            }
        };
    }

    pub fn name_pair(a: &NRep<'_>, b: &NRep<'_>, same_case: bool, what: &str, ag: &mut Agree) {
        match a {
            NRep::V(x) => right!(x, b, generic_ops, same_case, what, ag),
            NRep::B(x) => right!(x, b, generic_ops, same_case, what, ag),
            NRep::P(x) => right!(x, b, generic_ops, same_case, what, ag),
            NRep::C(x) => right!(x, b, generic_ops, same_case, what, ag),
        }
        match a {
            NRep::V(x) => right_hash!(x, b, trait_ops, what, ag),
            NRep::B(x) => right_hash!(x, b, trait_ops, what, ag),
            NRep::P(x) => right_hash!(x, b, trait_ops, what, ag),
            NRep::C(_) => {}
        }
        match (a, b) {
            (NRep::V(x), NRep::V(y)) => ord_ops(x, y, what, ag),
            (NRep::B(x), NRep::B(y)) => ord_ops(x, y, what, ag),
            (NRep::P(x), NRep::P(y)) => ord_ops(x, y, what, ag),
            _ => {}
        }
    }

    pub fn observe_names(a: &[u8], b: &[u8]) -> Value {
        let mut ag = Agree::new();
        // every representation of a in its own case against every
        // representation of b; plus re-cased variants on a rotating subset
        for (ma, mb) in [(0usize, 0usize), (1, 2), (3, 1), (2, 3)] {
            let (wa, wb) = (recase(a, ma), recase(b, mb));
            let (ba, bb) = (name_buffers(&wa), name_buffers(&wb));
            let (ra, rb) = (name_reps(&wa, &ba, ma + mb == 0), name_reps(&wb, &bb, ma + mb == 0));
            for (i, (na, x)) in ra.iter().enumerate() {
                for (j, (nb, y)) in rb.iter().enumerate() {
                    if ma + mb > 0 && (i + 2 * j + ma) % 5 != 0 {
                        continue;
                    }
                    let what = format!("{na}(case {ma}) vs {nb}(case {mb})");
                    name_pair(x, y, ma == 0 && mb == 0, &what, &mut ag);
                }
            }
            other_name_types(&wa, &wb, &format!("case {ma}/{mb}"), &mut ag);
        }
        ag.finish()
    }

    /// The same label sequences as relative names (compared "as if relative
    /// to the same origin", so the answers are those of the absolute names),
    /// as UncertainName, and as borrowed `&Name<[u8]>`.
    fn other_name_types(wa: &[u8], wb: &[u8], case: &str, ag: &mut Agree) {
        let (na, nb) = (Name::from_slice(wa).unwrap(), Name::from_slice(wb).unwrap());
        let (va, vb) = (
            Name::from_octets(wa.to_vec()).unwrap(),
            Name::from_octets(wb.to_vec()).unwrap(),
        );
        let what = format!("&Name<[u8]> ({case})");
        ag.put("eq", json!(na == nb), &what);
        ag.put("eq", json!(*na == vb), &what);
        ag.put("cmp", json!(sgn(na.cmp(nb))), &what);
        ag.put("cmp", json!(na.partial_cmp(&vb).map(sgn)), &what);
        ag.put("hash_ok", json!(na != nb || (h(na) == h(nb) && h(na) == h(&vb))), &what);

        let (ra, rb) = (&wa[..wa.len() - 1], &wb[..wb.len() - 1]);
        let (rva, rvb) = (
            RelativeName::from_octets(ra.to_vec()).unwrap(),
            RelativeName::from_octets(rb.to_vec()).unwrap(),
        );
        let (rsa, rsb) = (RelativeName::from_slice(ra).unwrap(), RelativeName::from_slice(rb).unwrap());
        let rbb = RelativeName::from_octets(Bytes::copy_from_slice(rb)).unwrap();
        let what = format!("RelativeName ({case})");
        ag.put("eq", json!(rva == rvb), &what);
        ag.put("eq", json!(rva == rbb), &what);
        ag.put("eq", json!(*rsa == rvb), &what);
        ag.put("eq", json!(ToRelativeName::name_eq(&rva, rsb)), &what);
        ag.put("cmp", json!(sgn(rva.cmp(&rvb))), &what);
        ag.put("cmp", json!(sgn(rsa.cmp(rsb))), &what);
        ag.put("cmp", json!(rva.partial_cmp(&rbb).map(sgn)), &what);
        ag.put("cmp", json!(sgn(ToRelativeName::name_cmp(&rbb, &rva)) * -1), &what);
        ag.put(
            "hash_ok",
            json!(rva != rvb || (h(&rva) == h(&rvb) && h(&rva) == h(&rbb) && h(rsa) == h(&rvb))),
            &what,
        );

        let (ua, ub) = (UncertainName::absolute(va.clone()), UncertainName::absolute(vb.clone()));
        let (ura, urb) = (UncertainName::relative(rva.clone()), UncertainName::relative(rvb.clone()));
        let what = format!("UncertainName ({case})");
        ag.put("eq", json!(ua == ub), &what);
        ag.put("eq", json!(ura == urb), &what);
        ag.put("hash_ok", json!(ua != ub || h(&ua) == h(&ub)), &what);
        ag.put("hash_ok", json!(ura != urb || h(&ura) == h(&urb)), &what);
        // an absolute and a relative name are different values; whatever ==
        // says, equal values must hash alike
        ag.put("hash_ok", json!(ua != urb || h(&ua) == h(&urb)), &what);
    }

    //--- character strings

    pub fn observe_charstrs(a: &[u8], b: &[u8]) -> Value {
        let mut ag = Agree::new();
        for ma in 0..4 {
            for mb in 0..4 {
                let (wa, wb) = (recase(a, ma), recase(b, mb));
                let what = format!("case variant {ma}/{mb}");
                let (va, vb) = (
                    CharStr::from_octets(wa.clone()).unwrap(),
                    CharStr::from_octets(wb.clone()).unwrap(),
                );
                let (sa, sb) = (CharStr::from_slice(&wa).unwrap(), CharStr::from_slice(&wb).unwrap());
                let (ya, yb) = (
                    CharStr::from_octets(Bytes::from(wa.clone())).unwrap(),
                    CharStr::from_octets(Bytes::from(wb.clone())).unwrap(),
                );
                ag.put("eq", json!(va == vb), &what);
                ag.put("eq", json!(sa == sb), &what);
                ag.put("eq", json!(va == yb), &what);
                ag.put("eq", json!(ya == *sb), &what);
                ag.put("cmp0", json!(va.cmp(&vb) == Ordering::Equal), &what);
                ag.put("cmp0", json!(ya.cmp(&yb) == Ordering::Equal), &what);
                ag.put("cmp0", json!(va.partial_cmp(&yb) == Some(Ordering::Equal)), &what);
                if sgn(va.cmp(&vb)) != -sgn(vb.cmp(&va)) {
                    ag.issues.push(format!("cmp not antisymmetric ({what})"));
                }
                if va.partial_cmp(&yb) != Some(va.cmp(&vb)) {
                    ag.issues.push(format!("partial_cmp differs from cmp ({what})"));
                }
                let hash_ok = va != vb || (h(&va) == h(&vb) && h(sa) == h(&yb) && h(&va) == h(sb));
                ag.put("hash_ok", json!(hash_ok), &what);
                if ma == 0 && mb == 0 {
                    ag.put("canon", json!(sgn(va.canonical_cmp(&vb))), &what);
                    ag.put("canon", json!(sgn(sa.canonical_cmp(&yb))), &what);
                }
            }
        }
        ag.finish()
    }

    //--- record data

    fn free_pair(ag: &mut Agree, free: bool, eq_key: &'static str, cmp_key: &'static str) {
        // where == is not pinned only its coherence with cmp is demanded
        if free && ag.vals.get(eq_key) == ag.vals.get(cmp_key) {
            ag.vals.insert(eq_key, json!("free"));
            ag.vals.insert(cmp_key, json!("free"));
        }
    }

    pub fn observe_rdata_pair(ma: &[u8], mb: &[u8], eqfree: bool) -> Value {
        let mut ag = Agree::new();
        let (ma_, mb_) = (Message::from_slice(ma).unwrap(), Message::from_slice(mb).unwrap());
        let (ra, rb) = match (parse_all(ma_), parse_all(mb_)) {
            (Ok(x), Ok(y)) => (x, y),
            _ => return json!({"parse": "err"}),
        };
        let (da, db) = (ra.data(), rb.data());
        let (ha, hb) = (h(da), h(db));      // always, so that a panicking Hash shows
        ag.put("eq_all", json!(da == db), "AllRecordData ==");
        ag.put("cmp0_all", json!(da.cmp(db) == Ordering::Equal), "AllRecordData cmp");
        ag.put("cmp0_all", json!(da.partial_cmp(db) == Some(Ordering::Equal)), "AllRecordData partial_cmp");
        if sgn(da.cmp(db)) != -sgn(db.cmp(da)) {
            ag.issues.push("AllRecordData cmp not antisymmetric".into());
        }
        if da.partial_cmp(db) != Some(da.cmp(db)) {
            ag.issues.push("AllRecordData partial_cmp differs from cmp".into());
        }
        ag.put("canon", json!(sgn(da.canonical_cmp(db))), "AllRecordData canonical_cmp");
        ag.put("canon", json!(-sgn(db.canonical_cmp(da))), "AllRecordData canonical_cmp reversed");
        ag.put("canon_octets", json!(sgn(compose_canon(da).cmp(&compose_canon(db)))), "octets of compose_canonical_rdata");
        ag.put("hash_ok", json!(da != db || ha == hb), "AllRecordData hash");
        // the zone enum
        let za = ma_.answer().unwrap().next().unwrap().unwrap().into_record::<ZoneData<'_>>();
        let zb = mb_.answer().unwrap().next().unwrap().unwrap().into_record::<ZoneData<'_>>();
        match (za, zb) {
            (Ok(Some(za)), Ok(Some(zb))) => {
                let (za, zb) = (za.data(), zb.data());
                ag.put("eq_zone", json!(za == zb), "ZoneRecordData ==");
                ag.put("cmp0_zone", json!(za.cmp(zb) == Ordering::Equal), "ZoneRecordData cmp");
                ag.put("cmp0_zone", json!(za.partial_cmp(zb) == Some(Ordering::Equal)), "ZoneRecordData partial_cmp");
                if sgn(za.cmp(zb)) != -sgn(zb.cmp(za)) {
                    ag.issues.push("ZoneRecordData cmp not antisymmetric".into());
                }
                ag.put("canon", json!(sgn(za.canonical_cmp(zb))), "ZoneRecordData canonical_cmp");
                ag.put("hash_ok", json!(za != zb || h(za) == h(zb)), "ZoneRecordData hash");
            }
            _ => ag.issues.push("ZoneRecordData did not parse".into()),
        }
        free_pair(&mut ag, eqfree, "eq_all", "cmp0_all");
        free_pair(&mut ag, eqfree, "eq_zone", "cmp0_zone");
        ag.finish()
    }

    //--- records

    pub fn record_msg(r: &Value) -> Vec<u8> {
        let owner = verif_harness::common::bytes_of(&r["owner"]);
        let rd = verif_harness::common::bytes_of(&r["rd"]);
        let mut m = vec![0, 0, 0x80, 0, 0, 0, 0, 1, 0, 0, 0, 0];
        m.extend_from_slice(&owner);
        m.extend_from_slice(&(r["rtype"].as_u64().unwrap() as u16).to_be_bytes());
        m.extend_from_slice(&(r["class"].as_u64().unwrap() as u16).to_be_bytes());
        m.extend_from_slice(&(r["ttl"].as_u64().unwrap() as u32).to_be_bytes());
        m.extend_from_slice(&(rd.len() as u16).to_be_bytes());
        m.extend_from_slice(&rd);
        m
    }

    fn hdr_at12(m: &[u8]) -> RecordHeader<ParsedName<&[u8]>> {
        let mut p = Parser::from_ref(m);
        p.advance(12).unwrap();
        RecordHeader::parse_ref(&mut p).unwrap()
    }
    fn prec_at12(m: &[u8]) -> ParsedRecord<'_, [u8]> {
        let mut p = Parser::from_ref(m);
        p.advance(12).unwrap();
        ParsedRecord::parse(&mut p).unwrap()
    }

    pub fn observe_record_pair(a: &Value, b: &Value, eqfree: bool, canonfree: bool) -> Value {
        let mut ag = Agree::new();
        let (ma, mb) = (record_msg(a), record_msg(b));
        let (ma_, mb_) = (Message::from_slice(&ma).unwrap(), Message::from_slice(&mb).unwrap());
        let (ra, rb) = match (parse_all(ma_), parse_all(mb_)) {
            (Ok(x), Ok(y)) => (x, y),
            _ => return json!({"parse": "err"}),
        };
        ag.put("eq", json!(ra == rb), "Record ==");
        ag.put("eq", json!(rb == ra), "Record == reversed");
        ag.put("cmp0", json!(ra.cmp(&rb) == Ordering::Equal), "Record cmp");
        ag.put("cmp0", json!(ra.partial_cmp(&rb) == Some(Ordering::Equal)), "Record partial_cmp");
        if sgn(ra.cmp(&rb)) != -sgn(rb.cmp(&ra)) {
            ag.issues.push("Record cmp not antisymmetric".into());
        }
        if ra.partial_cmp(&rb) != Some(ra.cmp(&rb)) {
            ag.issues.push("Record partial_cmp differs from cmp".into());
        }
        let c = sgn(ra.canonical_cmp(&rb));
        if c != -sgn(rb.canonical_cmp(&ra)) {
            ag.issues.push("Record canonical_cmp not antisymmetric".into());
        }
        ag.put("canon", if canonfree { json!("free") } else { json!(c) }, "Record canonical_cmp");
        ag.put("hash_ok", json!(ra != rb || h(&ra) == h(&rb)), "Record hash");

        // the record data of the two records compared directly (possibly of
        // different types, known or unknown): no order is pinned across
        // types, but it must be antisymmetric and Equal only for == values
        {
            let (da, db) = (ra.data(), rb.data());
            if sgn(da.canonical_cmp(db)) != -sgn(db.canonical_cmp(da)) {
                ag.issues.push("AllRecordData canonical_cmp across records not antisymmetric".into());
            }
            if sgn(da.cmp(db)) != -sgn(db.cmp(da)) {
                ag.issues.push("AllRecordData cmp across records not antisymmetric".into());
            }
            if (da.canonical_cmp(db) == Ordering::Equal && da != db)
                || ((da.cmp(db) == Ordering::Equal) != (da == db))
            {
                ag.issues.push("AllRecordData order and == incoherent across records".into());
            }
            let za = ma_.answer().unwrap().next().unwrap().unwrap().into_record::<ZoneData<'_>>();
            let zb = mb_.answer().unwrap().next().unwrap().unwrap().into_record::<ZoneData<'_>>();
            if let (Ok(Some(rza)), Ok(Some(rzb))) = (za, zb) {
                let (za, zb) = (rza.data(), rzb.data());
                if sgn(za.canonical_cmp(zb)) != -sgn(zb.canonical_cmp(za))
                    || sgn(za.cmp(zb)) != -sgn(zb.cmp(za))
                {
                    ag.issues.push("ZoneRecordData order across records not antisymmetric".into());
                }
                if (za.canonical_cmp(zb) == Ordering::Equal && za != zb)
                    || ((za.cmp(zb) == Ordering::Equal) != (za == zb))
                {
                    ag.issues.push("ZoneRecordData order and == incoherent across records".into());
                }
                // records over the zone enum order like those over the full enum
                let cz = sgn(rza.canonical_cmp(&rzb));
                ag.put("canon", if canonfree { json!("free") } else { json!(cz) }, "Record<_, ZoneRecordData> canonical_cmp");
            }
        }

        // the owned (flattened) form of both records
        type OwnedRec = Record<Name<Vec<u8>>, AllRecordData<Vec<u8>, Name<Vec<u8>>>>;
        let oa: Result<OwnedRec, _> = ra.clone().try_flatten_into();
        let ob: Result<OwnedRec, _> = rb.clone().try_flatten_into();
        match (oa, ob) {
            (Ok(oa), Ok(ob)) => {
                ag.put("eq", json!(oa == ob), "owned Record ==");
                ag.put("eq", json!(ra == ob), "parsed Record == owned Record");
                ag.put("cmp0", json!(oa.cmp(&ob) == Ordering::Equal), "owned Record cmp");
                let c2 = sgn(oa.canonical_cmp(&ob));
                let c3 = sgn(ra.canonical_cmp(&ob));
                ag.put("canon", if canonfree { json!("free") } else { json!(c2) }, "owned Record canonical_cmp");
                ag.put("canon", if canonfree { json!("free") } else { json!(c3) }, "parsed vs owned canonical_cmp");
                ag.put("hash_ok", json!(oa != ob || h(&oa) == h(&ob)), "owned Record hash");
                // a record and its own flattened copy are the same value
                if oa != ra || ob != rb {
                    ag.issues.push("a record is not == to its owned copy".into());
                } else if h(&oa) != h(&ra) || h(&ob) != h(&rb) {
                    ag.issues.push("a record and its owned copy hash differently".into());
                }
            }
            _ => ag.issues.push("record does not flatten".into()),
        }

        // record header and unparsed record
        let (ha, hb) = (hdr_at12(&ma), hdr_at12(&mb));
        let own = |x: &RecordHeader<ParsedName<&[u8]>>| {
            let n: Name<Vec<u8>> = x.owner().to_name();
            RecordHeader::new(n, x.rtype(), x.class(), x.ttl(), x.rdlen())
        };
        let (hoa, hob) = (own(&ha), own(&hb));
        ag.put("hdr_eq", json!(ha == hb), "RecordHeader ==");
        ag.put("hdr_eq", json!(ha == hob), "RecordHeader == owned");
        ag.put("hdr_eq", json!(ha.cmp(&hb) == Ordering::Equal), "RecordHeader cmp");
        ag.put("hdr_eq", json!(hoa.partial_cmp(&hb) == Some(Ordering::Equal)), "RecordHeader partial_cmp");
        if sgn(ha.cmp(&hb)) != -sgn(hb.cmp(&ha)) || ha.partial_cmp(&hob) != Some(ha.cmp(&hb)) {
            ag.issues.push("RecordHeader order incoherent".into());
        }
        ag.put("hash_ok_hq", json!(ha != hb || (h(&ha) == h(&hb) && h(&hoa) == h(&hb))), "RecordHeader hash");
        ag.put("parsed_eq", json!(prec_at12(&ma) == prec_at12(&mb)), "ParsedRecord ==");
        ag.put("parsed_eq", json!(prec_at12(&mb) == prec_at12(&ma)), "ParsedRecord == reversed");

        // the questions asking for these records
        let (qa, qb) = (
            Question::new(ha.owner().clone(), ha.rtype(), ha.class()),
            Question::new(hb.owner().clone(), hb.rtype(), hb.class()),
        );
        let (qoa, qob) = (
            Question::new(hoa.owner().clone(), ha.rtype(), ha.class()),
            Question::new(hob.owner().clone(), hb.rtype(), hb.class()),
        );
        ag.put("q_eq", json!(qa == qb), "Question ==");
        ag.put("q_eq", json!(qa == qob), "Question == owned");
        ag.put("q_eq", json!(qa.cmp(&qb) == Ordering::Equal), "Question cmp");
        ag.put("q_eq", json!(qoa.partial_cmp(&qb) == Some(Ordering::Equal)), "Question partial_cmp");
        if sgn(qa.cmp(&qb)) != -sgn(qb.cmp(&qa)) || qa.partial_cmp(&qob) != Some(qa.cmp(&qb)) {
            ag.issues.push("Question order incoherent".into());
        }
        ag.put("q_canon", json!(sgn(qa.canonical_cmp(&qb))), "Question canonical_cmp");
        ag.put("q_canon", json!(sgn(qoa.canonical_cmp(&qb))), "owned Question canonical_cmp");
        ag.put("q_canon", json!(-sgn(qb.canonical_cmp(&qoa))), "Question canonical_cmp reversed");
        ag.put("hash_ok_hq", json!(qa != qb || (h(&qa) == h(&qb) && h(&qoa) == h(&qb))), "Question hash");

        free_pair(&mut ag, eqfree, "eq", "cmp0");
        ag.finish()
    }

    /// transitivity of an implementation order over a small set (law check
    /// on the implementation itself)
    pub fn transitive<T, F: Fn(&T, &T) -> i64>(xs: &[T], f: F) -> bool {
        for x in xs {
            for y in xs {
                if f(x, y) > 0 {
                    continue;
                }
                for z in xs {
                    if f(y, z) <= 0 && f(x, z) > 0 {
                        return false;
                    }
                }
            }
        }
        true
    }
}

//============================================================================
// C05: EDNS options built through their constructors and the OPT builders
//============================================================================

pub mod optbuild {
    use super::*;
    use domain::base::iana::{ExtendedErrorCode, SecurityAlgorithm};
    use domain::base::name::Name;
    use domain::base::net::{IpAddr, Ipv4Addr, Ipv6Addr};
    use domain::base::opt::cookie::{ClientCookie, ServerCookie, StandardServerCookie};
    use domain::base::opt::keepalive::IdleTimeout;
    use domain::base::opt::{
        AllOptData, Chain, ClientSubnet, ComposeOptData, Cookie, Dau, Dhu, Expire,
        ExtendedError, KeyTag, N3u, Nsid, Opt, OptData, OptRecord, Padding, TcpKeepalive,
    };
    use domain::base::Serial;
    use octseq::str::Str;
    use std::panic::{catch_unwind, AssertUnwindSafe};
    use std::time::Duration;
    use verif_harness::common::bytes_of;

    pub type V = AllOptData<Vec<u8>, Name<Vec<u8>>>;
    pub const KINDS: [&str; 12] = [
        "NSID", "DAU", "DHU", "N3U", "ECS", "EXPIRE", "COOKIE", "KEEPALIVE", "PADDING", "CHAIN",
        "KEYTAG", "EDE",
    ];

    /// What the accessors of an option value show.
    pub fn view<O: AsRef<[u8]>, N: ToName>(v: &AllOptData<O, N>, issues: &mut Vec<String>) -> Value {
        match v {
            AllOptData::Nsid(x) => json!({"o": "NSID", "data": x.as_slice()}),
            AllOptData::Padding(x) => json!({"o": "PADDING", "data": x.as_slice()}),
            AllOptData::Dau(x) => {
                let algs: Vec<u8> = x.iter().map(|a| a.to_int()).collect();
                if algs != x.as_slice() {
                    issues.push("DAU: iter() differs from the octets".into());
                }
                json!({"o": "DAU", "algs": algs})
            }
            AllOptData::Dhu(x) => {
                let algs: Vec<u8> = x.into_iter().map(|a| a.to_int()).collect();
                if algs != x.as_slice() {
                    issues.push("DHU: iter() differs from the octets".into());
                }
                json!({"o": "DHU", "algs": algs})
            }
            AllOptData::N3u(x) => {
                let algs: Vec<u8> = x.iter().map(|a| a.to_int()).collect();
                if algs != x.for_slice().as_slice() {
                    issues.push("N3U: iter() differs from the octets".into());
                }
                json!({"o": "N3U", "algs": algs})
            }
            AllOptData::ClientSubnet(x) => {
                let (fam, addr) = match x.addr() {
                    IpAddr::V4(a) => (1, a.octets().to_vec()),
                    IpAddr::V6(a) => (2, a.octets().to_vec()),
                };
                json!({"o": "ECS", "fam": fam, "src": x.source_prefix_len(),
                       "scope": x.scope_prefix_len(), "addr": addr})
            }
            AllOptData::Expire(x) => json!({"o": "EXPIRE", "some": x.expire().is_some(),
                       "secs": x.expire().unwrap_or(0).to_be_bytes()}),
            AllOptData::Cookie(x) => {
                let server: Vec<u8> = x.server().map(|s| s.as_ref().to_vec()).unwrap_or_default();
                if let Some(s) = x.server() {
                    if usize::from(s.compose_len()) != server.len() {
                        issues.push("COOKIE: ServerCookie::compose_len differs from its octets".into());
                    }
                    match s.try_to_standard() {
                        Some(std) => {
                            let mut back = vec![std.version()];
                            back.extend_from_slice(&std.reserved());
                            back.extend_from_slice(&std.timestamp().into_int().to_be_bytes());
                            back.extend_from_slice(&std.hash());
                            if server.len() != 16 || back != server {
                                issues.push("COOKIE: try_to_standard shows other octets".into());
                            }
                        }
                        None => {
                            if server.len() == 16 {
                                issues.push("COOKIE: 16-octet server cookie is not standard".into());
                            }
                        }
                    }
                }
                json!({"o": "COOKIE", "client": x.client().into_octets(),
                       "some": x.server().is_some(), "server": server})
            }
            AllOptData::TcpKeepalive(x) => {
                let t = x.timeout().map(u16::from).unwrap_or(0);
                if let Some(to) = x.timeout() {
                    if Duration::from(to) != Duration::from_millis(u64::from(t) * 100) {
                        issues.push("KEEPALIVE: Duration::from(IdleTimeout) is not t * 100 ms".into());
                    }
                }
                json!({"o": "KEEPALIVE", "some": x.timeout().is_some(), "t": t})
            }
            AllOptData::Chain(x) => {
                let mut w = Vec::new();
                x.start().compose(&mut w).unwrap();
                json!({"o": "CHAIN", "name": w})
            }
            AllOptData::KeyTag(x) => {
                let tags: Vec<u16> = x.iter().collect();
                let again: Vec<u16> = x.into_iter().collect();
                if tags != again || tags.len() * 2 != x.as_slice().len() {
                    issues.push("KEYTAG: iterators disagree with the octets".into());
                }
                json!({"o": "KEYTAG", "tags": tags})
            }
            AllOptData::ExtendedError(x) => {
                let text = x.text_slice().unwrap_or(&[]).to_vec();
                match x.text() {
                    None => {}
                    Some(Ok(s)) => {
                        if s.as_slice() != &text[..] {
                            issues.push("EDE: text() differs from text_slice()".into());
                        }
                    }
                    Some(Err(_)) => {
                        if std::str::from_utf8(&text).is_ok() {
                            issues.push("EDE: UTF-8 text reported as not UTF-8".into());
                        }
                    }
                }
                if x.is_private() != (x.code().to_int() >= 49152) {
                    issues.push("EDE: is_private() disagrees with the code".into());
                }
                json!({"o": "EDE", "code": x.code().to_int(), "text": text})
            }
            AllOptData::Other(x) => json!({"o": "OTHER", "code": x.code().to_int(), "data": x.as_slice()}),
            _ => json!({"o": "?"}),
        }
    }

    fn data_of<T: ComposeOptData + ?Sized>(t: &T) -> (Vec<u8>, u16) {
        let mut v = Vec::new();
        t.compose_option(&mut v).unwrap();
        (v, t.compose_len())
    }

    fn guarded<T>(f: impl FnOnce() -> Option<T>) -> Option<T> {
        catch_unwind(AssertUnwindSafe(f)).unwrap_or(None)
    }

    fn algs_of(a: &Value) -> Vec<SecurityAlgorithm> {
        bytes_of(&a["algs"]).into_iter().map(SecurityAlgorithm::from_int).collect()
    }

    fn addr_of(a: &Value) -> IpAddr {
        let o = bytes_of(&a["addr"]);
        if a["fam"].as_u64() == Some(1) {
            let mut b = [0u8; 4];
            b.copy_from_slice(&o);
            IpAddr::V4(Ipv4Addr::from(b))
        } else {
            let mut b = [0u8; 16];
            b.copy_from_slice(&o);
            IpAddr::V6(Ipv6Addr::from(b))
        }
    }

    fn u8_of(v: &Value) -> u8 {
        v.as_u64().unwrap() as u8
    }

    fn name_of(a: &Value) -> Name<Vec<u8>> {
        let mut w = vec![];
        for l in a["name"].as_array().unwrap() {
            let l = bytes_of(l);
            w.push(l.len() as u8);
            w.extend_from_slice(&l);
        }
        w.push(0);
        Name::from_octets(w).unwrap()
    }

    fn utf8(a: &Value) -> Str<Vec<u8>> {
        Str::from_utf8(bytes_of(&a["text"])).expect("case texts are UTF-8")
    }

    /// Every public way to construct the value the arguments describe;
    /// `None` = the constructor refuses (error result or documented panic).
    pub fn constructions(a: &Value) -> Vec<(&'static str, Option<V>)> {
        let mut out: Vec<(&'static str, Option<V>)> = vec![];
        let o = a["o"].as_str().unwrap_or("");
        match o {
            "NSID" => {
                let d = bytes_of(&a["data"]);
                out.push(("Nsid::from_octets", Nsid::from_octets(d.clone()).ok().map(V::Nsid)));
                out.push(("Nsid::from_slice", Nsid::from_slice(&d).ok()
                    .map(|n| V::Nsid(Nsid::from_octets(n.as_slice().to_vec()).unwrap()))));
                if d.is_empty() {
                    out.push(("Nsid::empty", Some(V::Nsid(Nsid::from_octets(Nsid::empty().as_slice().to_vec()).unwrap()))));
                }
            }
            "PADDING" => {
                let d = bytes_of(&a["data"]);
                out.push(("Padding::from_octets", Padding::from_octets(d).ok().map(V::Padding)));
            }
            "DAU" => {
                let algs = algs_of(a);
                let d = bytes_of(&a["algs"]);
                out.push(("Dau::from_sec_algs", Dau::<Vec<u8>>::from_sec_algs(algs).ok().map(V::Dau)));
                out.push(("Dau::from_octets", Dau::from_octets(d.clone()).ok().map(V::Dau)));
                out.push(("Dau::from_slice", Dau::from_slice(&d).ok()
                    .map(|x| V::Dau(Dau::from_octets(x.as_slice().to_vec()).unwrap()))));
            }
            "DHU" => {
                let algs = algs_of(a);
                let d = bytes_of(&a["algs"]);
                out.push(("Dhu::from_sec_algs", Dhu::<Vec<u8>>::from_sec_algs(algs).ok().map(V::Dhu)));
                out.push(("Dhu::from_octets", Dhu::from_octets(d).ok().map(V::Dhu)));
            }
            "N3U" => {
                let algs = algs_of(a);
                let d = bytes_of(&a["algs"]);
                out.push(("N3u::from_sec_algs", N3u::<Vec<u8>>::from_sec_algs(algs).ok().map(V::N3u)));
                out.push(("N3u::from_octets", N3u::from_octets(d).ok().map(V::N3u)));
            }
            "ECS" => {
                let (src, scope, addr) = (u8_of(&a["src"]), u8_of(&a["scope"]), addr_of(a));
                out.push(("ClientSubnet::new", guarded(|| Some(V::ClientSubnet(ClientSubnet::new(src, scope, addr))))));
            }
            "EXPIRE" => {
                let secs = if a["some"].as_bool().unwrap() {
                    let b = bytes_of(&a["secs"]);
                    Some(u32::from_be_bytes([b[0], b[1], b[2], b[3]]))
                } else {
                    None
                };
                out.push(("Expire::new", Some(V::Expire(Expire::new(secs)))));
            }
            "COOKIE" => {
                let mut c = [0u8; 8];
                c.copy_from_slice(&bytes_of(&a["client"]));
                let s = bytes_of(&a["server"]);
                let some = a["some"].as_bool().unwrap();
                out.push(("Cookie::new(ClientCookie::from_octets, ServerCookie::from_octets)", guarded(|| {
                    let server = if some { Some(ServerCookie::from_octets(&s)) } else { None };
                    Some(V::Cookie(Cookie::new(ClientCookie::from_octets(c), server)))
                })));
                if some && s.len() == 16 {
                    out.push(("Cookie::new(ClientCookie::from, StandardServerCookie::new)", guarded(|| {
                        let std = StandardServerCookie::new(
                            s[0], [s[1], s[2], s[3]],
                            Serial::from(u32::from_be_bytes([s[4], s[5], s[6], s[7]])),
                            [s[8], s[9], s[10], s[11], s[12], s[13], s[14], s[15]]);
                        Some(V::Cookie(Cookie::new(ClientCookie::from(c), Some(ServerCookie::from(std)))))
                    })));
                }
            }
            "KEEPALIVE" => {
                let t = a["t"].as_u64().unwrap();
                let sub = a["sub"].as_u64().unwrap();
                if !a["some"].as_bool().unwrap() {
                    out.push(("TcpKeepalive::new(None)", Some(V::TcpKeepalive(TcpKeepalive::new(None)))));
                } else {
                    if sub == 0 && t <= 65535 {
                        out.push(("TcpKeepalive::new(IdleTimeout::from(u16))",
                            Some(V::TcpKeepalive(TcpKeepalive::new(Some(IdleTimeout::from(t as u16)))))));
                    }
                    out.push(("TcpKeepalive::new(IdleTimeout::try_from(Duration))",
                        IdleTimeout::try_from(Duration::from_millis(t * 100 + sub)).ok()
                            .map(|x| V::TcpKeepalive(TcpKeepalive::new(Some(x))))));
                    out.push(("IdleTimeout::try_from(Duration::new)",
                        IdleTimeout::try_from(Duration::new(t / 10, ((t % 10) * 100 + sub) as u32 * 1_000_000 + 999_999)).ok()
                            .map(|x| V::TcpKeepalive(TcpKeepalive::new(Some(x))))));
                }
            }
            "CHAIN" => {
                let n = name_of(a);
                out.push(("Chain::new", Some(V::Chain(Chain::new(n.clone())))));
                out.push(("Chain::new_ref", Some(V::Chain(Chain::new(Chain::new_ref(&n).start().clone())))));
            }
            "KEYTAG" => {
                let d = bytes_of(&a["data"]);
                out.push(("KeyTag::from_octets", KeyTag::from_octets(d.clone()).ok().map(V::KeyTag)));
                out.push(("KeyTag::from_slice", KeyTag::from_slice(&d).ok()
                    .map(|x| V::KeyTag(KeyTag::from_octets(x.as_slice().to_vec()).unwrap()))));
            }
            "EDE" => {
                let code = ExtendedErrorCode::from_int(a["code"].as_u64().unwrap() as u16);
                let text = utf8(a);
                out.push(("ExtendedError::new", ExtendedError::new(code, Some(text.clone())).ok().map(V::ExtendedError)));
                out.push(("ExtendedError::new_with_str",
                    ExtendedError::<Vec<u8>>::new_with_str(code, text.as_str()).ok().map(V::ExtendedError)));
                out.push(("ExtendedError::try_from((code, text))",
                    ExtendedError::try_from((code, text.clone())).ok().map(V::ExtendedError)));
                let mut e = ExtendedError::<Vec<u8>>::from(code.to_int());
                let e2 = ExtendedError::<Vec<u8>>::from(code);
                if text.is_empty() {
                    out.push(("ExtendedError::from(u16)", Some(V::ExtendedError(e.clone()))));
                    out.push(("ExtendedError::from(code)", Some(V::ExtendedError(e2))));
                    out.push(("ExtendedError::new(code, None)", ExtendedError::new(code, None).ok().map(V::ExtendedError)));
                }
                if text.len() + 2 <= 65535 {
                    e.set_text(text);
                    out.push(("ExtendedError::from(u16) + set_text", Some(V::ExtendedError(e))));
                }
            }
            _ => {}
        }
        out
    }

    /// built == read back, where the option type offers an equality
    fn same_value(a: &V, b: &AllOptData<&[u8], Name<&[u8]>>) -> Option<bool> {
        Some(match (a, b) {
            (AllOptData::Nsid(x), AllOptData::Nsid(y)) => x == y,
            (AllOptData::Dau(x), AllOptData::Dau(y)) => x == y,
            (AllOptData::Dhu(x), AllOptData::Dhu(y)) => x == y,
            (AllOptData::N3u(x), AllOptData::N3u(y)) => x == y,
            (AllOptData::ClientSubnet(x), AllOptData::ClientSubnet(y)) => x == y,
            (AllOptData::Expire(x), AllOptData::Expire(y)) => x == y,
            (AllOptData::Cookie(x), AllOptData::Cookie(y)) => x == y,
            (AllOptData::TcpKeepalive(x), AllOptData::TcpKeepalive(y)) => x == y,
            (AllOptData::Chain(x), AllOptData::Chain(y)) => x == y,
            (AllOptData::KeyTag(x), AllOptData::KeyTag(y)) => x == y,
            (AllOptData::ExtendedError(x), AllOptData::ExtendedError(y)) => {
                // RFC 8914: an empty EXTRA-TEXT and none are one value; the
                // library's Some("") / None distinction is not judged
                if x.text_slice().map(|t| t.is_empty()).unwrap_or(false) {
                    return None;
                }
                x == y
            }
            (AllOptData::Padding(_), AllOptData::Padding(_)) => return None,
            _ => false,
        })
    }

    macro_rules! with_concrete {
        ($v:expr, $x:ident => $e:expr) => {
            match $v {
                AllOptData::Nsid($x) => $e,
                AllOptData::Dau($x) => $e,
                AllOptData::Dhu($x) => $e,
                AllOptData::N3u($x) => $e,
                AllOptData::ClientSubnet($x) => $e,
                AllOptData::Expire($x) => $e,
                AllOptData::Cookie($x) => $e,
                AllOptData::TcpKeepalive($x) => $e,
                AllOptData::Padding($x) => $e,
                AllOptData::Chain($x) => $e,
                AllOptData::KeyTag($x) => $e,
                AllOptData::ExtendedError($x) => $e,
                _ => unreachable!(),
            }
        };
    }

    /// The OPT RDATA of a message whose OPT record was written by `f`.
    fn via_builder(
        f: impl FnOnce(&mut domain::base::message_builder::OptBuilder<'_, Vec<u8>>),
    ) -> Result<Vec<u8>, String> {
        let mut add = MessageBuilder::new_vec().additional();
        add.opt(|o| {
            f(o);
            Ok(())
        })
        .map_err(|e| e.to_string())?;
        Ok(add.finish())
    }

    /// The typed push of the message builder for this value, if it has one
    /// (the arguments are handed over again: the builder constructs the
    /// value itself).  Returns false if the builder refused.
    fn typed_push(
        o: &mut domain::base::message_builder::OptBuilder<'_, Vec<u8>>,
        a: &Value,
        v: &V,
    ) -> bool {
        match v {
            AllOptData::Nsid(x) => {
                if x.as_slice().is_empty() {
                    o.client_nsid().is_ok()
                } else {
                    o.nsid(x.as_slice()).is_ok()
                }
            }
            AllOptData::Dau(_) => o.dau(&algs_of(a)).is_ok(),
            AllOptData::Dhu(_) => o.dhu(&algs_of(a)).is_ok(),
            AllOptData::N3u(_) => o.n3u(&algs_of(a)).is_ok(),
            AllOptData::ClientSubnet(_) => {
                o.client_subnet(u8_of(&a["src"]), u8_of(&a["scope"]), addr_of(a)).is_ok()
            }
            AllOptData::Expire(x) => o.expire(x.expire()).is_ok(),
            AllOptData::Cookie(x) => o.cookie(x.clone()).is_ok(),
            AllOptData::TcpKeepalive(x) => o.tcp_keepalive(x.timeout()).is_ok(),
            AllOptData::Padding(x) => {
                if x.as_slice().iter().all(|b| *b == 0) {
                    o.padding(x.as_slice().len() as u16).is_ok()
                } else {
                    o.push(x).is_ok()
                }
            }
            AllOptData::Chain(x) => o.chain(x.start()).is_ok(),
            AllOptData::KeyTag(x) => o.key_tag(x).is_ok(),
            AllOptData::ExtendedError(x) => {
                let text = utf8(a);
                if text.is_empty() && x.text_slice().is_none() {
                    o.extended_error::<Vec<u8>>(x.code(), None).is_ok()
                } else {
                    o.extended_error(x.code(), Some(&text)).is_ok()
                }
            }
            _ => false,
        }
    }

    /// Random constructor arguments for one option (I->S recorder): the
    /// whole argument space, not only what the constructors accept.
    pub fn random_args(g: &mut super::gen::Gen) -> Value {
        let kind = *g.rng.pick(&KINDS);
        let kind = if g.rng.chance(1, 3) { "ECS" } else { kind };
        let any_len = |g: &mut super::gen::Gen, small: u64, big: u64| -> usize {
            match g.rng.below(8) {
                0 => 0,
                1 => g.rng.below(big + 1) as usize,
                _ => g.rng.below(small + 1) as usize,
            }
        };
        match kind {
            "NSID" => {
                let n = any_len(g, 24, 2000);
                json!({"o": "NSID", "data": g.octets(n)})
            }
            "PADDING" => {
                let n = any_len(g, 40, 1500);
                let d = if g.rng.chance(3, 4) { vec![0u8; n] } else { g.octets(n) };
                json!({"o": "PADDING", "data": d})
            }
            "DAU" | "DHU" | "N3U" => {
                let n = any_len(g, 9, 300);
                json!({"o": kind, "algs": g.rng.bytes(n)})
            }
            "ECS" => {
                let fam = 1 + g.rng.below(2);
                let bits = if fam == 1 { 32 } else { 128 };
                let len = |g: &mut super::gen::Gen| match g.rng.below(6) {
                    0 => 0,
                    1 => bits,
                    2 => g.rng.below(256),
                    3 => 8 * g.rng.below(bits / 8 + 1),
                    _ => g.rng.below(bits + 1),
                };
                let (src, scope) = (len(g), len(g));
                let n = (bits / 8) as usize;
                let addr = match g.rng.below(4) {
                    0 => vec![255u8; n],
                    1 => {
                        let mut a = vec![0u8; n];
                        let j = g.rng.below(bits) as usize;
                        a[j / 8] = 0x80 >> (j % 8);
                        a
                    }
                    _ => g.rng.bytes(n),
                };
                json!({"o": "ECS", "fam": fam, "src": src, "scope": scope, "addr": addr})
            }
            "EXPIRE" => {
                let some = g.rng.chance(3, 4);
                let secs = if some { g.rng.bytes(4) } else { vec![0; 4] };
                json!({"o": "EXPIRE", "some": some, "secs": secs})
            }
            "COOKIE" => {
                let some = g.rng.chance(3, 4);
                let n = if some { g.rng.below(41) as usize } else { 0 };
                json!({"o": "COOKIE", "client": g.rng.bytes(8), "some": some, "server": g.rng.bytes(n)})
            }
            "KEEPALIVE" => {
                let some = g.rng.chance(4, 5);
                let t = if !some {
                    0
                } else {
                    match g.rng.below(5) {
                        0 => 65535,
                        1 => 65536 + g.rng.below(100000),
                        _ => g.rng.below(65536),
                    }
                };
                let sub = if some && g.rng.chance(1, 2) { g.rng.below(100) } else { 0 };
                json!({"o": "KEEPALIVE", "some": some, "t": t, "sub": sub})
            }
            "CHAIN" => {
                let w = g.name();
                let mut labels: Vec<Vec<u8>> = vec![];
                let mut p = 0;
                while w[p] != 0 {
                    labels.push(w[p + 1..p + 1 + w[p] as usize].to_vec());
                    p += 1 + w[p] as usize;
                }
                json!({"o": "CHAIN", "name": labels})
            }
            "KEYTAG" => {
                let n = any_len(g, 11, 400);
                json!({"o": "KEYTAG", "data": g.rng.bytes(n)})
            }
            _ => {
                let mut text = String::new();
                let n = any_len(g, 30, 400);
                while text.len() < n {
                    text.push(match g.rng.below(6) {
                        0 => char::from_u32(0xA0 + g.rng.below(0x700) as u32).unwrap_or('x'),
                        1 => char::from_u32(0x4E00 + g.rng.below(0x1000) as u32).unwrap_or('y'),
                        2 => char::from_u32(0x1F300 + g.rng.below(0x100) as u32).unwrap_or('z'),
                        _ => (b' ' + g.rng.below(95) as u8) as char,
                    });
                }
                let code = match g.rng.below(3) {
                    0 => g.rng.below(30),
                    1 => 49152 + g.rng.below(16384),
                    _ => g.rng.below(65536),
                };
                json!({"o": "EDE", "code": code, "text": text.as_bytes()})
            }
        }
    }

    /// One OPT record assembled from constructor arguments, through every
    /// route, and read back.
    pub fn observe_optbuild(pushes: &[Value]) -> Value {
        let mut issues: Vec<String> = vec![];
        let mut steps: Vec<Value> = vec![];
        let mut built: Vec<(Value, V)> = vec![];
        for a in pushes {
            let cons = constructions(a);
            let mut first: Option<(Value, Vec<u8>, u16, V)> = None;
            let mut disagree = false;
            let accepted = cons.iter().filter(|(_, r)| r.is_some()).count();
            if accepted != 0 && accepted != cons.len() {
                disagree = true;
            }
            for (what, r) in cons {
                if let Some(v) = r {
                    let vw = view(&v, &mut issues);
                    let (d, l) = with_concrete!(&v, x => data_of(x));
                    // the same through the enum
                    if data_of(&v) != (d.clone(), l) {
                        issues.push(format!("{what}: AllOptData composes differently from the option type"));
                    }
                    let code = with_concrete!(&v, x => OptData::code(x));
                    if code != v.code() {
                        issues.push(format!("{what}: AllOptData reports another option code"));
                    }
                    match &first {
                        None => first = Some((vw, d, l, v)),
                        Some((vw0, d0, l0, _)) => {
                            if *vw0 != vw || *d0 != d || *l0 != l {
                                issues.push(format!("{what}: constructs another value than the first constructor"));
                            }
                        }
                    }
                }
            }
            match first {
                None => steps.push(json!({"refused": true})),
                Some((vw, d, l, v)) => {
                    let mut st = json!({"built": vw, "data": d, "len": l});
                    if disagree {
                        st["disagree"] = json!(true);
                    }
                    steps.push(st);
                    built.push((a.clone(), v));
                }
            }
        }

        // the record, through every route
        let mut rdatas: Vec<(&str, Vec<u8>)> = vec![];
        {
            let mut opt = Opt::<Vec<u8>>::empty();
            let mut ok = true;
            for (_, v) in &built {
                ok &= with_concrete!(v, x => opt.push(x)).is_ok();
            }
            if !ok {
                issues.push("Opt::push refused an option".into());
            }
            rdatas.push(("Opt::push", compose_plain(&opt)));
            let mut rec = OptRecord::<Vec<u8>>::default();
            for (_, v) in &built {
                if rec.push(v).is_err() {
                    issues.push("OptRecord::push refused an option".into());
                }
            }
            rdatas.push(("OptRecord::push(AllOptData)", compose_plain(rec.opt())));
        }
        let mut msgs: Vec<(&str, Vec<u8>)> = vec![];
        for route in ["OptBuilder typed", "OptBuilder::push", "OptBuilder::push(AllOptData)"] {
            let mut refused = false;
            let m = via_builder(|o| {
                for (a, v) in &built {
                    let ok = match route {
                        "OptBuilder typed" => typed_push(o, a, v),
                        "OptBuilder::push" => with_concrete!(v, x => o.push(x)).is_ok(),
                        _ => o.push(v).is_ok(),
                    };
                    refused |= !ok;
                }
            });
            if refused {
                issues.push(format!("{route}: an option was refused"));
            }
            match m {
                Ok(m) => msgs.push((route, m)),
                Err(e) => issues.push(format!("{route}: no OPT record ({e})")),
            }
        }
        for (route, m) in &msgs {
            match Message::from_slice(m).ok().and_then(|m| m.opt().map(|r| compose_plain(r.opt()))) {
                Some(rd) => rdatas.push((route, rd)),
                None => issues.push(format!("{route}: message has no readable OPT record")),
            }
        }
        let rdata = rdatas.first().map(|x| x.1.clone()).unwrap_or_default();
        for (route, rd) in &rdatas {
            if *rd != rdata {
                issues.push(format!("{route}: OPT RDATA differs from Opt::push"));
            }
        }

        // reading back (from the message the typed builder methods wrote)
        let mut iter: Vec<Value> = vec![];
        let mut firsts: Vec<Value> = vec![];
        let mut rd = json!(null);
        if let Some((_, m)) = msgs.first() {
            let msg = Message::from_slice(m).unwrap();
            if let Some(rec) = msg.opt() {
                let opt = rec.opt();
                let mut unreadable = false;
                let mut parsed = vec![];
                for o in opt.iter::<AllOptData<_, _>>() {
                    match o {
                        Ok(o) => {
                            iter.push(view(&o, &mut issues));
                            parsed.push(Some(o));
                        }
                        Err(_) => {
                            iter.push(json!({"o": "unreadable"}));
                            parsed.push(None);
                            unreadable = true;
                            break;
                        }
                    }
                }
                if unreadable {
                    // what the walk and the getters do after an option that
                    // cannot be read is not judged
                    issues.push("unreadable".into());
                }
                if parsed.len() == built.len() {
                    for (i, p) in parsed.iter().enumerate() {
                        if let Some(p) = p {
                            if same_value(&built[i].1, p) == Some(false) {
                                issues.push(format!("option {}: value read back compares unequal (==)", i + 1));
                            }
                        }
                    }
                }
                // typed iteration and the first-of-a-kind getters
                let judged = !unreadable;
                macro_rules! kind {
                    ($name:expr, $variant:ident, $ty:ty, $getter:expr) => {if judged {
                        let all: Vec<Value> =
                            iter.iter().filter(|w| w["o"] == $name).cloned().collect();
                        let mut typed: Vec<Value> = vec![];
                        for x in opt.iter::<$ty>() {
                            match x {
                                Ok(x) => typed.push(view::<&[u8], Name<&[u8]>>(&AllOptData::$variant(x), &mut issues)),
                                Err(_) => typed.push(json!({"o": "unreadable"})),
                            }
                        }
                        let readable: Vec<Value> = typed.iter().filter(|w| w["o"] != "unreadable").cloned().collect();
                        if readable != all {
                            issues.push(format!("{}: typed iteration differs from the AllOptData walk", $name));
                        }
                        let g: Option<$ty> = $getter;
                        let f: Option<$ty> = opt.first::<$ty>();
                        let gv = g.map(|x| view::<&[u8], Name<&[u8]>>(&AllOptData::$variant(x), &mut issues));
                        let fv = f.map(|x| view::<&[u8], Name<&[u8]>>(&AllOptData::$variant(x), &mut issues));
                        if gv != fv {
                            issues.push(format!("{}: getter differs from first()", $name));
                        }
                        if let Some(w) = gv {
                            firsts.push(w);
                        }
                    }};
                }
                kind!("NSID", Nsid, Nsid<&[u8]>, opt.nsid());
                kind!("DAU", Dau, Dau<&[u8]>, opt.dau());
                kind!("DHU", Dhu, Dhu<&[u8]>, opt.dhu());
                kind!("N3U", N3u, N3u<&[u8]>, opt.n3u());
                kind!("ECS", ClientSubnet, ClientSubnet, opt.client_subnet());
                kind!("EXPIRE", Expire, Expire, opt.expire());
                kind!("COOKIE", Cookie, Cookie, opt.cookie());
                kind!("KEEPALIVE", TcpKeepalive, TcpKeepalive, opt.tcp_keepalive());
                kind!("PADDING", Padding, Padding<&[u8]>, opt.first::<Padding<&[u8]>>());
                kind!("CHAIN", Chain, Chain<Name<&[u8]>>, opt.chain());
                kind!("KEYTAG", KeyTag, KeyTag<&[u8]>, opt.key_tag());
                kind!("EDE", ExtendedError, ExtendedError<&[u8]>, opt.extended_error());
            } else {
                issues.push("message has no OPT record".into());
            }
            // value -> compose -> parse as a whole record, like every other type
            let one = one_record_msg(&[1, b'x', 2, b'Y', b'z', 0], 41, &rdata);
            rd = observe_rdata(&one, false, true);
            if let Some(arr) = rd.get_mut("issues").and_then(|x| x.as_array_mut()) {
                // the option walk names the option code; the deviation is one class
                let mut v: Vec<Value> = arr.iter().map(|s| {
                    if s.as_str().map(|t| t.ends_with("well-formed option data rejected")).unwrap_or(false) {
                        json!("unreadable")
                    } else {
                        s.clone()
                    }
                }).collect();
                v.dedup();
                *arr = v;
            }
        }
        issues.sort();
        issues.dedup();
        json!({"steps": steps, "rdata": rdata, "iter": iter, "first": firsts, "issues": issues, "rd": rd})
    }
}

//============================================================================
// C05: record data built through the record types' own constructors
//============================================================================

pub mod ctor {
    use super::*;
    use domain::base::charstr::CharStr;
    use domain::base::iana::{
        DigestAlgorithm, IpseckeyAlgorithm, Nsec3HashAlgorithm, OptionCode, SecurityAlgorithm,
        SshfpAlgorithm, SshfpType, SvcParamKey, TlsaCertificateUsage, TlsaMatchingType,
        TlsaSelector, TsigRcode, ZonemdAlgorithm, ZonemdScheme,
    };
    use domain::base::name::Name;
    use domain::base::net::{Ipv4Addr, Ipv6Addr};
    use domain::base::opt::{Opt, UnknownOptData};
    use domain::base::Serial;
    use domain::rdata::caa::{CaaFlags, CaaTag};
    use domain::rdata::dnssec::{RtypeBitmap, Timestamp};
    use domain::rdata::ipseckey::IpseckeyGateway;
    use domain::rdata::nsec3::{Nsec3Salt, OwnerHash};
    use domain::rdata::rfc1035::TxtBuilder;
    use domain::rdata::svcb::{SvcParamsBuilder, UnknownSvcParam};
    use domain::rdata::tsig::Time48;
    use domain::rdata::*;
    use verif_harness::common::bytes_of;

    pub type Built = AllRecordData<Vec<u8>, Name<Vec<u8>>>;
    type R<T> = Result<T, String>;

    fn name(v: &Value) -> R<Name<Vec<u8>>> {
        let mut w = vec![];
        for l in v.as_array().ok_or("name")? {
            let l = bytes_of(l);
            w.push(l.len() as u8);
            w.extend_from_slice(&l);
        }
        w.push(0);
        Name::from_octets(w).map_err(|e| e.to_string())
    }
    fn u8f(v: &Value) -> u8 {
        bytes_of(v)[0]
    }
    fn u16f(v: &Value) -> u16 {
        let b = bytes_of(v);
        u16::from_be_bytes([b[0], b[1]])
    }
    fn u32f(v: &Value) -> u32 {
        let b = bytes_of(v);
        u32::from_be_bytes([b[0], b[1], b[2], b[3]])
    }
    fn u48f(v: &Value) -> u64 {
        bytes_of(v).iter().fold(0u64, |a, b| a * 256 + u64::from(*b))
    }
    fn cs(v: &Value) -> R<CharStr<Vec<u8>>> {
        CharStr::from_octets(bytes_of(v)).map_err(|e| e.to_string())
    }
    fn bitmap(v: &Value) -> R<RtypeBitmap<Vec<u8>>> {
        let mut b = RtypeBitmap::<Vec<u8>>::builder();
        // sets arrive in TLC's order; the builder takes any order
        for t in v.as_array().ok_or("bitmap")?.iter().rev() {
            b.add(Rtype::from_int(t.as_u64().unwrap() as u16)).map_err(|e| e.to_string())?;
        }
        Ok(b.finalize())
    }
    fn v4(v: &Value) -> Ipv4Addr {
        let b = bytes_of(v);
        Ipv4Addr::from([b[0], b[1], b[2], b[3]])
    }
    fn v6(v: &Value) -> Ipv6Addr {
        let mut a = [0u8; 16];
        a.copy_from_slice(&bytes_of(v));
        Ipv6Addr::from(a)
    }
    fn es<E: std::fmt::Display>(e: E) -> String {
        e.to_string()
    }

    /// The value with these fields, through the public constructor of its
    /// type (`Err` = the constructor refused).
    pub fn construct(rtype: u16, f: &[Value]) -> R<Built> {
        let sec = |v: &Value| SecurityAlgorithm::from_int(u8f(v));
        Ok(match rtype {
            1 => A::new(v4(&f[0])).into(),
            2 => Ns::new(name(&f[0])?).into(),
            3 => Md::new(name(&f[0])?).into(),
            4 => Mf::new(name(&f[0])?).into(),
            5 => Cname::new(name(&f[0])?).into(),
            6 => Soa::new(name(&f[0])?, name(&f[1])?, Serial::from(u32f(&f[2])),
                          Ttl::from_secs(u32f(&f[3])), Ttl::from_secs(u32f(&f[4])),
                          Ttl::from_secs(u32f(&f[5])), Ttl::from_secs(u32f(&f[6]))).into(),
            7 => Mb::new(name(&f[0])?).into(),
            8 => Mg::new(name(&f[0])?).into(),
            9 => Mr::new(name(&f[0])?).into(),
            10 => Null::from_octets(bytes_of(&f[0])).map_err(es)?.into(),
            12 => Ptr::new(name(&f[0])?).into(),
            13 => Hinfo::new(cs(&f[0])?, cs(&f[1])?).into(),
            14 => Minfo::new(name(&f[0])?, name(&f[1])?).into(),
            15 => Mx::new(u16f(&f[0]), name(&f[1])?).into(),
            16 => {
                let mut b = TxtBuilder::<Vec<u8>>::new();
                for x in f[0].as_array().ok_or("txt")? {
                    b.append_charstr(&cs(x)?).map_err(es)?;
                }
                b.finish().map_err(es)?.into()
            }
            17 => Rp::new(name(&f[0])?, name(&f[1])?).into(),
            28 => Aaaa::new(v6(&f[0])).into(),
            33 => Srv::new(u16f(&f[0]), u16f(&f[1]), u16f(&f[2]), name(&f[3])?).into(),
            35 => Naptr::new(u16f(&f[0]), u16f(&f[1]), cs(&f[2])?, cs(&f[3])?, cs(&f[4])?, name(&f[5])?).into(),
            39 => Dname::new(name(&f[0])?).into(),
            41 => {
                let mut opt = Opt::<Vec<u8>>::empty();
                for o in f[0].as_array().ok_or("opt")? {
                    let u = UnknownOptData::new(OptionCode::from_int(o["k"].as_u64().unwrap() as u16), bytes_of(&o["v"]))
                        .map_err(es)?;
                    opt.push(&u).map_err(es)?;
                }
                opt.into()
            }
            43 => Ds::new(u16f(&f[0]), sec(&f[1]), DigestAlgorithm::from_int(u8f(&f[2])), bytes_of(&f[3])).map_err(es)?.into(),
            59 => Cds::new(u16f(&f[0]), sec(&f[1]), DigestAlgorithm::from_int(u8f(&f[2])), bytes_of(&f[3])).map_err(es)?.into(),
            44 => Sshfp::new(SshfpAlgorithm::from_int(u8f(&f[0])), SshfpType::from_int(u8f(&f[1])), bytes_of(&f[2])).into(),
            45 => {
                let g = &f[1];
                let gw = match g["gt"].as_u64() {
                    Some(0) => IpseckeyGateway::None,
                    Some(1) => IpseckeyGateway::Ipv4(A::new(v4(&g["gw"]))),
                    Some(2) => IpseckeyGateway::Ipv6(Aaaa::new(v6(&g["gw"]))),
                    _ => IpseckeyGateway::Name(name(&g["gw"])?),
                };
                Ipseckey::new(u8f(&f[0]), IpseckeyAlgorithm::from_int(g["alg"].as_u64().unwrap() as u8), gw, bytes_of(&f[2])).into()
            }
            46 => Rrsig::new(Rtype::from_int(u16f(&f[0])), sec(&f[1]), u8f(&f[2]), Ttl::from_secs(u32f(&f[3])),
                             Timestamp::from(u32f(&f[4])), Timestamp::from(u32f(&f[5])), u16f(&f[6]),
                             name(&f[7])?, bytes_of(&f[8])).map_err(es)?.into(),
            47 => Nsec::new(name(&f[0])?, bitmap(&f[1])?).into(),
            48 => Dnskey::new(u16f(&f[0]), u8f(&f[1]), sec(&f[2]), bytes_of(&f[3])).map_err(es)?.into(),
            60 => Cdnskey::new(u16f(&f[0]), u8f(&f[1]), sec(&f[2]), bytes_of(&f[3])).map_err(es)?.into(),
            50 => Nsec3::new(Nsec3HashAlgorithm::from_int(u8f(&f[0])), u8f(&f[1]), u16f(&f[2]),
                             Nsec3Salt::from_octets(bytes_of(&f[3])).map_err(es)?,
                             OwnerHash::from_octets(bytes_of(&f[4])).map_err(es)?, bitmap(&f[5])?).into(),
            51 => Nsec3param::new(Nsec3HashAlgorithm::from_int(u8f(&f[0])), u8f(&f[1]), u16f(&f[2]),
                                  Nsec3Salt::from_octets(bytes_of(&f[3])).map_err(es)?).into(),
            52 => Tlsa::new(TlsaCertificateUsage::from_int(u8f(&f[0])), TlsaSelector::from_int(u8f(&f[1])),
                            TlsaMatchingType::from_int(u8f(&f[2])), bytes_of(&f[3])).into(),
            61 => Openpgpkey::new(bytes_of(&f[0])).into(),
            63 => Zonemd::new(Serial::from(u32f(&f[0])), ZonemdScheme::from_int(u8f(&f[1])),
                              ZonemdAlgorithm::from_int(u8f(&f[2])), bytes_of(&f[3])).into(),
            64 | 65 => {
                let mut b = SvcParamsBuilder::<Vec<u8>>::empty();
                // pushed in descending key order: the builder sorts
                for p in f[2].as_array().ok_or("svcparams")?.iter().rev() {
                    let u = UnknownSvcParam::new(SvcParamKey::from_int(p["k"].as_u64().unwrap() as u16), bytes_of(&p["v"]))
                        .map_err(es)?;
                    b.push(&u).map_err(es)?;
                }
                let params = b.freeze::<Vec<u8>>().map_err(es)?;
                if rtype == 64 {
                    Svcb::new(u16f(&f[0]), name(&f[1])?, params).map_err(es)?.into()
                } else {
                    Https::new(u16f(&f[0]), name(&f[1])?, params).map_err(es)?.into()
                }
            }
            250 => Tsig::new(name(&f[0])?, Time48::from_u64(u48f(&f[1])), u16f(&f[2]), bytes_of(&f[3]),
                             u16f(&f[4]), TsigRcode::from_int(u16f(&f[5])), bytes_of(&f[6])).map_err(es)?.into(),
            257 => Caa::new(CaaFlags::new(u8f(&f[0])), CaaTag::from_octets(bytes_of(&f[1])).map_err(es)?, bytes_of(&f[2])).into(),
            other => UnknownRecordData::from_octets(Rtype::from_int(other), bytes_of(&f[0])).map_err(es)?.into(),
        })
    }

    /// value (constructed) -> compose -> parse
    pub fn observe_ctor(rtype: u16, fields: &[Value], strict_opts: bool) -> Value {
        let built = match construct(rtype, fields) {
            Ok(b) => b,
            Err(_) => return json!({"ctor": "refused"}),
        };
        let mut issues: Vec<String> = vec![];
        let wire = compose_plain(&built);
        if built.rtype().to_int() != rtype {
            issues.push("constructed value reports another type".into());
        }
        if built.rdlen(false).map(|n| n as usize).unwrap_or(wire.len()) != wire.len() {
            issues.push("constructed value: rdlen differs from octets written".into());
        }
        let msg = one_record_msg(&[1, b'x', 2, b'Y', b'z', 0], rtype, &wire);
        let rd = observe_rdata(&msg, false, strict_opts);
        if let Ok(m) = Message::from_slice(&msg) {
            match parse_all(m) {
                Ok(rec) => {
                    if built != *rec.data() {
                        issues.push("constructed value differs from the value parsed from its own octets (==)".into());
                    }
                    if compose_canon(&built) != compose_canon(rec.data()) {
                        issues.push("constructed value: canonical form differs from the parsed value's".into());
                    }
                }
                Err(_) => issues.push("octets of the constructed value do not parse".into()),
            }
        }
        json!({"ctor": "ok", "issues": issues, "rd": rd})
    }

    /// A constructor at the 65535-octet RDATA limit: the last field of the
    /// base value is replaced by `n` octets `b`.  A refusal by the
    /// constructor, by compose_len_rdata, or a panic of either is "refused".
    pub fn observe_ctor_long(rtype: u16, fields: &[Value], n: usize, b: u8, checked: bool) -> Value {
        let mut f = fields.to_vec();
        let last = f.len() - 1;
        f[last] = json!(vec![b; n]);
        let refused = json!({"outcome": "refused"});
        // where the constructor does not document a length check, refusing
        // to write the over-long value is as good as refusing to build it
        let unwritable = if checked { json!({"outcome": "built, then not writable"}) } else { refused.clone() };
        let built = match std::panic::catch_unwind(std::panic::AssertUnwindSafe(|| construct(rtype, &f))) {
            Ok(Ok(x)) => x,
            Ok(Err(_)) => return refused,
            Err(_) => return json!({"outcome": "constructor panicked"}),
        };
        let r = std::panic::catch_unwind(std::panic::AssertUnwindSafe(|| {
            let mut lenbuf = Vec::new();
            built.compose_len_rdata(&mut lenbuf).ok().map(|_| lenbuf)
        }));
        let lenbuf = match r {
            Ok(Some(x)) => x,
            _ => return unwritable,
        };
        let wire = compose_plain(&built);
        let advertised = u16::from_be_bytes([lenbuf[0], lenbuf[1]]) as usize;
        let msg = one_record_msg(&[1, b'x', 2, b'Y', b'z', 0], rtype, &wire);
        let reparse = Message::from_slice(&msg).ok().and_then(|m| parse_all(m).ok())
            .map(|r| built == *r.data() && compose_plain(r.data()) == wire && lenbuf[2..] == wire[..])
            .unwrap_or(false);
        json!({"outcome": "ok", "len": wire.len(), "advertised": advertised, "reparse": reparse})
    }
}

//============================================================================
// random record data by layout (I->S recorders)
//============================================================================

pub mod gen {
    use super::*;
    use domain::rdata::dnssec::RtypeBitmap;
    use verif_harness::common::Rng;

    pub struct Gen {
        pub rng: Rng,
        pub big: bool,
        pub last_alg: Option<u8>,
        pub soft_opt: bool,
    }

    impl Gen {
        pub fn octets(&mut self, n: usize) -> Vec<u8> {
            // letters of both cases are frequent so that wrong case folding shows
            (0..n)
                .map(|_| match self.rng.below(4) {
                    0 => b'A' + self.rng.below(26) as u8,
                    1 => b'a' + self.rng.below(26) as u8,
                    _ => self.rng.next() as u8,
                })
                .collect()
        }
        pub fn small_len(&mut self, max: usize) -> usize {
            match self.rng.below(10) {
                0 => 0,
                1 => max,
                2 => 1,
                _ => self.rng.below(max.min(40) as u64 + 1) as usize,
            }
        }
        fn var_len(&mut self, min: usize, max: usize) -> usize {
            let n = if self.big {
                self.big = false;
                match self.rng.below(3) {
                    0 => max,
                    _ => 2000 + self.rng.below((max - 2000) as u64) as usize,
                }
            } else {
                self.small_len(300.min(max))
            };
            n.max(min)
        }
        pub fn name(&mut self) -> Vec<u8> {
            let mut out = vec![];
            let nl = match self.rng.below(8) {
                0 => 0,
                1 => 12,
                _ => 1 + self.rng.below(4),
            };
            for _ in 0..nl {
                let l = match self.rng.below(12) {
                    0 => 63,
                    _ => 1 + self.rng.below(12) as usize,
                };
                if out.len() + 1 + l + 1 > 255 {
                    break;
                }
                out.push(l as u8);
                let o = self.octets(l);
                out.extend_from_slice(&o);
            }
            out.push(0);
            out
        }
        fn tlv(&mut self, k: u16, v: &[u8], out: &mut Vec<u8>) {
            out.extend_from_slice(&k.to_be_bytes());
            out.extend_from_slice(&(v.len() as u16).to_be_bytes());
            out.extend_from_slice(v);
        }
        fn option(&mut self, opt: &Value, out: &mut Vec<u8>) {
            // well-formed data for the options that have a row in OptLayout
            let names: Vec<&String> = opt["optcode"].as_object().unwrap().keys().collect();
            if self.rng.chance(1, 5) {
                let code = 20 + self.rng.below(60000) as u16;
                let n = self.small_len(64);
                let v = self.octets(n);
                return self.tlv(code, &v, out);
            }
            let o = (*self.rng.pick(&names)).clone();
            let code = opt["optcode"][&o].as_u64().unwrap() as u16;
            let v: Vec<u8> = match o.as_str() {
                "COOKIE" => {
                    let n = if self.rng.chance(1, 2) { 8 } else { 16 + self.rng.below(25) as usize };
                    self.octets(n)
                }
                "KEEPALIVE" => {
                    if self.rng.chance(1, 2) { vec![] } else { self.octets(2) }
                }
                "PADDING" => vec![0; self.small_len(468)],
                // (an even number of algorithms: lists of odd length are
                // covered, with the deviation they expose, by the optbuild events)
                "DAU" | "DHU" | "N3U" | "KEYTAG" => {
                    let n = 2 * self.small_len(12);
                    self.octets(n)
                }
                "EXPIRE" => {
                    if self.rng.chance(1, 3) { vec![] } else { self.octets(4) }
                }
                "CHAIN" => self.name(),
                "EDE" => {
                    let mut v = self.octets(2);
                    let n = self.small_len(40);
                    if self.rng.chance(1, 3) {
                        // not UTF-8: an RFC content rule only, so a parser may
                        // refuse it; if it is carried it must survive unchanged
                        let mut t = self.octets(n);
                        t.extend_from_slice(*self.rng.pick(&[&b"caf\xc3"[..], &b"\xff"[..], &b"\xe9e\x00"[..]]));
                        v.extend(t);
                        self.soft_opt = true;
                    } else {
                        v.extend((0..n).map(|_| b' ' + self.rng.below(90) as u8));
                    }
                    v
                }
                "ECS" => {
                    if self.rng.chance(1, 2) {
                        let p = self.rng.below(33) as u8;
                        let mut v = vec![0, 1, p, 0];
                        let n = (p as usize + 7) / 8;
                        let mut a = self.octets(n);
                        if p % 8 != 0 {
                            a[n - 1] &= 0xffu8 << (8 - p % 8);
                        }
                        v.extend(a);
                        v
                    } else {
                        let p = self.rng.below(129) as u8;
                        let mut v = vec![0, 2, p, 0];
                        let n = (p as usize + 7) / 8;
                        let mut a = self.octets(n);
                        if p % 8 != 0 {
                            a[n - 1] &= 0xffu8 << (8 - p % 8);
                        }
                        v.extend(a);
                        v
                    }
                }
                _ => {
                    let n = self.small_len(64);
                    self.octets(n)
                }
            };
            self.tlv(code, &v, out)
        }
        pub fn field(&mut self, f: &Value, table: &Value, out: &mut Vec<u8>) {
            let kind = f["kind"].as_str().unwrap();
            let min = f["min"].as_u64().unwrap_or(0) as usize;
            let fixed = |k: &str| match k {
                "U8" => Some(1),
                "U16" => Some(2),
                "U32" | "A4" => Some(4),
                "U48" => Some(6),
                "A8" => Some(8),
                "A16" => Some(16),
                _ => None,
            };
            if let Some(w) = fixed(kind) {
                let v = match self.rng.below(6) {
                    0 => vec![0; w],
                    1 => vec![255; w],
                    _ => self.rng.bytes(w),
                };
                out.extend(v);
                return;
            }
            match kind {
                "Name" => out.extend(self.name()),
                "CharStr" | "LP8" => {
                    let n = self.small_len(255);
                    out.push(n as u8);
                    out.extend(self.octets(n));
                }
                "CaaTag" => {
                    let n = 1 + self.small_len(254).min(254);
                    out.push(n as u8);
                    for _ in 0..n {
                        let c = match self.rng.below(3) {
                            0 => b'0' + self.rng.below(10) as u8,
                            1 => b'a' + self.rng.below(26) as u8,
                            _ => b'A' + self.rng.below(26) as u8,
                        };
                        out.push(c);
                    }
                }
                "LP16" => {
                    let n = self.var_len(0, 30000);
                    out.extend_from_slice(&(n as u16).to_be_bytes());
                    out.extend(self.octets(n));
                }
                "Rest" => {
                    let mut n = self.var_len(min, 60000);
                    if let Some(alg) = self.last_alg.take() {
                        // RFC 4025 2.4: algorithm 0 <=> no key
                        n = if alg == 0 { 0 } else { n.max(1) };
                    }
                    out.extend(self.octets(n));
                }
                "CharStrSeq" => {
                    let count = if self.big {
                        self.big = false;
                        100 + self.rng.below(150) as usize
                    } else {
                        (self.rng.below(5) as usize).max(min)
                    };
                    for _ in 0..count {
                        let n = if count > 50 { 200 + self.rng.below(56) as usize } else { self.small_len(255) };
                        out.push(n as u8);
                        out.extend(self.octets(n));
                    }
                }
                "TypeBitmap" => {
                    // through the library's own builder
                    let mut b = RtypeBitmap::<Vec<u8>>::builder();
                    let n = if self.big { self.big = false; 300 } else { self.rng.below(12) };
                    for _ in 0..n {
                        let t = match self.rng.below(4) {
                            0 => self.rng.below(65536) as u16,
                            1 => 256 * self.rng.below(4) as u16 + self.rng.below(256) as u16,
                            _ => self.rng.below(70) as u16,
                        };
                        b.add(Rtype::from_int(t)).unwrap();
                    }
                    out.extend_from_slice(b.finalize().as_slice());
                }
                "SvcParams" => {
                    let mut k: u32 = 0;
                    let n = self.rng.below(5);
                    for i in 0..n {
                        // port (3) has a fixed two-octet value; other keys chosen
                        // outside the registered range carry opaque values
                        if i == 0 && self.rng.chance(1, 2) {
                            let v = self.rng.bytes(2);
                            self.tlv(3, &v, out);
                            k = 3;
                            continue;
                        }
                        k = (k + 1).max(20) + self.rng.below(9000) as u32;
                        if k > 65535 {
                            break;
                        }
                        let len = self.small_len(300);
                        let v = self.octets(len);
                        self.tlv(k as u16, &v, out);
                    }
                }
                "OptSeq" => {
                    let n = self.rng.below(5);
                    for _ in 0..n {
                        self.option(table, out);
                    }
                }
                "IpsecGw" => {
                    let gt = self.rng.below(4) as u8;
                    let alg = self.rng.below(4) as u8;
                    out.push(gt);
                    out.push(alg);
                    match gt {
                        0 => {}
                        1 => out.extend(self.rng.bytes(4)),
                        2 => out.extend(self.rng.bytes(16)),
                        _ => out.extend(self.name()),
                    }
                    self.last_alg = Some(alg);
                }
                other => panic!("field kind {other} not known to the recorder"),
            }
        }
    }


    /// One random (type code, layout fields, RDATA octets) from the table.
    pub fn random_rdata(g: &mut Gen, table: &Value, unknown_one_in: u64) -> (u16, bool, Vec<u8>) {
        let layout = table["layout"].as_object().unwrap();
        let types: Vec<&String> = layout.keys().collect();
        g.last_alg = None;
        g.soft_opt = false;
        let (code, fields): (u16, Vec<Value>) = if g.rng.chance(1, unknown_one_in) {
            let c = *g.rng.pick(&[62u16, 99, 251, 65280, 65534]);
            (c, vec![json!({"kind": "Rest", "min": 0})])
        } else {
            let t = (*g.rng.pick(&types)).clone();
            (table["code"][&t].as_u64().unwrap() as u16, layout[&t].as_array().unwrap().clone())
        };
        let mut rd = vec![];
        for f in &fields {
            g.field(f, table, &mut rd);
        }
        rd.truncate(65535);
        let may = fields.iter().any(|f| f["compress"].as_bool().unwrap_or(false));
        (code, may, rd)
    }
}
