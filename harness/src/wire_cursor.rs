//! Executes a call-order behaviour of spec/MsgReader.tla on the real
//! iterators: a cursor is a `QuestionSection` or a `RecordSection` (both
//! `Copy`), fork/restore copy it.
use crate::wire::*;
use domain::base::message::{QuestionSection, RecordSection};
use domain::base::Message;
use serde_json::{json, Value};
use verif_harness::common::*;

#[derive(Clone, Copy)]
enum Cur<'a> {
    Q(QuestionSection<'a, &'a [u8]>, i32),
    R(RecordSection<'a, &'a [u8]>, i32),
    Dead,
}

fn pos_of(c: &Cur) -> i64 {
    match c {
        // -1 once the iterator has reported an error
        Cur::Q(q, st) => if *st < 0 { -1 } else { q.pos() as i64 },
        Cur::R(r, st) => if *st < 0 { -1 } else { r.pos() as i64 },
        Cur::Dead => -1,
    }
}

fn q_item_json(q: &domain::base::Question<domain::base::ParsedName<&[u8]>>) -> Value {
    json!([use_name(q.qname()), q.qtype().to_int(), q.qclass().to_int()])
}

pub fn run_ops(input: &Value) -> Value {
    let m = bytes_of(&input["m"]);
    let slice: &[u8] = &m;
    let msg = match Message::from_octets(slice) {
        Ok(m) => m,
        Err(_) => return json!({"res": "short"}),
    };
    let mut cur = Cur::Q(msg.question(), 0);
    let mut saved: Option<Cur> = None;
    let mut res = vec![];
    for op in input["ops"].as_array().cloned().unwrap_or_default() {
        let op = op.as_str().unwrap_or("").to_string();
        let (k, v): (String, Value) = match op.as_str() {
            "next" => match &mut cur {
                Cur::Q(q, st) => match q.next() {
                    Some(Ok(x)) => ("q".into(), q_item_json(&x)),
                    Some(Err(_)) => {
                        *st = -1;
                        ("err".into(), json!([]))
                    }
                    None => ("none".into(), json!([])),
                },
                Cur::R(r, st) => match r.next() {
                    Some(Ok(x)) => {
                        let owner = x.owner();
                        let ttl = x.ttl().as_secs();
                        ("r".into(), json!([labels_json(owner.iter()), x.rtype().to_int(), x.class().to_int(),
                                            (ttl >> 16) as u16, (ttl & 0xFFFF) as u16, x.rdlen(), old_rd(&x)]))
                    }
                    Some(Err(_)) => {
                        *st = -1;
                        ("err".into(), json!([]))
                    }
                    None => ("none".into(), json!([])),
                },
                Cur::Dead => ("dead".into(), json!([])),
            },
            "nextsec" => {
                let (nc, k, v) = match cur {
                    Cur::Q(q, _) => match q.next_section() {
                        Ok(r) => (Cur::R(r, 1), "sec", json!([1, msg.header_counts().ancount()])),
                        Err(_) => (Cur::Dead, "err", json!([])),
                    },
                    Cur::R(r, sec) => match r.next_section() {
                        Ok(Some(n)) => {
                            let c = msg.header_counts();
                            let cnt = if sec + 1 == 2 { c.nscount() } else { c.arcount() };
                            (Cur::R(n, sec + 1), "sec", json!([sec + 1, cnt]))
                        }
                        Ok(None) => (Cur::Dead, "nosec", json!([])),
                        Err(_) => (Cur::Dead, "err", json!([])),
                    },
                    Cur::Dead => (Cur::Dead, "dead", json!([])),
                };
                cur = nc;
                (k.into(), v)
            }
            "fork" => {
                saved = Some(cur);
                ("ok".into(), json!([]))
            }
            "restore" => {
                cur = saved.expect("restore without fork");
                ("ok".into(), json!([]))
            }
            "canon" => match std::panic::catch_unwind(std::panic::AssertUnwindSafe(|| msg.canonical_name())) {
                Ok(Some(n)) => ("name".into(), use_name(&n)),
                Ok(None) => ("none".into(), json!([])),
                Err(_) => ("panic".into(), json!([])),
            },
            "opt" => match msg.opt() {
                Some(opt) => {
                    let mut opts = vec![];
                    for x in opt.opt().iter::<domain::base::opt::UnknownOptData<_>>().flatten() {
                        opts.push(json!([x.code().to_int(), x.data().len()]));
                    }
                    let ttl = opt.as_record().ttl().as_secs();
                    ("opt".into(), json!([opt.udp_payload_size(), (ttl >> 16) as u16, (ttl & 0xFFFF) as u16, opts]))
                }
                None => ("none".into(), json!([])),
            },
            "first" => match msg.first_question() {
                Some(q) => ("q".into(), q_item_json(&q)),
                None => ("none".into(), json!([])),
            },
            _ => ("badop".into(), json!([])),
        };
        res.push(json!({"k": k, "v": v, "pos": pos_of(&cur)}));
    }
    json!({"res": res})
}
