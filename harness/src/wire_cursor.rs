//! Executes a call-order behaviour of spec/MsgReader.tla on the real
//! iterators: a cursor is a `QuestionSection`, a `RecordSection` (both
//! `Copy`) or one of the typed iterators a record section is traded in for
//! (`RecordIter` from limit_to / limit_to_in, `AnyRecordIter` from
//! into_records; both `Clone`); fork/restore copy it.  Every behaviour is
//! executed by two routes, which the specification does not tell apart:
//! on a `Message<&[u8]>` with cursors copied implicitly, and on the
//! `&Message<[u8]>` that `AsRef` yields for a `Message<Vec<u8>>`, with every
//! copy made through `Clone::clone`.
use crate::wire::*;
use domain::base::message::{AnyRecordIter, QuestionSection, RecordIter, RecordSection};
use domain::base::name::ParsedName;
use domain::base::rdata::{ParseAnyRecordData, ParseRecordData, UnknownRecordData};
use domain::base::wire::ParseError;
use domain::base::Message;
use domain::rdata::{AllRecordData, Cname, Mx, ZoneRecordData, A};
use octseq::octets::Octets;
use serde_json::{json, Value};
use verif_harness::common::*;

/// a typed iterator of whatever record-data type
trait TCur<'a, O: ?Sized + 'a> {
    fn next(&mut self) -> Option<Value>;
    fn dup(&self) -> Box<dyn TCur<'a, O> + 'a>;
    fn unwrap(self: Box<Self>) -> RecordSection<'a, O>;
    fn next_section(self: Box<Self>) -> Result<Option<RecordSection<'a, O>>, ParseError>;
}

struct Lim<'a, O: ?Sized, D>(RecordIter<'a, O, D>);
struct Any<'a, O: ?Sized, D>(AnyRecordIter<'a, O, D>);

impl<'a, O, D> TCur<'a, O> for Lim<'a, O, D>
where
    O: Octets + ?Sized + 'a,
    D: ParseRecordData<'a, O> + Summ + 'a,
{
    fn next(&mut self) -> Option<Value> {
        self.0.next().map(telem)
    }
    fn dup(&self) -> Box<dyn TCur<'a, O> + 'a> {
        Box::new(Lim(self.0.clone()))
    }
    fn unwrap(self: Box<Self>) -> RecordSection<'a, O> {
        self.0.unwrap()
    }
    fn next_section(self: Box<Self>) -> Result<Option<RecordSection<'a, O>>, ParseError> {
        self.0.next_section()
    }
}

impl<'a, O, D> TCur<'a, O> for Any<'a, O, D>
where
    O: Octets + ?Sized + 'a,
    D: ParseAnyRecordData<'a, O> + Summ + 'a,
{
    fn next(&mut self) -> Option<Value> {
        self.0.next().map(telem)
    }
    fn dup(&self) -> Box<dyn TCur<'a, O> + 'a> {
        Box::new(Any(self.0.clone()))
    }
    fn unwrap(self: Box<Self>) -> RecordSection<'a, O> {
        self.0.unwrap()
    }
    fn next_section(self: Box<Self>) -> Result<Option<RecordSection<'a, O>>, ParseError> {
        self.0.next_section()
    }
}

/// the cursor with what the caller knows about it: the section number and
/// whether it has returned an error
enum Cur<'a, O: ?Sized + 'a> {
    Q(QuestionSection<'a, O>, bool),
    R(RecordSection<'a, O>, i32, bool),
    T(Box<dyn TCur<'a, O> + 'a>, i32, bool),
    Dead,
}

impl<'a, O: Octets + ?Sized + 'a> Cur<'a, O> {
    fn dup(&self, explicit: bool) -> Self {
        match self {
            // Copy and Clone::clone are two routes to the same thing
            Cur::Q(q, e) => Cur::Q(if explicit { Clone::clone(q) } else { *q }, *e),
            Cur::R(r, s, e) => Cur::R(if explicit { Clone::clone(r) } else { *r }, *s, *e),
            Cur::T(t, s, e) => Cur::T(t.dup(), *s, *e),
            Cur::Dead => Cur::Dead,
        }
    }
    fn pos(&self) -> i64 {
        match self {
            Cur::Q(q, e) => if *e { -1 } else { q.pos() as i64 },
            Cur::R(r, _, e) => if *e { -1 } else { r.pos() as i64 },
            // a typed iterator has no pos(); its section has
            Cur::T(t, _, e) => if *e { -1 } else { t.dup().unwrap().pos() as i64 },
            Cur::Dead => -1,
        }
    }
}

fn q_item_json<Oc: AsRef<[u8]>>(q: &domain::base::Question<ParsedName<Oc>>, nmf: &dyn Fn(&ParsedName<Oc>) -> Value) -> Value {
    json!([nmf(q.qname()), q.qtype().to_int(), q.qclass().to_int()])
}

fn limit<'a, O>(sec: RecordSection<'a, O>, view: &str) -> Option<Box<dyn TCur<'a, O> + 'a>>
where
    O: Octets + ?Sized + 'a,
{
    type PNr<'a, O> = ParsedName<<O as Octets>::Range<'a>>;
    type All<'a, O> = AllRecordData<<O as Octets>::Range<'a>, PNr<'a, O>>;
    type Zone<'a, O> = ZoneRecordData<<O as Octets>::Range<'a>, PNr<'a, O>>;
    type Unk<'a, O> = UnknownRecordData<<O as Octets>::Range<'a>>;
    type Optd<'a, O> = domain::base::opt::Opt<<O as Octets>::Range<'a>>;
    Some(match view {
        "lim.A" => Box::new(Lim(sec.limit_to::<A>())),
        "limin.A" => Box::new(Lim(sec.limit_to_in::<A>())),
        "lim.All" => Box::new(Lim(sec.limit_to::<All<'a, O>>())),
        "limin.All" => Box::new(Lim(sec.limit_to_in::<All<'a, O>>())),
        "any.All" => Box::new(Any(sec.into_records::<All<'a, O>>())),
        "lim.Cname" => Box::new(Lim(sec.limit_to::<Cname<PNr<'a, O>>>())),
        "limin.Cname" => Box::new(Lim(sec.limit_to_in::<Cname<PNr<'a, O>>>())),
        "limin.Mx" => Box::new(Lim(sec.limit_to_in::<Mx<PNr<'a, O>>>())),
        "lim.Opt" => Box::new(Lim(sec.limit_to::<Optd<'a, O>>())),
        "lim.Zone" => Box::new(Lim(sec.limit_to::<Zone<'a, O>>())),
        "limin.Unknown" => Box::new(Lim(sec.limit_to_in::<Unk<'a, O>>())),
        _ => return None,
    })
}

/// `nmf` turns a returned name into its labels, `rdf` a raw record into the
/// spec's view of its RDATA (with the whole exercise battery on the
/// `&[u8]` route)
fn run_on<'a, O>(
    msg: &'a Message<O>,
    input: &Value,
    explicit: bool,
    nmf: &dyn Fn(&ParsedName<O::Range<'a>>) -> Value,
    rdf: &dyn Fn(&domain::base::ParsedRecord<'a, O>) -> Value,
) -> Value
where
    O: Octets + ?Sized + 'a,
{
    let counts = msg.header_counts();
    let start = input["start"].as_i64().unwrap_or(0) as i32;
    let opened = match start {
        0 => Ok(Cur::Q(msg.question(), false)),
        1 => msg.answer().map(|s| Cur::R(s, 1, false)),
        2 => msg.authority().map(|s| Cur::R(s, 2, false)),
        _ => msg.additional().map(|s| Cur::R(s, 3, false)),
    };
    let mut cur = match opened {
        Ok(c) => c,
        Err(_) => return json!({"res": "cannot open"}),
    };
    let mut saved: Option<Cur<'a, O>> = None;
    let mut res = vec![];
    for op in input["ops"].as_array().cloned().unwrap_or_default() {
        let op = op.as_str().unwrap_or("").to_string();
        let (k, v): (String, Value) = match op.as_str() {
            "next" => match &mut cur {
                Cur::Q(q, e) => match q.next() {
                    Some(Ok(x)) => ("q".into(), q_item_json(&x, nmf)),
                    Some(Err(_)) => {
                        *e = true;
                        ("err".into(), json!([]))
                    }
                    None => ("none".into(), json!([])),
                },
                Cur::R(r, _, e) => match r.next() {
                    Some(Ok(x)) => {
                        let owner = x.owner();
                        let ttl = x.ttl().as_secs();
                        ("r".into(), json!([labels_json(owner.iter()), x.rtype().to_int(), x.class().to_int(),
                                            (ttl >> 16) as u16, (ttl & 0xFFFF) as u16, x.rdlen(), rdf(&x)]))
                    }
                    Some(Err(_)) => {
                        *e = true;
                        ("err".into(), json!([]))
                    }
                    None => ("none".into(), json!([])),
                },
                Cur::T(t, _, e) => match t.next() {
                    Some(Value::Array(el)) => match el[0].as_str() {
                        Some("r") => ("tr".into(), Value::Array(el[1..].to_vec())),
                        Some("e") => {
                            *e = true;
                            ("err".into(), json!([]))
                        }
                        _ => ("und".into(), json!([])),
                    },
                    Some(_) => ("badelem".into(), json!([])),
                    None => ("none".into(), json!([])),
                },
                Cur::Dead => ("dead".into(), json!([])),
            },
            "nextsec" => {
                let taken = std::mem::replace(&mut cur, Cur::Dead);
                let moved = |r: Result<Option<RecordSection<'a, O>>, ParseError>, sec: i32| match r {
                    Ok(Some(n)) => {
                        let cnt = if sec + 1 == 2 { counts.nscount() } else { counts.arcount() };
                        (Cur::R(n, sec + 1, false), "sec", json!([sec + 1, cnt]))
                    }
                    Ok(None) => (Cur::Dead, "nosec", json!([])),
                    Err(_) => (Cur::Dead, "err", json!([])),
                };
                let (nc, k, v) = match taken {
                    Cur::Q(q, _) => match q.next_section() {
                        Ok(r) => (Cur::R(r, 1, false), "sec", json!([1, counts.ancount()])),
                        Err(_) => (Cur::Dead, "err", json!([])),
                    },
                    Cur::R(r, sec, _) => moved(r.next_section(), sec),
                    Cur::T(t, sec, _) => moved(t.next_section(), sec),
                    Cur::Dead => (Cur::Dead, "dead", json!([])),
                };
                cur = nc;
                (k.into(), v)
            }
            "fork" => {
                saved = Some(cur.dup(explicit));
                ("ok".into(), json!([]))
            }
            "restore" => {
                cur = saved.as_ref().expect("restore without fork").dup(explicit);
                ("ok".into(), json!([]))
            }
            "unwrap" => match std::mem::replace(&mut cur, Cur::Dead) {
                Cur::T(t, sec, e) => {
                    cur = Cur::R(t.unwrap(), sec, e);
                    ("ok".into(), json!([]))
                }
                other => {
                    cur = other;
                    ("badop".into(), json!([]))
                }
            },
            "canon" => match std::panic::catch_unwind(std::panic::AssertUnwindSafe(|| msg.canonical_name())) {
                Ok(Some(n)) => ("name".into(), nmf(&n)),
                Ok(None) => ("none".into(), json!([])),
                Err(_) => ("panic".into(), json!([])),
            },
            "opt" => match msg.opt() {
                Some(opt) => {
                    let mut opts = vec![];
                    for x in opt.opt().iter::<domain::base::opt::UnknownOptData<_>>().flatten() {
                        opts.push(json!([x.code().to_int(), x.data().as_ref().len()]));
                    }
                    let ttl = opt.as_record().ttl().as_secs();
                    ("opt".into(), json!([opt.udp_payload_size(), (ttl >> 16) as u16, (ttl & 0xFFFF) as u16, opts]))
                }
                None => ("none".into(), json!([])),
            },
            "first" => match msg.first_question() {
                Some(q) => ("q".into(), q_item_json(&q, nmf)),
                None => ("none".into(), json!([])),
            },
            view => match std::mem::replace(&mut cur, Cur::Dead) {
                Cur::R(r, sec, e) => match limit(r, view) {
                    Some(t) => {
                        cur = Cur::T(t, sec, e);
                        ("ok".into(), json!([]))
                    }
                    None => {
                        cur = Cur::R(r, sec, e);
                        ("badop".into(), json!([]))
                    }
                },
                other => {
                    cur = other;
                    ("badop".into(), json!([]))
                }
            },
        };
        res.push(json!({"k": k, "v": v, "pos": cur.pos()}));
    }
    json!({"res": res})
}

/// RDATA of a raw record as the spec sees it (the projection's `old_rd`
/// without the exercise battery), for either octets type
fn rd_of<'a, O: Octets + ?Sized>(rec: &domain::base::ParsedRecord<'a, O>) -> Value {
    let t = rec.rtype().to_int();
    let kind = match t {
        2 | 5 | 12 | 15 | 6 => "names",
        41 => "opt",
        1 | 28 => "fixed",
        65280..=65534 => "raw",
        _ => "opaque",
    };
    let fail = json!({"k": kind, "ok": kind == "opaque", "names": [], "opts": []});
    let r = match rec.to_any_record::<AllRecordData<_, ParsedName<_>>>() {
        Ok(r) => r,
        Err(_) => return fail,
    };
    let mut names = vec![];
    let mut opts = vec![];
    match r.data() {
        AllRecordData::Ns(d) => names.push(labels_json(d.nsdname().iter())),
        AllRecordData::Cname(d) => names.push(labels_json(d.cname().iter())),
        AllRecordData::Ptr(d) => names.push(labels_json(d.ptrdname().iter())),
        AllRecordData::Mx(d) => names.push(labels_json(d.exchange().iter())),
        AllRecordData::Soa(d) => {
            names.push(labels_json(d.mname().iter()));
            names.push(labels_json(d.rname().iter()));
        }
        AllRecordData::Opt(o) => {
            for x in o.iter::<domain::base::opt::UnknownOptData<_>>().flatten() {
                opts.push(json!([x.code().to_int(), x.data().as_ref().len()]));
            }
        }
        _ => {}
    }
    json!({"k": kind, "ok": true, "names": names, "opts": opts})
}

pub fn run_ops(input: &Value) -> Value {
    let m = bytes_of(&input["m"]);
    let slice: &[u8] = &m;
    let msg = match Message::from_octets(slice) {
        Ok(m) => m,
        Err(_) => return json!({"res": "short"}),
    };
    let by_ref = run_on(&msg, input, false, &|n| use_name(n), &|r| old_rd(r));
    // the same octets owned by the message, read through AsRef<Message<[u8]>>
    let owned = Message::from_octets(m.clone()).expect("the same octets");
    let unsized_msg: &Message<[u8]> = owned.as_ref();
    let o1: &Vec<u8> = owned.as_ref();
    let o2: &[u8] = owned.as_ref();
    assert!(o1 == &m && o2 == slice, "Message::as_ref yields other octets");
    let by_slice = run_on(unsized_msg, input, true, &|n| use_name(n), &|r| rd_of(r));
    if by_ref != by_slice {
        return json!({"res": "routes differ", "by_ref": by_ref, "by_slice": by_slice});
    }
    by_ref
}
