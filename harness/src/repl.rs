//! Shared helpers of the X08 executors (replay_repl, record_repl): the
//! composition a secondary uses, end to end and without sockets.
//!
//! Primary: the real `TsigMiddlewareSvc` around either a *scripted* transfer
//! service (messages packaged as spec/Repl.tla says, rendered with the real
//! builder) or the real `XfrMiddlewareSvc` over a real zone and the
//! `InMemoryZoneDiff`s its commits produced (behind a small middleware that
//! reserves octets so that transfers are split into several messages).
//! Secondary: the real `net::client::tsig::Connection` over `Up` (an
//! in-memory multi-response transport fed by the driver), its responses
//! interpreted by the real `XfrResponseInterpreter` and applied by the real
//! `ZoneUpdater` with the loop documented in zonetree/update.rs, then one
//! more `get_response()` for the end of the stream.  Between the two the
//! driver plays the adversary of Repl.tla on the real octets.
#![allow(dead_code)]

#[path = "xfr.rs"]
pub mod xfr;

use bytes::Bytes;
use domain::base::iana::{Class, Rcode};
use domain::base::message_builder::AdditionalBuilder;
use domain::base::{Message, MessageBuilder, ParsedName, Rtype, Serial, StreamTarget, Ttl};
use domain::net::client::request::{
    ComposeRequestMulti, Error, GetResponseMulti, RequestMessageMulti, SendRequestMulti,
};
use domain::net::client::tsig as ctsig;
use domain::net::server::message::{NonUdpTransportContext, Request, TransportSpecificContext};
use domain::net::server::middleware::tsig::TsigMiddlewareSvc;
use domain::net::server::middleware::xfr::{
    XfrData, XfrDataProvider, XfrDataProviderError, XfrMiddlewareSvc,
};
use domain::net::server::service::{CallResult, Service, ServiceFeedback, ServiceResult};
use domain::net::server::util::mk_builder_for_target;
use domain::net::xfr::protocol::XfrResponseInterpreter;
use domain::tsig::{Algorithm, Key, KeyName};
use domain::zonetree::types::ZoneUpdate;
use domain::zonetree::update::ZoneUpdater;
use domain::zonetree::{InMemoryZoneDiff, Zone};
use futures_util::stream::{Iter, Once};
use futures_util::StreamExt;
use serde_json::{json, Value};
use std::collections::VecDeque;
use std::future::{ready, Future, Ready};
use std::pin::Pin;
use std::str::FromStr;
use std::sync::{Arc, Mutex};
use std::task::Poll;
use xfr::*;

pub const KEYNAME: &str = "tsig.key.";
pub const OTHERKEY: &str = "other.key.";
pub const OLD_ID: u16 = 0x1235;
pub const MAX_N: i64 = 7;

pub fn key_of(name: &str, secret: u8) -> Key {
    let s: Vec<u8> = (0..32).map(|i| secret.wrapping_mul(31).wrapping_add(i)).collect();
    Key::new(Algorithm::Sha256, &s, KeyName::from_str(name).unwrap(), None, None).unwrap()
}
pub fn server_key() -> Key {
    key_of(KEYNAME, 1)
}
/// the secondary's key configuration of Repl.tla
pub fn client_key(kc: &str) -> Option<Key> {
    match kc {
        "good" => Some(key_of(KEYNAME, 1)),
        "wrongsecret" => Some(key_of(KEYNAME, 2)),
        "unknown" => Some(key_of(OTHERKEY, 1)),
        _ => None,
    }
}

//------------ wire layout (independent walker) -----------------------------------

fn skip_name(w: &[u8], mut p: usize) -> Option<usize> {
    loop {
        let l = *w.get(p)? as usize;
        if l & 0xc0 == 0xc0 {
            return Some(p + 2);
        }
        if l == 0 {
            return Some(p + 1);
        }
        p += 1 + l;
    }
}
fn cnt(w: &[u8], i: usize) -> usize {
    u16::from_be_bytes([w[i], w[i + 1]]) as usize
}
fn set_cnt(w: &mut [u8], i: usize, v: usize) {
    w[i] = (v >> 8) as u8;
    w[i + 1] = v as u8;
}

/// (start, rtype, rdata start, end) of every record, per section
pub struct Layout {
    pub an: Vec<(usize, u16, usize, usize)>,
    pub ns: Vec<(usize, u16, usize, usize)>,
    pub ar: Vec<(usize, u16, usize, usize)>,
    pub end: usize,
}
pub fn layout(w: &[u8]) -> Option<Layout> {
    if w.len() < 12 {
        return None;
    }
    let mut p = 12;
    for _ in 0..cnt(w, 4) {
        p = skip_name(w, p)? + 4;
    }
    let mut secs = vec![];
    for c in [6usize, 8, 10] {
        let mut v = vec![];
        for _ in 0..cnt(w, c) {
            let start = p;
            p = skip_name(w, p)?;
            let rt = u16::from_be_bytes([*w.get(p)?, *w.get(p + 1)?]);
            p += 8;
            let rdlen = u16::from_be_bytes([*w.get(p)?, *w.get(p + 1)?]) as usize;
            p += 2;
            let rd = p;
            p += rdlen;
            if p > w.len() {
                return None;
            }
            v.push((start, rt, rd, p));
        }
        secs.push(v);
    }
    let ar = secs.pop().unwrap();
    let ns = secs.pop().unwrap();
    let an = secs.pop().unwrap();
    Some(Layout { an, ns, ar, end: p })
}
/// offset of the trailing TSIG record, if the last additional record is one
pub fn tsig_off(w: &[u8]) -> Option<(usize, usize)> {
    let l = layout(w)?;
    let (s, rt, rd, e) = *l.ar.last()?;
    if rt == 250 && e == w.len() {
        Some((s, rd))
    } else {
        None
    }
}
/// TSIG error field and MAC length of the trailing TSIG
pub fn tsig_fields(w: &[u8]) -> Option<(u16, usize)> {
    let (_s, rd) = tsig_off(w)?;
    let mut p = skip_name(w, rd)?;
    p += 8; // time, fudge
    let maclen = cnt(w, p);
    p += 2 + maclen + 2;
    Some((cnt(w, p) as u16, maclen))
}

//------------ the adversary on real octets ----------------------------------------

#[derive(Clone)]
pub struct Wire {
    pub w: Vec<u8>,
    pub rep: usize,
}

pub fn adv_truncrec(w: &mut Vec<u8>) -> Result<(), String> {
    let l = layout(w).ok_or("layout")?;
    let (s, _, _, e) = *l.an.last().ok_or("no answer")?;
    w.drain(s..e);
    let n = cnt(w, 6);
    set_cnt(w, 6, n - 1);
    Ok(())
}
pub fn adv_fliprec(w: &mut [u8], j: usize) -> Result<(), String> {
    let l = layout(w).ok_or("layout")?;
    let (_, rt, _, e) = *l.an.get(j - 1).ok_or("no such record")?;
    w[e - 1] ^= if rt == 1 { 3 } else { 1 };
    Ok(())
}
pub fn adv_flipmac(w: &mut [u8]) -> Result<(), String> {
    let (_s, rd) = tsig_off(w).ok_or("no tsig")?;
    let p = skip_name(w, rd).ok_or("alg")? + 8;
    if cnt(w, p) == 0 {
        return Err("empty mac".into());
    }
    // applied twice the MAC is still not the original one
    w[p + 2] = w[p + 2].wrapping_add(0x55);
    Ok(())
}
pub fn adv_strip(w: &mut Vec<u8>) -> Result<(), String> {
    let (s, _) = tsig_off(w).ok_or("no tsig")?;
    w.truncate(s);
    let n = cnt(w, 10);
    set_cnt(w, 10, n - 1);
    Ok(())
}
pub fn adv_rekey(w: &mut Vec<u8>) -> Result<(), String> {
    let (s, _) = tsig_off(w).ok_or("no tsig")?;
    let e = skip_name(w, s).ok_or("name")?;
    let other: Vec<u8> = b"\x05other\x03key\x00".to_vec();
    w.splice(s..e, other);
    Ok(())
}

/// Applies the fault list of a case to the stream.  Returns the end-of-stream mode.
pub fn apply_faults(
    wire: &mut Vec<Wire>,
    old: &[Vec<u8>],
    faults: &[Value],
    forged: &dyn Fn(&Value) -> Vec<u8>,
) -> Result<String, String> {
    let mut eos = "end".to_string();
    for f in faults {
        let k = f["k"].as_str().unwrap_or("");
        let i = f["i"].as_u64().unwrap_or(0) as usize;
        let j = f["j"].as_u64().unwrap_or(0) as usize;
        if k == "flipreq" {
            continue;
        }
        if !matches!(k, "replay" | "cut" | "burst") && (i == 0 || i > wire.len()) {
            return Err(format!("fault {k} at {i} of {}", wire.len()));
        }
        match k {
            "drop" => {
                wire.remove(i - 1);
            }
            "dup" => {
                let c = wire[i - 1].clone();
                wire.insert(i, c);
            }
            "swap" => wire.swap(i - 1, i),
            "truncrec" => adv_truncrec(&mut wire[i - 1].w)?,
            "fliprec" => adv_fliprec(&mut wire[i - 1].w, j)?,
            "flipmac" => adv_flipmac(&mut wire[i - 1].w)?,
            "strip" => adv_strip(&mut wire[i - 1].w)?,
            "rekey" => adv_rekey(&mut wire[i - 1].w)?,
            "splice" => {
                wire[i - 1] = Wire { w: old.get(j - 1).ok_or("no old message")?.clone(), rep: 1 }
            }
            "replay" => *wire = old.iter().map(|w| Wire { w: w.clone(), rep: 1 }).collect(),
            "forge" => wire[i - 1] = Wire { w: forged(f), rep: 1 },
            "burst" => wire.insert(i, Wire { w: forged(f), rep: j }),
            "cut" => {
                wire.truncate(i);
                eos = if j == 0 { "end".into() } else { "abort".into() };
            }
            other => return Err(format!("unknown fault {other}")),
        }
    }
    Ok(eos)
}

//------------ the in-memory transport ----------------------------------------------

pub enum Item {
    Msg(Vec<u8>),
    End,
    Abort,
}
#[derive(Default)]
pub struct Net {
    /// the request as composed (and signed) by the client side
    pub req: Option<Vec<u8>>,
    pub q: VecDeque<Item>,
    /// items taken by the client side so far
    pub popped: usize,
}
pub type Sh = Arc<Mutex<Net>>;
#[derive(Clone)]
pub struct Up(pub Sh);
pub struct Resp<CR> {
    req: CR,
    sh: Sh,
    composed: bool,
}
impl<CR> std::fmt::Debug for Resp<CR> {
    fn fmt(&self, f: &mut std::fmt::Formatter<'_>) -> std::fmt::Result {
        f.write_str("Resp")
    }
}
impl<CR: ComposeRequestMulti + Send + Sync + 'static> SendRequestMulti<CR> for Up {
    fn send_request(&self, request_msg: CR) -> Box<dyn GetResponseMulti + Send + Sync> {
        Box::new(Resp { req: request_msg, sh: self.0.clone(), composed: false })
    }
}
impl<CR: ComposeRequestMulti + Send + Sync + 'static> GetResponseMulti for Resp<CR> {
    fn get_response(
        &mut self,
    ) -> Pin<Box<dyn Future<Output = Result<Option<Message<Bytes>>, Error>> + Send + Sync + '_>>
    {
        if !self.composed {
            self.composed = true;
            match self.req.to_message() {
                Ok(m) => self.sh.lock().unwrap().req = Some(m.as_slice().to_vec()),
                Err(e) => return Box::pin(ready(Err(e))),
            }
        }
        let sh = self.sh.clone();
        // the driver never awaits this while the queue is empty
        Box::pin(std::future::poll_fn(move |_cx| {
            let mut g = sh.lock().unwrap();
            let it = g.q.pop_front();
            if it.is_some() {
                g.popped += 1;
            }
            match it {
            Some(Item::Msg(w)) => Poll::Ready(
                Message::from_octets(Bytes::from(w)).map(Some).map_err(|_| Error::ShortMessage),
            ),
            Some(Item::End) => Poll::Ready(Ok(None)),
            Some(Item::Abort) => Poll::Ready(Err(Error::ConnectionClosed)),
            None => Poll::Pending,
        }}))
    }
}

//------------ the primary ----------------------------------------------------------

/// `{"id","qr","op","rc","tc","qd":[[wrong,qtype]..],"an":[ids]}` -> response
/// built on the request (ID of the request) with the real builder
fn build_response(
    req: &Message<Vec<u8>>,
    m: &Value,
) -> AdditionalBuilder<StreamTarget<Vec<u8>>> {
    let mut b = mk_builder_for_target::<Vec<u8>>();
    {
        let h = b.header_mut();
        h.set_id(req.header().id());
        h.set_qr(m["qr"].as_i64().unwrap_or(1) == 1);
        h.set_rcode(Rcode::checked_from_int(m["rc"].as_i64().unwrap_or(0) as u8).unwrap());
        h.set_tc(m["tc"].as_i64().unwrap_or(0) == 1);
        h.set_aa(true);
    }
    let mut q = b.question();
    for qd in m["qd"].as_array().cloned().unwrap_or_default() {
        q.push((apex(), Rtype::from_int(qd[1].as_u64().unwrap_or(252) as u16))).unwrap();
    }
    let mut a = q.answer();
    for id in m["an"].as_array().cloned().unwrap_or_default() {
        let id = id.as_i64().unwrap();
        a.push((owner_of(id), Class::IN, Ttl::from_secs(TTL), data_of(id))).unwrap();
    }
    a.additional()
}

/// an unsigned message of the adversary's making, answering request id `id`
pub fn forged_message(id: u16, m: &Value) -> Vec<u8> {
    let mut rb = MessageBuilder::new_vec();
    rb.header_mut().set_id(id);
    let req = rb.into_message();
    build_response(&req, m).as_message().as_slice().to_vec()
}

/// The transfer service of the scripted primary: the messages of the case;
/// transfer policy: only for requests signed with a known key.
#[derive(Clone)]
pub struct Scripted {
    pub msgs: Vec<Value>,
}
impl Service<Vec<u8>, Option<Key>> for Scripted {
    type Target = Vec<u8>;
    type Stream = Iter<std::vec::IntoIter<ServiceResult<Vec<u8>>>>;
    type Future = Ready<Self::Stream>;
    fn call(&self, request: Request<Vec<u8>, Option<Key>>) -> Self::Future {
        let mut items = vec![];
        if request.metadata().is_none() {
            let b = mk_builder_for_target::<Vec<u8>>();
            let a = b.start_answer(request.message(), Rcode::REFUSED).unwrap();
            items.push(Ok(CallResult::new(a.additional())));
        } else {
            for (i, m) in self.msgs.iter().enumerate() {
                let mut cr = CallResult::new(build_response(request.message(), m));
                if i == 0 {
                    cr = cr.with_feedback(ServiceFeedback::BeginTransaction);
                }
                items.push(Ok(cr));
            }
            items.push(Ok(CallResult::feedback_only(ServiceFeedback::EndTransaction)));
        }
        ready(futures_util::stream::iter(items))
    }
}

#[derive(Clone)]
pub struct NextSvc;
impl Service<Vec<u8>, Option<Key>> for NextSvc {
    type Target = Vec<u8>;
    type Stream = Once<Ready<ServiceResult<Self::Target>>>;
    type Future = Ready<Self::Stream>;
    fn call(&self, request: Request<Vec<u8>, Option<Key>>) -> Self::Future {
        let b = mk_builder_for_target::<Vec<u8>>();
        let a = b.start_answer(request.message(), Rcode::NOTIMP).unwrap();
        ready(futures_util::stream::once(ready(Ok(CallResult::new(a.additional())))))
    }
}

/// zone + the diffs its commits produced; transfers only for keyed requests
#[derive(Clone)]
pub struct ZoneWithDiffs {
    pub zone: Zone,
    pub diffs: Vec<Arc<InMemoryZoneDiff>>,
}
impl XfrDataProvider<Option<Key>> for ZoneWithDiffs {
    type Diff = Arc<InMemoryZoneDiff>;
    fn request<Octs>(
        &self,
        req: &Request<Octs, Option<Key>>,
        diff_from: Option<Serial>,
    ) -> Pin<
        Box<
            dyn Future<Output = Result<XfrData<Self::Diff>, XfrDataProviderError>>
                + Sync
                + Send
                + '_,
        >,
    >
    where
        Octs: octseq::Octets + Send + Sync,
    {
        if req.metadata().is_none() {
            return Box::pin(ready(Err(XfrDataProviderError::Refused)));
        }
        let diffs = match diff_from {
            Some(s) => match self.diffs.iter().position(|d| d.start_serial == s) {
                Some(i) => self.diffs[i..].to_vec(),
                None => vec![],
            },
            None => vec![],
        };
        Box::pin(ready(Ok(XfrData::new(self.zone.clone(), diffs, false))))
    }
}

/// reserves octets in every request, as an EDNS / size-limiting layer would:
/// the transfer middleware then splits its answer into more messages
#[derive(Clone)]
pub struct ReserveSvc<S> {
    pub inner: S,
    pub n: u16,
}
impl<S> Service<Vec<u8>, Option<Key>> for ReserveSvc<S>
where
    S: Service<Vec<u8>, Option<Key>>,
{
    type Target = S::Target;
    type Stream = S::Stream;
    type Future = S::Future;
    fn call(&self, mut request: Request<Vec<u8>, Option<Key>>) -> Self::Future {
        request.reserve_bytes(self.n);
        self.inner.call(request)
    }
}

pub type RealXfr = XfrMiddlewareSvc<Vec<u8>, NextSvc, Option<Key>, ZoneWithDiffs>;

fn mk_server_request(wire: &[u8]) -> Option<Request<Vec<u8>, ()>> {
    let msg = Message::from_octets(wire.to_vec()).ok()?;
    Some(Request::new(
        "127.0.0.1:5300".parse().unwrap(),
        tokio::time::Instant::now(),
        msg,
        TransportSpecificContext::NonUdp(NonUdpTransportContext::new(None)),
        (),
    ))
}

async fn collect<S>(mut stream: S) -> Result<Vec<Vec<u8>>, String>
where
    S: futures_util::Stream<Item = ServiceResult<Vec<u8>>> + Unpin,
{
    let mut out = vec![];
    while let Some(item) = stream.next().await {
        let cr = item.map_err(|e| format!("service error {e}"))?;
        let end = matches!(cr.feedback(), Some(ServiceFeedback::EndTransaction));
        if let Some(b) = cr.into_inner().0 {
            out.push(b.as_message().as_slice().to_vec());
        }
        if end {
            break;
        }
    }
    Ok(out)
}

/// the request through TsigMiddlewareSvc(Scripted)
pub async fn serve_scripted(req_wire: &[u8], msgs: Vec<Value>) -> Result<Vec<Vec<u8>>, String> {
    let svc = TsigMiddlewareSvc::<Vec<u8>, Scripted, Key, ()>::new(Scripted { msgs }, server_key());
    let request = mk_server_request(req_wire).ok_or("short request")?;
    collect(svc.call(request).await).await
}

/// the request through TsigMiddlewareSvc(ReserveSvc(XfrMiddlewareSvc(zone + diffs)))
pub async fn serve_real(
    req_wire: &[u8],
    provider: ZoneWithDiffs,
    reserve: u16,
) -> Result<Vec<Vec<u8>>, String> {
    let xfr: RealXfr = XfrMiddlewareSvc::new(NextSvc, provider, 1);
    let svc = TsigMiddlewareSvc::<Vec<u8>, ReserveSvc<RealXfr>, Key, ()>::new(
        ReserveSvc { inner: xfr, n: reserve },
        server_key(),
    );
    let request = mk_server_request(req_wire).ok_or("short request")?;
    collect(svc.call(request).await).await
}

/// what the primary answered, in the terms of Repl.tla
pub fn serve_obs(resps: &[Vec<u8>]) -> Value {
    let first = match resps.first() {
        Some(f) if f.len() >= 12 => f,
        _ => return json!({"res": "nothing", "rc": -1, "terr": -1, "n": resps.len()}),
    };
    let rc = (first[3] & 0x0f) as i64;
    let t = tsig_fields(first);
    let all_signed = resps.iter().all(|w| matches!(tsig_fields(w), Some((0, n)) if n > 0));
    let (res, terr) = match (rc, t) {
        (0, _) if all_signed => ("Ok", 0),
        (5, None) => ("Unsigned", 0),
        (9, Some((16, 0))) => ("BADSIG", 16),
        (9, Some((17, 0))) => ("BADKEY", 17),
        (_, Some((e, _))) => ("other", e as i64),
        (_, None) => ("other", 0),
    };
    json!({"res": res, "rc": rc, "terr": terr, "n": resps.len()})
}

//------------ the secondary --------------------------------------------------------

pub fn request_message(id: u16, qtype: u16, from_serial: u32) -> Message<Vec<u8>> {
    let mut b = MessageBuilder::new_vec();
    b.header_mut().set_id(id);
    let mut q = b.question();
    q.push((apex(), Rtype::from_int(qtype))).unwrap();
    if qtype == 251 {
        let mut a = q.authority();
        a.push((apex(), Class::IN, Ttl::from_secs(TTL), soa_of(from_serial))).unwrap();
        a.into_message()
    } else {
        q.into_message()
    }
}

pub struct Secondary {
    pub zone: Zone,
    pub keyed: bool,
    req: Message<Bytes>,
    get: Box<dyn GetResponseMulti + Send + Sync>,
    interp: XfrResponseInterpreter,
    updater: Option<ZoneUpdater<ParsedName<Bytes>>>,
    pub st: String,
    pub why: String,
    pub nacc: usize,
    first: bool,
    /// abstract messages handed to the interpreter (recorder)
    pub handed: Vec<Vec<u8>>,
}

fn verr_name(e: &Error) -> String {
    match e {
        Error::Authentication(v) => {
            let s = format!("{:?}", v);
            s.split(|c: char| !c.is_alphanumeric()).next().unwrap_or("").to_string()
        }
        _ => "None".into(),
    }
}

impl Secondary {
    /// zone: the secondary's copy; the request is sent through the real TSIG
    /// client wrapper when a key is configured
    pub async fn new(zone: Zone, kc: &str, id: u16, qtype: u16, from_serial: u32, sh: Sh) -> Self {
        let msg = request_message(id, qtype, from_serial);
        let req = Message::from_octets(Bytes::from(msg.as_slice().to_vec())).unwrap();
        let rm = RequestMessageMulti::new(msg).unwrap();
        let get: Box<dyn GetResponseMulti + Send + Sync> = match client_key(kc) {
            Some(key) => {
                let conn = ctsig::Connection::new(key, Up(sh));
                SendRequestMulti::send_request(&conn, rm)
            }
            None => SendRequestMulti::send_request(&Up(sh), rm),
        };
        let updater = ZoneUpdater::new(zone.clone()).await.unwrap();
        Secondary {
            zone,
            keyed: client_key(kc).is_some(),
            req,
            get,
            interp: XfrResponseInterpreter::new(),
            updater: Some(updater),
            st: "wait".into(),
            why: String::new(),
            nacc: 0,
            first: true,
            handed: vec![],
        }
    }

    pub fn is_final(&self) -> bool {
        self.st == "applied" || self.st == "failed"
    }
    fn fail(&mut self, why: &str) {
        self.st = "failed".into();
        self.why = why.into();
        // dropping the updater rolls back whatever is not committed
        self.updater = None;
    }
    pub fn finished(&self) -> bool {
        self.interp.is_finished()
    }

    /// the loop body documented in zonetree/update.rs for one response
    async fn hand(&mut self, msg: Message<Bytes>) {
        if self.interp.is_finished() {
            self.fail("trailing");
            return;
        }
        self.nacc += 1;
        self.handed.push(msg.as_slice().to_vec());
        let isans = msg.is_answer(&self.req);
        let ups = match self.interp.interpret_response(msg) {
            Err(_) => None,
            Ok(it) => {
                let mut v = vec![];
                for u in it {
                    match u {
                        Ok(u) => v.push(Ok(u)),
                        Err(_) => {
                            v.push(Err(()));
                            break;
                        }
                    }
                }
                Some(v)
            }
        };
        let Some(ups) = ups else {
            self.fail("xfr");
            return;
        };
        if self.first && !isans {
            self.fail("xfr");
            return;
        }
        self.first = false;
        for u in ups {
            match u {
                Err(()) => {
                    self.fail("xfr");
                    return;
                }
                Ok(u) => {
                    let up: ZoneUpdate<_> = u;
                    if self.updater.as_mut().unwrap().apply(up).await.is_err() {
                        self.fail("xfr");
                        return;
                    }
                }
            }
        }
    }

    /// get_response() calls until the transport has handed over `upto`
    /// items in total (one call per item with today's wrapper; a wrapper that
    /// withholds unsigned messages takes several items in one call).
    /// Returns the last TSIG verdict, None if nothing was to do.
    pub async fn step_upto(&mut self, sh: &Sh, upto: usize) -> Option<String> {
        let mut verdict = None;
        while !self.is_final() && sh.lock().unwrap().popped < upto {
            verdict = Some(self.step(1).await);
        }
        verdict
    }

    /// one get_response() (n in a row).  Returns the TSIG verdict.
    pub async fn step(&mut self, n: usize) -> String {
        let mut verdict = String::from("None");
        for _ in 0..n.max(1) {
            if self.is_final() {
                break;
            }
            match self.get.get_response().await {
                Err(e) => {
                    verdict = verr_name(&e);
                    let why = if matches!(e, Error::Authentication(_)) { "auth" } else { "transport" };
                    self.fail(why);
                }
                Ok(None) => {
                    verdict = if self.keyed { "Ok".into() } else { "None".into() };
                    if self.interp.is_finished() {
                        self.st = "applied".into();
                    } else {
                        self.fail("early");
                    }
                }
                Ok(Some(msg)) => {
                    verdict = if self.keyed { "Ok".into() } else { "None".into() };
                    self.hand(msg).await;
                }
            }
        }
        verdict
    }

    pub fn obs(&self, op: &str, tsig: &str) -> Value {
        json!({"op": op, "tsig": tsig, "st": self.st, "why": self.why, "fin": self.interp.is_finished(),
               "nacc": self.nacc, "pub": view_of(&self.zone)})
    }
}

/// walk() in the vocabulary of Xfr.tla's View: SOA ids (100 + serial index) and record ids
pub fn view_of(zone: &Zone) -> Value {
    let v = walk_content(zone, MAX_N);
    let soa: Vec<i64> = v["soa"].as_array().unwrap().iter().map(|s| s.as_i64().unwrap() + SOA_BASE).collect();
    let mut o = json!({"soa": soa, "recs": v["recs"]});
    if let Some(x) = v.get("other") {
        o["other"] = x.clone();
    }
    o
}

/// model base (4-bit serial space) -> real base: 14 puts versions 1, 2, 3 at
/// 4294967295, 0, 1
pub fn set_serial_base(model_base: i64) {
    let real: u32 = if model_base >= 8 { (model_base as u32).wrapping_sub(16) } else { model_base as u32 };
    SERIAL_BASE.store(real, std::sync::atomic::Ordering::SeqCst);
}

/// Drives one secondary step whose first poll composes the request: polls
/// once (the request is now in `sh`), lets `serve` fill the queue, completes.
pub async fn first_poll(sec: &mut Secondary) -> bool {
    let mut fut = Box::pin(sec.step(1));
    matches!(futures_util::poll!(fut.as_mut()), Poll::Pending)
}
