//! C14 — a real signed DNS hierarchy, an adversarial mock upstream and the
//! scenario runner for the DNSSEC validator (spec/Validator.tla).
//!
//! Zones are built record by record, signed with the library's own signer
//! (`SignableZoneInPlace::sign_zone`, `sign_rrset`) and real Ed25519 keys
//! (ring), validity window around the actual current time.  NSEC / NSEC3 /
//! NSEC3 opt-out chains come from the library's generators.  A small
//! authoritative responder synthesises DNSSEC answers (with the RFC 4035 /
//! 5155 proofs) from the signed record list, tags every RRset with the role
//! the specification uses ("ans", "cname1", "soa", "nd", "nx", "ce", "wc") and
//! the adversary rewrites of Validator.tla are applied per role.

#![allow(dead_code)]

use bytes::Bytes;
use domain::base::iana::{Class, DigestAlgorithm, Nsec3HashAlgorithm, Rcode};
use domain::base::name::{Label, Name, ToName};
use domain::base::{Message, MessageBuilder, Record, Rtype, Serial, Ttl};
use domain::crypto::sign::{generate, GenerateParams, KeyPair};
use domain::dnssec::common::nsec3_hash;
use domain::dnssec::sign::denial::config::DenialConfig;
use domain::dnssec::sign::denial::nsec::GenerateNsecConfig;
use domain::dnssec::sign::denial::nsec3::GenerateNsec3Config;
use domain::dnssec::sign::keys::SigningKey;
use domain::dnssec::sign::records::{DefaultSorter, Rrset, SortedRecords};
use domain::dnssec::sign::signatures::rrsigs::sign_rrset;
use domain::dnssec::sign::traits::SignableZoneInPlace;
use domain::dnssec::sign::SigningConfig;
use domain::dnssec::validator::anchor::TrustAnchors;
use domain::dnssec::validator::base::DnskeyExt;
use domain::dnssec::validator::context::{Config as VConfig, ValidationContext, ValidationState};
use domain::net::client::request::{
    ComposeRequest, Error as ReqError, GetResponse, RequestMessage, SendRequest,
};
use domain::rdata::dnssec::Timestamp;
use domain::rdata::nsec3::{Nsec3Salt, OwnerHash};
use domain::rdata::{Aaaa, Cname, Dname, Dnskey, Ds, Ns, Nsec3, Nsec3param, Soa, ZoneRecordData, A};
use serde_json::{json, Value};
use std::collections::HashMap;
use std::future::Future;
use std::pin::Pin;
use std::str::FromStr;
use std::sync::{Arc, Mutex};

//------------ a shiftable clock ------------------------------------------------
//
// The validator reads `SystemTime` (signature validity, remaining signature
// lifetime) and `Instant` (node expiry).  The executable interposes libc's
// `clock_gettime` (as the C15 / X01 / X02 harnesses do; this file is included
// with #[path] by the C14 executables only, so the symbol is linked once):
// both clocks run normally plus an offset that the harness advances between
// two validations on one context ("TimePasses").

static OFFSET_S: std::sync::atomic::AtomicI64 = std::sync::atomic::AtomicI64::new(0);

#[repr(C)]
pub struct Timespec {
    tv_sec: i64,
    tv_nsec: i64,
}

extern "C" {
    fn syscall(num: i64, ...) -> i64;
}

/// Interposed libc symbol (x86_64 Linux): CLOCK_REALTIME (0) and
/// CLOCK_MONOTONIC (1) are shifted by the same offset.
#[no_mangle]
pub unsafe extern "C" fn clock_gettime(clk: i32, ts: *mut Timespec) -> i32 {
    let r = syscall(228, clk as i64, ts) as i32;
    if r == 0 && (clk == 0 || clk == 1) {
        (*ts).tv_sec += OFFSET_S.load(std::sync::atomic::Ordering::SeqCst);
    }
    r
}

pub fn advance_clock(secs: i64) {
    OFFSET_S.fetch_add(secs, std::sync::atomic::Ordering::SeqCst);
}

/// Do both clocks of the standard library (and the library's Timestamp) follow?
pub fn clock_selftest() -> bool {
    let a = std::time::SystemTime::now();
    let i = std::time::Instant::now();
    let t = Timestamp::now().into_int();
    advance_clock(100);
    let ok = std::time::SystemTime::now().duration_since(a).map(|d| d.as_secs() >= 100 && d.as_secs() < 103).unwrap_or(false)
        && i.elapsed().as_secs() >= 100 && i.elapsed().as_secs() < 103
        && Timestamp::now().into_int().wrapping_sub(t) >= 100;
    ok
}

/// start of the current scenario (for signatures with a short remaining life)
static SCN_NOW: std::sync::atomic::AtomicU32 = std::sync::atomic::AtomicU32::new(0);
/// short-lived signatures of the current scenario, so that a later run of the
/// same scenario serves the very same octets
static SHORT_SIGS: Mutex<Option<HashMap<String, Rec>>> = Mutex::new(None);

pub type N = Name<Bytes>;
pub type D = ZoneRecordData<Bytes, N>;
pub type Rec = Record<N, D>;
pub type Key = SigningKey<Bytes, KeyPair>;

pub fn nm(s: &str) -> N {
    N::from_str(s).expect("name")
}

fn ttl() -> Ttl {
    Ttl::from_secs(3600)
}

fn rec(owner: &N, data: D) -> Rec {
    Record::new(owner.clone(), Class::IN, ttl(), data)
}

fn sub(label: &str, apex: &N) -> N {
    if apex.is_root() {
        nm(&format!("{}.", label))
    } else {
        nm(&format!("{}.{}", label, apex))
    }
}

//------------ Zone -----------------------------------------------------------

pub struct Zone {
    pub id: &'static str,
    pub apex: N,
    pub parent: Option<&'static str>,
    pub signed: bool,
    pub key: Option<Key>,
    pub keymat: Option<Arc<KeyMat>>,
    pub recs: Vec<Rec>,
    /// NSEC3 parameters when the zone uses NSEC3: (iterations, salt)
    pub nsec3: Option<(u16, Nsec3Salt<Bytes>)>,
}

#[derive(Clone, Copy, PartialEq, Eq, Hash, Debug)]
pub enum Denial {
    Nsec,
    Nsec3,
    OptOut,
}

fn dnskey_bytes(k: &Key) -> Dnskey<Bytes> {
    let d = k.dnskey();
    Dnskey::new(
        d.flags(),
        d.protocol(),
        d.algorithm(),
        Bytes::copy_from_slice(d.public_key().as_ref()),
    )
    .expect("dnskey")
}

fn new_key(owner: &N) -> Key {
    new_key_mat(owner).0
}

pub type KeyMat = (domain::crypto::sign::SecretKeyBytes, Dnskey<Vec<u8>>);

fn new_key_mat(owner: &N) -> (Key, Arc<KeyMat>) {
    let (sec, pubk) = generate(&GenerateParams::EcdsaP256Sha256, 257).expect("generate");
    let kp = KeyPair::from_bytes(&sec, &pubk).expect("keypair");
    (SigningKey::new(owner.clone(), 257, kp), Arc::new((sec, pubk)))
}

fn key_from_mat(owner: &N, m: &KeyMat) -> Key {
    let kp = KeyPair::from_bytes(&m.0, &m.1).expect("keypair");
    SigningKey::new(owner.clone(), 257, kp)
}

/// parameters of one world build: time, NSEC3 salt, and (for a re-salted copy
/// of a world) the key material to reuse per zone
pub struct BuildCtx<'a> {
    pub now: u32,
    pub salt: &'static [u8],
    pub keys: Option<&'a HashMap<String, Arc<KeyMat>>>,
}

/// A fresh key whose DNSKEY flags are chosen such that its key tag is `want`
/// (Zone Key bit kept); falls back to an ordinary key.
fn new_key_with_tag(owner: &N, want: u16) -> Key {
    for _ in 0..64 {
        let (sec, pubk) = generate(&GenerateParams::EcdsaP256Sha256, 257).expect("generate");
        for hi in 0..=255u16 {
            for lo in 0..=255u16 {
                let flags = ((hi << 8) | lo) | 0x0100;
                if flags & 0x0080 != 0 {
                    continue; // not the REVOKE bit
                }
                let d = Dnskey::new(flags, 3, pubk.algorithm(), pubk.public_key().clone()).unwrap();
                if d.key_tag() == want {
                    let kp = KeyPair::from_bytes(&sec, &d).expect("keypair");
                    return SigningKey::new(owner.clone(), flags, kp);
                }
            }
        }
    }
    new_key(owner)
}

fn ds_for(owner: &N, key: &Key) -> D {
    let dk = dnskey_bytes(key);
    let digest = dk.digest(owner, DigestAlgorithm::SHA256).expect("digest");
    D::Ds(
        Ds::new(
            dk.key_tag(),
            dk.algorithm(),
            DigestAlgorithm::SHA256,
            Bytes::copy_from_slice(digest.as_ref()),
        )
        .expect("ds"),
    )
}

pub fn sign_set(key: &Key, recs: &[Rec], inc: u32, exp: u32) -> Rec {
    let rrset = Rrset::new_from_owned(recs).expect("rrset");
    let sig = sign_rrset(key, &rrset, Timestamp::from(inc), Timestamp::from(exp))
        .expect("sign_rrset");
    Record::new(sig.owner().clone(), sig.class(), sig.ttl(), D::Rrsig(sig.data().clone()))
}

impl Zone {
    fn build(
        id: &'static str,
        apex: N,
        parent: Option<&'static str>,
        signed: bool,
        denial: Denial,
        content: Vec<Rec>,
        bc: &BuildCtx<'_>,
    ) -> Zone {
        let now = bc.now;
        let mut records: SortedRecords<N, D> = SortedRecords::default();
        let ns = sub("ns", &apex);
        let soa = Soa::new(
            ns.clone(),
            sub("host", &apex),
            Serial(1),
            ttl(),
            ttl(),
            Ttl::from_secs(86400),
            Ttl::from_secs(300),
        );
        let _ = records.insert(rec(&apex, D::Soa(soa)));
        let _ = records.insert(rec(&apex, D::Ns(Ns::new(ns.clone()))));
        let _ = records.insert(rec(&ns, D::A(A::from_str("192.0.2.53").unwrap())));
        for r in content {
            let _ = records.insert(r);
        }
        let mut key = None;
        let mut keymat = None;
        let mut nsec3 = None;
        if signed {
            let (k, km) = match bc.keys.and_then(|m| m.get(id)) {
                Some(m) => (key_from_mat(&apex, m), m.clone()),
                None => new_key_mat(&apex),
            };
            keymat = Some(km);
            let dk = rec(&apex, D::Dnskey(dnskey_bytes(&k)));
            let _ = records.insert(dk.clone());
            let inc = now.wrapping_sub(3600);
            let exp = now.wrapping_add(14 * 86400);
            let den: DenialConfig<Bytes, DefaultSorter> = match denial {
                Denial::Nsec => DenialConfig::Nsec(GenerateNsecConfig::new()),
                Denial::Nsec3 | Denial::OptOut => {
                    let salt = Nsec3Salt::from_octets(Bytes::from_static(bc.salt)).unwrap();
                    let params = Nsec3param::new(Nsec3HashAlgorithm::SHA1, 0, 1, salt.clone());
                    nsec3 = Some((1u16, salt));
                    let cfg = GenerateNsec3Config::<Bytes, DefaultSorter>::new(params);
                    let cfg = if denial == Denial::OptOut { cfg.with_opt_out() } else { cfg };
                    DenialConfig::Nsec3(cfg)
                }
            };
            let cfg = SigningConfig::new(den, Timestamp::from(inc), Timestamp::from(exp));
            records.sign_zone(&apex, &cfg, &[&k]).expect("sign_zone");
            let sig = sign_set(&k, &[dk], inc, exp);
            let _ = records.insert(sig);
            key = Some(k);
        }
        Zone { id, apex, parent, signed, key, keymat, recs: records.into_inner(), nsec3 }
    }

    pub fn rrset(&self, name: &N, rt: Rtype) -> Vec<Rec> {
        self.recs.iter().filter(|r| r.owner() == name && r.rtype() == rt).cloned().collect()
    }

    pub fn sigs(&self, name: &N, covered: Rtype) -> Vec<Rec> {
        self.recs
            .iter()
            .filter(|r| {
                r.owner() == name
                    && matches!(r.data(), D::Rrsig(s) if s.type_covered() == covered)
            })
            .cloned()
            .collect()
    }

    fn is_plain(r: &Rec) -> bool {
        match r.data() {
            D::Nsec3(_) => false,
            D::Rrsig(s) => s.type_covered() != Rtype::NSEC3,
            _ => true,
        }
    }

    pub fn exists(&self, name: &N) -> bool {
        self.recs.iter().any(|r| Self::is_plain(r) && r.owner() == name)
    }

    pub fn exists_or_ent(&self, name: &N) -> bool {
        self.recs.iter().any(|r| Self::is_plain(r) && r.owner().ends_with(name))
    }

    fn h(&self, name: &N) -> Vec<u8> {
        let (it, salt) = self.nsec3.as_ref().expect("nsec3 zone");
        let h: OwnerHash<Vec<u8>> =
            nsec3_hash(name, Nsec3HashAlgorithm::SHA1, *it, salt).expect("hash");
        h.as_slice().to_vec()
    }

    fn nsec3_list(&self) -> Vec<(Vec<u8>, Vec<u8>, Rec)> {
        let mut v = Vec::new();
        for r in &self.recs {
            if let D::Nsec3(n3) = r.data() {
                let l = std::str::from_utf8(r.owner().first().as_slice()).unwrap().to_string();
                let oh: OwnerHash<Vec<u8>> = OwnerHash::from_str(&l).expect("own label");
                v.push((oh.as_slice().to_vec(), n3.next_owner().as_slice().to_vec(), r.clone()));
            }
        }
        v
    }

    fn with_sigs(&self, role: &str, sec: u8, recs: Vec<Rec>) -> RRs {
        let sigs = if recs.is_empty() {
            vec![]
        } else {
            self.sigs(recs[0].owner(), recs[0].rtype())
        };
        RRs { role: role.to_string(), sec, recs, sigs }
    }

    /// NSEC / NSEC3 record matching `name` (role given by the caller).
    fn match_proof(&self, role: &str, name: &N) -> Option<RRs> {
        if !self.signed {
            return None;
        }
        if self.nsec3.is_some() {
            let h = self.h(name);
            self.nsec3_list()
                .into_iter()
                .find(|(o, _, _)| *o == h)
                .map(|(_, _, r)| self.with_sigs(role, 1, vec![r]))
        } else {
            let v = self.rrset(name, Rtype::NSEC);
            if v.is_empty() { None } else { Some(self.with_sigs(role, 1, v)) }
        }
    }

    /// NSEC / NSEC3 record covering `name`.
    fn cover_proof(&self, role: &str, name: &N) -> Option<RRs> {
        if !self.signed {
            return None;
        }
        if self.nsec3.is_some() {
            let h = self.h(name);
            self.nsec3_list()
                .into_iter()
                .find(|(o, n, _)| if o < n { *o < h && h < *n } else { *o < h || h < *n })
                .map(|(_, _, r)| self.with_sigs(role, 1, vec![r]))
        } else {
            for r in &self.recs {
                if let D::Nsec(ns) = r.data() {
                    let o = r.owner();
                    let nx = ns.next_name();
                    let cov = if o.name_cmp(nx) == std::cmp::Ordering::Less {
                        o.name_cmp(name) == std::cmp::Ordering::Less
                            && name.name_cmp(nx) == std::cmp::Ordering::Less
                    } else {
                        o.name_cmp(name) == std::cmp::Ordering::Less
                    };
                    if cov {
                        return Some(self.with_sigs(role, 1, vec![r.clone()]));
                    }
                }
            }
            None
        }
    }

    fn soa(&self) -> RRs {
        self.with_sigs("soa", 1, self.rrset(&self.apex, Rtype::SOA))
    }

    fn closest_encloser(&self, name: &N) -> N {
        let mut cur: N = name.clone();
        loop {
            if self.exists_or_ent(&cur) || cur == self.apex {
                return cur;
            }
            cur = cur.parent().map(|p| p.to_name::<Bytes>()).unwrap_or_else(N::root);
        }
    }

    fn next_closer(&self, name: &N, ce: &N) -> N {
        let mut cur: N = name.clone();
        while cur.label_count() > ce.label_count() + 1 {
            cur = cur.parent().unwrap().to_name::<Bytes>();
        }
        cur
    }

    /// proofs that `name` does not exist: returns (ce, sets)
    fn nx_proofs(&self, name: &N) -> (N, Vec<RRs>) {
        let ce = self.closest_encloser(name);
        let mut v = Vec::new();
        if self.nsec3.is_some() {
            let nc = self.next_closer(name, &ce);
            if let Some(p) = self.cover_proof("nx", &nc) {
                v.push(p);
            }
            if let Some(p) = self.match_proof("ce", &ce) {
                Self::push_unique(&mut v, p);
            }
        } else if let Some(p) = self.cover_proof("nx", name) {
            v.push(p);
        }
        (ce, v)
    }

    fn push_unique(out: &mut Vec<RRs>, p: RRs) {
        if !out.iter().any(|q| q.recs == p.recs) {
            out.push(p);
        }
    }

    fn nodata(&self, name: &N, out: &mut Vec<RRs>) {
        out.push(self.soa());
        if !self.signed {
            return;
        }
        if self.exists(name) || self.nsec3.is_some() {
            if let Some(p) = self.match_proof("nd", name) {
                Self::push_unique(out, p);
                return;
            }
            // NSEC3 opt-out: no record for this (insecure delegation) name,
            // nor possibly for empty non-terminals above it: closest
            // *provable* encloser + the Opt-Out record covering the next closer
            let mut ce: N = name.clone();
            while ce != self.apex {
                ce = ce.parent().map(|p| p.to_name::<Bytes>()).unwrap_or_else(N::root);
                if self.match_proof("ce", &ce).is_some() {
                    break;
                }
            }
            // (one record may play both parts: it then carries the role of
            // the covering record, the one the adversary's rewrites aim at)
            let nc = self.next_closer(name, &ce);
            if let Some(p) = self.cover_proof("nx", &nc) {
                Self::push_unique(out, p);
            }
            if let Some(p) = self.match_proof("ce", &ce) {
                Self::push_unique(out, p);
            }
        } else if let Some(p) = self.cover_proof("nd", name) {
            // NSEC empty non-terminal
            Self::push_unique(out, p);
        }
    }
}

//------------ Responses ------------------------------------------------------

#[derive(Clone, Debug)]
pub struct RRs {
    pub role: String,
    /// 0 answer, 1 authority
    pub sec: u8,
    pub recs: Vec<Rec>,
    pub sigs: Vec<Rec>,
}

#[derive(Clone, Debug)]
pub struct Resp {
    pub rcode: Rcode,
    pub sets: Vec<RRs>,
    pub zero_counts: bool,
    /// every RRSIG precedes the RRset it covers
    pub sigs_first: bool,
    /// every record appears twice
    pub duplicate: bool,
}

impl Resp {
    pub fn to_message(&self, qname: &N, qtype: Rtype) -> Message<Bytes> {
        let mut mb = MessageBuilder::new_vec();
        {
            let h = mb.header_mut();
            h.set_qr(true);
            h.set_rd(true);
            h.set_ra(true);
            h.set_cd(true);
            h.set_rcode(self.rcode);
        }
        let mut q = mb.question();
        q.push((qname, qtype)).expect("q");
        let order = |s: &RRs| -> Vec<Rec> {
            let one: Vec<Rec> = if self.sigs_first {
                s.sigs.iter().chain(s.recs.iter()).cloned().collect()
            } else {
                s.recs.iter().chain(s.sigs.iter()).cloned().collect()
            };
            if self.duplicate {
                one.iter().chain(one.iter()).cloned().collect()
            } else {
                one
            }
        };
        let mut an = q.answer();
        for s in self.sets.iter().filter(|s| s.sec == 0) {
            for r in order(s) {
                an.push(r).expect("push");
            }
        }
        let mut au = an.authority();
        for s in self.sets.iter().filter(|s| s.sec == 1) {
            for r in order(s) {
                au.push(r).expect("push");
            }
        }
        let mut ad = au.additional();
        ad.opt(|o| {
            o.set_dnssec_ok(true);
            o.set_udp_payload_size(4096);
            Ok(())
        })
        .expect("opt");
        let mut v = ad.finish();
        if self.zero_counts {
            for b in v[6..12].iter_mut() {
                *b = 0;
            }
        }
        Message::from_octets(Bytes::from(v)).expect("msg")
    }
}

//------------ World ----------------------------------------------------------

pub struct World {
    /// the attacker's key per zone (key tag tuned to the genuine key's)
    pub adv_keys: Arc<Mutex<HashMap<String, Arc<Key>>>>,
    /// the zone's own second key with a colliding tag (not the attacker's)
    pub coll_keys: Arc<Mutex<HashMap<String, Arc<Key>>>>,
    pub zones: Vec<Zone>,
    pub leaf: &'static str,
    pub now: u32,
    pub anchor: String,
    /// further trust anchor material (zone-file lines): the root key as DS,
    /// the DNSKEYs of tld and of the sibling zone "other", and a DNSKEY / a
    /// root DS for keys that sign nothing in this world
    pub anchor_ds: String,
    pub anchor_tld: String,
    pub anchor_other: String,
    pub anchor_unrelated: String,
    pub anchor_stale_ds: String,
}

#[derive(Clone, Copy, PartialEq, Eq, Hash, Debug)]
pub enum Shape {
    Secure3,
    InsecureLeaf3,
    Secure4,
    InsecureLeaf4,
    /// the leaf zone is delegated below an empty non-terminal of tld that
    /// sorts directly after the tld apex ("0") / after an ordinary name ("m")
    EntApexS,
    EntApexI,
    EntNameS,
    EntNameI,
}

pub fn parse_shape(s: &str) -> Shape {
    match s {
        "secure3" => Shape::Secure3,
        "insecure3" => Shape::InsecureLeaf3,
        "secure4" => Shape::Secure4,
        "insecure4" => Shape::InsecureLeaf4,
        "entapex_s" => Shape::EntApexS,
        "entapex_i" => Shape::EntApexI,
        "entname_s" => Shape::EntNameS,
        "entname_i" => Shape::EntNameI,
        _ => panic!("shape {}", s),
    }
}

pub fn parse_denial(s: &str) -> Denial {
    match s {
        "nsec" => Denial::Nsec,
        "nsec3" => Denial::Nsec3,
        "optout" => Denial::OptOut,
        _ => panic!("denial {}", s),
    }
}

fn a(owner: &N, ip: &str) -> Rec {
    rec(owner, D::A(A::from_str(ip).unwrap()))
}

fn leaf_content(apex: &N) -> Vec<Rec> {
    let www = sub("www", apex);
    let alias = sub("alias", apex);
    let mut v = vec![
        a(&www, "192.0.2.1"),
        a(&sub("*.wild", apex), "192.0.2.2"),
        rec(&alias, D::Cname(Cname::new(www.clone()))),
        rec(&sub("alias2", apex), D::Cname(Cname::new(alias.clone()))),
        rec(&sub("loop1", apex), D::Cname(Cname::new(sub("loop2", apex)))),
        rec(&sub("loop2", apex), D::Cname(Cname::new(sub("loop1", apex)))),
        a(&sub("deep.ent", apex), "192.0.2.3"),
        rec(&sub("dn", apex), D::Dname(Dname::new(sub("tgt", apex)))),
        a(&sub("host.tgt", apex), "192.0.2.5"),
        a(&sub("m1", apex), "192.0.2.11"),
        a(&sub("m2", apex), "192.0.2.12"),
        a(&sub("m3", apex), "192.0.2.13"),
        a(&sub("m4", apex), "192.0.2.14"),
        // an existing name below the wildcard's parent (without the
        // wildcard's type), a wildcard CNAME, and an existing name below its
        // parent
        rec(&sub("m.wild", apex), D::Aaaa(Aaaa::from_str("2001:db8::1").unwrap())),
        rec(&sub("*.wc", apex), D::Cname(Cname::new(www.clone()))),
        rec(&sub("m.wc", apex), D::Aaaa(Aaaa::from_str("2001:db8::2").unwrap())),
        // below the wildcard's parent "wild": an empty non-terminal "e.wild"
        // (in NSEC order between *.wild and m.wild) and a second, inner
        // wildcard *.i.wild ("i.wild" is an empty non-terminal, too)
        a(&sub("x.e.wild", apex), "192.0.2.21"),
        a(&sub("*.i.wild", apex), "192.0.2.22"),
    ];
    // two delegation points without a child zone in this world: one with a
    // DS RRset (always in the NSEC3 chain) and one without
    let dk = new_key(&sub("deleg", apex));
    v.extend(deleg(&sub("deleg", apex), Some(&dk)));
    v.extend(deleg(&sub("ideleg", apex), None));
    v
}

fn deleg(child: &N, key: Option<&Key>) -> Vec<Rec> {
    let mut v = vec![rec(child, D::Ns(Ns::new(sub("ns", child))))];
    if let Some(k) = key {
        v.push(rec(child, ds_for(child, k)));
    }
    v
}

impl World {
    pub fn build(shape: Shape, denial: Denial) -> World {
        World::build_with(shape, denial, b"\xab\xcd", None)
    }

    /// the same hierarchy (same keys, hence same trust anchor and DS records)
    /// with the zones' NSEC3 chains re-salted
    pub fn resalted(&self, shape: Shape, denial: Denial) -> World {
        let keys: HashMap<String, Arc<KeyMat>> = self
            .zones
            .iter()
            .filter_map(|z| z.keymat.as_ref().map(|k| (z.id.to_string(), k.clone())))
            .collect();
        let mut w = World::build_with(shape, denial, b"\x5a\x5a\x01", Some(&keys));
        w.adv_keys = self.adv_keys.clone();
        w.coll_keys = self.coll_keys.clone();
        w
    }

    pub fn build_with(
        shape: Shape,
        denial: Denial,
        salt: &'static [u8],
        keys: Option<&HashMap<String, Arc<KeyMat>>>,
    ) -> World {
        let now = Timestamp::now().into_int();
        let bc = BuildCtx { now, salt, keys };
        let now = &bc;
        let four = matches!(shape, Shape::Secure4 | Shape::InsecureLeaf4);
        let leaf_secure =
            matches!(shape, Shape::Secure3 | Shape::Secure4 | Shape::EntApexS | Shape::EntNameS);
        let root = N::root();
        let tld = nm("tld.");
        let zone = match shape {
            Shape::EntApexS | Shape::EntApexI => nm("zone.0.tld."),
            Shape::EntNameS | Shape::EntNameI => nm("zone.m.tld."),
            _ => nm("zone.tld."),
        };
        let subz = nm("sub.zone.tld.");
        let other = nm("other.tld.");
        let plain = nm("plain.tld.");
        let leaf_id: &'static str = if four { "sub" } else { "zone" };

        // bottom-up so that DS records can be placed in the parent
        let mut zones: Vec<Zone> = Vec::new();
        let z_other = Zone::build("other", other.clone(), Some("tld"), true, denial,
            vec![a(&sub("www", &other), "192.0.2.9")], now);
        let leaf_apex = if four { subz.clone() } else { zone.clone() };
        let z_plain = Zone::build("plain", plain.clone(), Some("tld"), false, denial,
            vec![a(&sub("www", &plain), "192.0.2.66"),
                 rec(&sub("dn", &plain), D::Dname(Dname::new(leaf_apex)))], now);
        let mut z_sub = None;
        let z_zone;
        if four {
            let zs = Zone::build("sub", subz.clone(), Some("zone"), leaf_secure, denial,
                leaf_content(&subz), now);
            let mut c = vec![a(&sub("www", &zone), "192.0.2.1")];
            c.extend(deleg(&subz, zs.key.as_ref()));
            z_zone = Zone::build("zone", zone.clone(), Some("tld"), true, denial, c, now);
            z_sub = Some(zs);
        } else {
            z_zone = Zone::build("zone", zone.clone(), Some("tld"), leaf_secure, denial,
                leaf_content(&zone), now);
        }
        let mut c = vec![a(&sub("a", &tld), "192.0.2.4")];
        c.extend(deleg(&zone, z_zone.key.as_ref()));
        c.extend(deleg(&other, z_other.key.as_ref()));
        c.extend(deleg(&plain, None));
        let z_tld = Zone::build("tld", tld.clone(), Some("root"), true, denial, c, now);
        let z_root = Zone::build("root", root.clone(), None, true, denial,
            deleg(&tld, z_tld.key.as_ref()), now);
        let dk = z_root.rrset(&root, Rtype::DNSKEY);
        let anchor = format!(". 3600 IN DNSKEY {}\n", dk[0].data());
        let anchor_ds = format!(". 3600 IN DS {}\n", ds_for(&root, z_root.key.as_ref().unwrap()));
        let anchor_tld = format!("tld. 3600 IN DNSKEY {}\n", z_tld.rrset(&tld, Rtype::DNSKEY)[0].data());
        let anchor_other = format!("other.tld. 3600 IN DNSKEY {}\n", z_other.rrset(&other, Rtype::DNSKEY)[0].data());
        let stray = new_key(&root);
        let anchor_unrelated = format!("elsewhere. 3600 IN DNSKEY {}\n", D::Dnskey(dnskey_bytes(&stray)));
        let anchor_stale_ds = format!(". 3600 IN DS {}\n", ds_for(&root, &stray));
        if std::env::var("VERIF_DEBUG").is_ok() { eprintln!("ANCHOR {:?}", anchor); }
        zones.push(z_root);
        zones.push(z_tld);
        zones.push(z_zone);
        if let Some(z) = z_sub {
            zones.push(z);
        }
        zones.push(z_other);
        zones.push(z_plain);
        World { adv_keys: Arc::new(Mutex::new(HashMap::new())), coll_keys: Arc::new(Mutex::new(HashMap::new())), zones, leaf: leaf_id, now: bc.now, anchor,
                anchor_ds, anchor_tld, anchor_other, anchor_unrelated, anchor_stale_ds }
    }

    pub fn adv_key(&self, z: &Zone) -> Arc<Key> {
        let mut m = self.adv_keys.lock().unwrap();
        m.entry(z.id.to_string())
            .or_insert_with(|| {
                let want = z.key.as_ref().map(|k| dnskey_bytes(k).key_tag()).unwrap_or(0);
                Arc::new(new_key_with_tag(&z.apex, want))
            })
            .clone()
    }

    /// An existing name directly below the leaf apex used as the closest
    /// encloser of the "nxdeep" question.  For NSEC3 zones it is chosen such
    /// that the record matching it and the records covering nx.<mid>,
    /// *.<mid> and *.<apex> are four different records (no role aliasing).
    pub fn mid(&self) -> N {
        let z = self.zone(self.leaf);
        for c in ["m1", "m2", "m3", "m4", "www", "alias"] {
            let m = sub(c, &z.apex);
            if z.nsec3.is_none() || !z.signed {
                return m;
            }
            let recs = |p: Option<RRs>| p.map(|x| x.recs).unwrap_or_default();
            let a = recs(z.match_proof("ce", &m));
            let b = recs(z.cover_proof("nx", &sub("nx", &m)));
            let c2 = recs(z.cover_proof("wc", &sub("*", &m)));
            let d = recs(z.cover_proof("wc", &sub("*", &z.apex)));
            if a != b && a != c2 && b != c2 && a != d {
                return m;
            }
        }
        sub("m1", &z.apex)
    }

    pub fn coll_key(&self, z: &Zone) -> Arc<Key> {
        let mut m = self.coll_keys.lock().unwrap();
        m.entry(z.id.to_string())
            .or_insert_with(|| {
                let want = z.key.as_ref().map(|k| dnskey_bytes(k).key_tag()).unwrap_or(0);
                Arc::new(new_key_with_tag(&z.apex, want))
            })
            .clone()
    }

    pub fn zone(&self, id: &str) -> &Zone {
        self.zones.iter().find(|z| z.id == id).unwrap_or_else(|| panic!("zone {}", id))
    }

    pub fn zone_by_apex(&self, apex: &N) -> Option<&Zone> {
        self.zones.iter().find(|z| &z.apex == apex)
    }

    /// the zone that answers (name, type): deepest enclosing zone; DS at an
    /// apex is answered by the parent
    pub fn zone_for(&self, name: &N, qtype: Rtype) -> &Zone {
        let mut best: Option<&Zone> = None;
        for z in &self.zones {
            if !name.ends_with(&z.apex) {
                continue;
            }
            if qtype == Rtype::DS && *name == z.apex && z.parent.is_some() {
                continue;
            }
            if best.map(|b| z.apex.label_count() > b.apex.label_count()).unwrap_or(true) {
                best = Some(z);
            }
        }
        best.expect("root encloses everything")
    }

    pub fn answer(&self, qname: &N, qtype: Rtype) -> Resp {
        let mut sets: Vec<RRs> = Vec::new();
        let mut rcode = Rcode::NOERROR;
        let mut name = qname.clone();
        let mut hops = 0;
        loop {
            let z = self.zone_for(&name, qtype);
            if z.exists(&name) {
                let rs = z.rrset(&name, qtype);
                if !rs.is_empty() {
                    sets.push(z.with_sigs("ans", 0, rs));
                    break;
                }
                let cn = z.rrset(&name, Rtype::CNAME);
                if !cn.is_empty() && qtype != Rtype::CNAME {
                    hops += 1;
                    let tgt = match cn[0].data() {
                        D::Cname(c) => c.cname().clone(),
                        _ => unreachable!(),
                    };
                    sets.push(z.with_sigs(&format!("cname{}", hops), 0, cn));
                    if hops >= 4 {
                        break;
                    }
                    name = tgt;
                    continue;
                }
                z.nodata(&name, &mut sets);
                break;
            }
            if z.exists_or_ent(&name) {
                z.nodata(&name, &mut sets);
                break;
            }
            // a DNAME at an ancestor (RFC 6672): the DNAME RRset and the
            // synthesized, unsigned CNAME; continue at the target
            let mut dn_owner: Option<N> = None;
            let mut cur = name.clone();
            while cur.label_count() > z.apex.label_count() {
                cur = cur.parent().unwrap().to_name::<Bytes>();
                if !z.rrset(&cur, Rtype::DNAME).is_empty() {
                    dn_owner = Some(cur.clone());
                    break;
                }
            }
            if let Some(o) = dn_owner {
                let dn = z.rrset(&o, Rtype::DNAME);
                let tgt = match dn[0].data() {
                    D::Dname(d) => d.dname().clone(),
                    _ => unreachable!(),
                };
                let mut labels: Vec<String> = Vec::new();
                let mut c = name.clone();
                while c.label_count() > o.label_count() {
                    labels.push(format!("{}", c.first()));
                    c = c.parent().unwrap().to_name::<Bytes>();
                }
                let new_name = sub(&labels.join("."), &tgt);
                let mut set = z.with_sigs("dname", 0, dn);
                sets.push({ set.sec = 0; set });
                sets.push(RRs {
                    role: "dcname".into(),
                    sec: 0,
                    recs: vec![rec(&name, D::Cname(Cname::new(new_name.clone())))],
                    sigs: vec![],
                });
                hops += 1;
                if hops >= 4 {
                    break;
                }
                name = new_name;
                continue;
            }
            // the name does not exist: wildcard or NXDOMAIN
            let (ce, proofs) = z.nx_proofs(&name);
            let star = sub("*", &ce);
            if z.exists(&star) {
                let rs = z.rrset(&star, qtype);
                if !rs.is_empty() {
                    let sigs: Vec<Rec> = z
                        .sigs(&star, qtype)
                        .into_iter()
                        .map(|s| Record::new(name.clone(), s.class(), s.ttl(), s.data().clone()))
                        .collect();
                    let recs: Vec<Rec> = rs
                        .into_iter()
                        .map(|r| Record::new(name.clone(), r.class(), r.ttl(), r.data().clone()))
                        .collect();
                    sets.push(RRs { role: "ans".into(), sec: 0, recs, sigs });
                    // RFC 4035 3.1.3.3 / RFC 5155 7.2.6: only the proof that
                    // the name itself (next closer) does not exist
                    for p in proofs.into_iter().filter(|p| p.role == "nx") {
                        Zone::push_unique(&mut sets, p);
                    }
                    break;
                }
                // a wildcard CNAME: expanded, with the proof that the name
                // itself does not exist; continue at the target
                let cn = z.rrset(&star, Rtype::CNAME);
                if !cn.is_empty() && qtype != Rtype::CNAME {
                    hops += 1;
                    let tgt = match cn[0].data() {
                        D::Cname(c) => c.cname().clone(),
                        _ => unreachable!(),
                    };
                    let sigs: Vec<Rec> = z
                        .sigs(&star, Rtype::CNAME)
                        .into_iter()
                        .map(|s| Record::new(name.clone(), s.class(), s.ttl(), s.data().clone()))
                        .collect();
                    let recs: Vec<Rec> = cn
                        .into_iter()
                        .map(|r| Record::new(name.clone(), r.class(), r.ttl(), r.data().clone()))
                        .collect();
                    sets.push(RRs { role: format!("cname{}", hops), sec: 0, recs, sigs });
                    for p in proofs.into_iter().filter(|p| p.role == "nx") {
                        Zone::push_unique(&mut sets, p);
                    }
                    if hops >= 4 {
                        break;
                    }
                    name = tgt;
                    continue;
                }
                // wildcard NODATA
                sets.push(z.soa());
                for p in proofs {
                    Zone::push_unique(&mut sets, p);
                }
                if let Some(p) = z.match_proof("wc", &star) {
                    Zone::push_unique(&mut sets, p);
                }
                break;
            }
            rcode = Rcode::NXDOMAIN;
            sets.push(z.soa());
            for p in proofs {
                Zone::push_unique(&mut sets, p);
            }
            if let Some(p) = z.cover_proof("wc", &star) {
                Zone::push_unique(&mut sets, p);
            }
            break;
        }
        Resp { rcode, sets, zero_counts: false, sigs_first: false, duplicate: false }
    }
}

//------------ Adversary ------------------------------------------------------

#[derive(Clone, Debug)]
pub struct AdvStep {
    pub act: String,
    /// "ANS", "DS" or "DNSKEY"
    pub t: String,
    /// zone id
    pub z: String,
    pub role: String,
}

pub fn parse_adv(v: &Value) -> Vec<AdvStep> {
    v.as_array()
        .map(|a| {
            a.iter()
                .map(|s| AdvStep {
                    act: s["act"].as_str().unwrap_or("").to_string(),
                    t: s["t"].as_str().unwrap_or("").to_string(),
                    z: s["z"].as_str().unwrap_or("").to_string(),
                    role: s["role"].as_str().unwrap_or("").to_string(),
                })
                .collect()
        })
        .unwrap_or_default()
}

fn signer_zone<'a>(w: &'a World, set: &RRs) -> Option<&'a Zone> {
    for s in &set.sigs {
        if let D::Rrsig(r) = s.data() {
            return w.zone_by_apex(r.signer_name());
        }
    }
    None
}

const BAD_LABEL: &str = "zzzzzzzzzzzzzzzzzzzzzzzzzzzzzzzz";

fn is_proof(role: &str) -> bool {
    matches!(role, "nd" | "nx" | "ce" | "wc")
}

/// set when a rewrite aimed at a role found no such RRset in the concrete
/// message (one NSEC3 record can play two parts of a proof: hash coincidence)
pub static NOOP_REWRITE: std::sync::atomic::AtomicBool = std::sync::atomic::AtomicBool::new(false);

/// Apply one rewrite of Validator.tla to a response.
pub fn apply(w: &World, resp: &mut Resp, st: &AdvStep) {
    let day = 86400u32;
    let idx = resp.sets.iter().position(|s| s.role == st.role);
    if idx.is_none() && !st.role.is_empty() && !st.act.starts_with("ReplayAncestor")
        && st.act != "BadNsec3Label" && !st.act.starts_with("MisapplyWildcard")
        && !st.act.starts_with("DenyExisting")
    {
        NOOP_REWRITE.store(true, std::sync::atomic::Ordering::SeqCst);
    }
    match st.act.as_str() {
        "DropRrsig" => {
            if let Some(i) = idx {
                resp.sets[i].sigs.clear();
            }
        }
        "DropRrset" => {
            if let Some(i) = idx {
                resp.sets.remove(i);
            }
        }
        "ReplaceRdata" => {
            if let Some(i) = idx {
                for r in resp.sets[i].recs.iter_mut() {
                    let nd = match r.data() {
                        D::A(_) => Some(D::A(A::from_str("203.0.113.66").unwrap())),
                        D::Soa(s) => Some(D::Soa(Soa::new(
                            s.mname().clone(),
                            s.rname().clone(),
                            Serial(666),
                            s.refresh(),
                            s.retry(),
                            s.expire(),
                            s.minimum(),
                        ))),
                        D::Ds(d) => {
                            let mut dg = d.digest().to_vec();
                            dg[0] ^= 0x01;
                            Some(D::Ds(
                                Ds::new(d.key_tag(), d.algorithm(), d.digest_type(), Bytes::from(dg))
                                    .unwrap(),
                            ))
                        }
                        _ => None,
                    };
                    if let Some(nd) = nd {
                        *r = Record::new(r.owner().clone(), r.class(), r.ttl(), nd);
                    }
                }
            }
        }
        "CorruptDs" => {
            let mut s2 = st.clone();
            s2.act = "ReplaceRdata".into();
            apply(w, resp, &s2);
        }
        "WrongSigner" => {
            if let Some(i) = idx {
                let k = w.zone("other").key.as_ref().unwrap();
                let sig = sign_set(k, &resp.sets[i].recs, w.now - 3600, w.now + day);
                resp.sets[i].sigs = vec![sig];
            }
        }
        "Expire" | "NotYetValid" => {
            if let Some(i) = idx {
                if let Some(z) = signer_zone(w, &resp.sets[i]) {
                    let k = z.key.as_ref().unwrap();
                    let (inc, exp) = if st.act == "Expire" {
                        (w.now - 2 * day, w.now - day)
                    } else {
                        (w.now + day, w.now + 2 * day)
                    };
                    let sig = sign_set(k, &resp.sets[i].recs, inc, exp);
                    resp.sets[i].sigs = vec![sig];
                }
            }
        }
        "CorruptKey" => {
            // the DNSKEY RRset is replaced by the attacker's own key, signed
            // by that key: self-consistent, but not what the DS commits to
            if let Some(i) = idx {
                let owner = resp.sets[i].recs[0].owner().clone();
                // the attacker's key has the genuine key's tag and algorithm:
                // only the DS digest tells the keys apart
                let k = match w.zone_by_apex(&owner) {
                    Some(z) => w.adv_key(z),
                    None => Arc::new(new_key(&owner)),
                };
                let dk = rec(&owner, D::Dnskey(dnskey_bytes(&k)));
                let sig = sign_set(&k, &[dk.clone()], w.now - 3600, w.now + day);
                resp.sets[i].recs = vec![dk];
                resp.sets[i].sigs = vec![sig];
            }
        }
        "ForgeSigned" => {
            // forged data, signed with the attacker's key in the zone's name
            if let Some(i) = idx {
                if let Some(z) = signer_zone(w, &resp.sets[i]) {
                    let k = w.adv_key(z);
                    for r in resp.sets[i].recs.iter_mut() {
                        if let D::A(_) = r.data() {
                            *r = Record::new(r.owner().clone(), r.class(), r.ttl(),
                                D::A(A::from_str("203.0.113.66").unwrap()));
                        }
                    }
                    let sig = sign_set(&k, &resp.sets[i].recs, w.now - 3600, w.now + day);
                    resp.sets[i].sigs = vec![sig];
                }
            }
        }
        a if a.starts_with("AddBadSig") => {
            // n extra RRSIGs by the right key that do not verify (expired),
            // before or after the genuine one: "AddBadSig<n><First|Last>"
            let n: u32 = a[9..10].parse().unwrap_or(1);
            let first = a.ends_with("First");
            if let Some(i) = idx {
                if let Some(z) = signer_zone(w, &resp.sets[i]) {
                    let k = z.key.as_ref().unwrap();
                    let mut bad = Vec::new();
                    for j in 0..n {
                        bad.push(sign_set(k, &resp.sets[i].recs, w.now - (3 + j) * day,
                                          w.now - (2 + j) * day));
                    }
                    let good = std::mem::take(&mut resp.sets[i].sigs);
                    resp.sets[i].sigs = if first {
                        bad.into_iter().chain(good).collect()
                    } else {
                        good.into_iter().chain(bad).collect()
                    };
                }
            }
        }
        "ShortSig" => {
            // an honest signature with only a few seconds of validity left
            // (the same octets whenever it is served again in this scenario)
            if let Some(i) = idx {
                if let Some(z) = signer_zone(w, &resp.sets[i]) {
                    let key = format!("{}:{}:{}", st.t, st.z, st.role);
                    let mut g = SHORT_SIGS.lock().unwrap();
                    let m = g.get_or_insert_with(HashMap::new);
                    let now0 = SCN_NOW.load(std::sync::atomic::Ordering::SeqCst);
                    let sig = m
                        .entry(key)
                        .or_insert_with(|| sign_set(z.key.as_ref().unwrap(), &resp.sets[i].recs, now0 - 3600, now0 + 4))
                        .clone();
                    resp.sets[i].sigs = vec![sig];
                }
            }
        }
        "FakeInsecureSigner" => {
            // probe only: the RRSIG is rewritten to name the unsigned sibling
            // zone as signer (signature octets kept, no key needed)
            if let Some(i) = idx {
                let signer = w.zone("plain").apex.clone();
                for r in resp.sets[i].sigs.iter_mut() {
                    if let D::Rrsig(sg) = r.data() {
                        let ns = domain::rdata::Rrsig::new(
                            sg.type_covered(), sg.algorithm(), sg.labels(), sg.original_ttl(),
                            sg.expiration(), sg.inception(), sg.key_tag(), signer.clone(),
                            sg.signature().clone(),
                        )
                        .unwrap();
                        *r = Record::new(r.owner().clone(), r.class(), r.ttl(), D::Rrsig(ns));
                    }
                }
            }
        }
        "SerialInception" => {
            // RFC 4034 3.1.5 / RFC 1982: inception just below 2^32 is "in the
            // past" in serial-number arithmetic
            if let Some(i) = idx {
                if let Some(z) = signer_zone(w, &resp.sets[i]) {
                    let k = z.key.as_ref().unwrap();
                    let sig = sign_set(k, &resp.sets[i].recs, 0xFFFF_0000, w.now + day);
                    resp.sets[i].sigs = vec![sig];
                }
            }
        }
        a if a.starts_with("ReplayAncestor") => {
            // NXDOMAIN ("Nx") or NODATA ("Nd") for a name below a DNAME owner
            // or a zone cut, "proven" with the genuine, validly signed
            // NSEC/NSEC3 of that ancestor (RFC 4035 5.4, RFC 6840 4.1: such a
            // record proves nothing about names below it)
            let z = w.zone(w.leaf);
            let anc = ancestor_of(a, &z.apex);
            let qn = sub("x", &anc);
            let star = sub("*", &anc);
            let mut sets = vec![z.soa()];
            if z.nsec3.is_some() {
                if let Some(p) = z.match_proof("ce", &anc) {
                    sets.push(p);
                }
                if let Some(p) = z.cover_proof("nx", &qn) {
                    Zone::push_unique(&mut sets, p);
                }
                if let Some(p) = z.cover_proof("wc", &star) {
                    Zone::push_unique(&mut sets, p);
                }
            } else if let Some(p) = z.match_proof("nx", &anc) {
                sets.push(p);
            }
            resp.sets = sets;
            resp.rcode = if a.contains("Nx") { Rcode::NXDOMAIN } else { Rcode::NOERROR };
        }
        "CorruptSigOctets" => {
            // the same RRset and RRSIG fields, different signature octets
            if let Some(i) = idx {
                for r in resp.sets[i].sigs.iter_mut() {
                    if let D::Rrsig(sg) = r.data() {
                        let mut o = sg.signature().to_vec();
                        let n = o.len();
                        o[n / 2] ^= 0x01;
                        let ns = domain::rdata::Rrsig::new(
                            sg.type_covered(), sg.algorithm(), sg.labels(), sg.original_ttl(),
                            sg.expiration(), sg.inception(), sg.key_tag(), sg.signer_name().clone(),
                            Bytes::from(o),
                        )
                        .unwrap();
                        *r = Record::new(r.owner().clone(), r.class(), r.ttl(), D::Rrsig(ns));
                    }
                }
            }
        }
        a if a.starts_with("AddCollidingKey") => {
            // an honest zone with two keys of equal algorithm and key tag: the
            // second key is added before / after the DS-committed one and the
            // DNSKEY RRset is signed by the zone's own key
            if let Some(i) = idx {
                let owner = resp.sets[i].recs[0].owner().clone();
                if let Some(z) = w.zone_by_apex(&owner) {
                    let k2 = w.coll_key(z);
                    let extra = rec(&owner, D::Dnskey(dnskey_bytes(&k2)));
                    let mut recs = std::mem::take(&mut resp.sets[i].recs);
                    if a.ends_with("First") { recs.insert(0, extra) } else { recs.push(extra) }
                    let sig = sign_set(z.key.as_ref().unwrap(), &recs, w.now - 3600, w.now + day);
                    resp.sets[i].recs = recs;
                    resp.sets[i].sigs = vec![sig];
                }
            }
        }
        a if a.starts_with("AddExtraDs") => {
            // several DS records at the delegation, one of them matching: the
            // extra one has the genuine key's tag and algorithm but commits
            // to another key; DS RRset signed by the parent
            if let Some(i) = idx {
                let owner = resp.sets[i].recs[0].owner().clone();
                if let (Some(c), Some(p)) = (w.zone_by_apex(&owner), signer_zone(w, &resp.sets[i])) {
                    let extra = rec(&owner, ds_for(&owner, &w.coll_key(c)));
                    let mut recs = std::mem::take(&mut resp.sets[i].recs);
                    if a.ends_with("First") { recs.insert(0, extra) } else { recs.push(extra) }
                    let sig = sign_set(p.key.as_ref().unwrap(), &recs, w.now - 3600, w.now + day);
                    resp.sets[i].recs = recs;
                    resp.sets[i].sigs = vec![sig];
                }
            }
        }
        "HideCe" => {
            // NXDOMAIN below an existing name: the NSEC3 matching the real
            // closest encloser is withheld and the wildcard denial is the one
            // for *.<apex> - genuine records, incomplete proof
            let z = w.zone(w.leaf);
            resp.sets.retain(|s| s.role != "ce" && s.role != "wc");
            if let Some(p) = z.cover_proof("wc", &sub("*", &z.apex)) {
                Zone::push_unique(&mut resp.sets, p);
            }
        }
        "StripProof" => {
            resp.sets.retain(|s| !is_proof(&s.role));
        }
        "ForgeNsecRange" => {
            // widen the range of the proof record; the old signature stays
            if let Some(i) = idx {
                for r in resp.sets[i].recs.iter_mut() {
                    let nd = match r.data() {
                        D::Nsec(n) => {
                            let nx = if *r.owner() == nm("zzzz.") { nm("a.") } else { nm("zzzz.") };
                            let _ = n;
                            Some(D::Nsec(domain::rdata::Nsec::new(nx, n.types().clone())))
                        }
                        D::Nsec3(n) => {
                            let mut m = n.clone();
                            let mut h = n.next_owner().as_slice().to_vec();
                            for b in h.iter_mut() {
                                *b ^= 0x55;
                            }
                            m.set_next_owner(OwnerHash::from_octets(Bytes::from(h)).unwrap());
                            Some(D::Nsec3(m))
                        }
                        _ => None,
                    };
                    if let Some(nd) = nd {
                        *r = Record::new(r.owner().clone(), r.class(), r.ttl(), nd);
                    }
                }
            }
        }
        "SwapProof" => {
            // a genuine, validly signed NSEC/NSEC3 of the same zone that
            // neither matches nor covers anything the answer needs: the one
            // at / matching the zone's name server name
            if let Some(i) = idx {
                if let Some(z) = signer_zone(w, &resp.sets[i]) {
                    for cand in ["alias", "a", "www", "host"] {
                        let other = sub(cand, &z.apex);
                        if !z.exists(&other) {
                            continue;
                        }
                        if let Some(mut p) = z.match_proof(&st.role, &other) {
                            if resp.sets.iter().any(|q| q.recs == p.recs) {
                                continue;
                            }
                            p.sec = resp.sets[i].sec;
                            resp.sets[i] = p;
                            break;
                        }
                    }
                }
            }
        }
        "BadNsec3Label" => {
            // an on-path attacker answers the DS query with a fabricated,
            // unsigned NSEC3 whose owner label is not Base32hex
            let zn = w.zone(&st.z).apex.clone();
            let parent = zn.parent().map(|p| p.to_name::<Bytes>()).unwrap_or_else(N::root);
            let owner = sub(BAD_LABEL, &parent);
            let salt = Nsec3Salt::from_octets(Bytes::from_static(b"\xab\xcd")).unwrap();
            let next = OwnerHash::from_octets(Bytes::from(vec![0xffu8; 20])).unwrap();
            let mut bm = domain::rdata::dnssec::RtypeBitmap::<Bytes>::builder();
            bm.add(Rtype::NS).unwrap();
            let n3 = Nsec3::new(Nsec3HashAlgorithm::SHA1, 0, 1, salt, next, bm.finalize());
            resp.sets.retain(|s| s.sec != 0 && !is_proof(&s.role));
            resp.sets.push(RRs {
                role: "nd".into(),
                sec: 1,
                recs: vec![rec(&owner, D::Nsec3(n3))],
                sigs: vec![],
            });
        }
        "BadNsec3LabelSigned" => {
            // a hostile (or broken) signed zone: the NSEC3 proof record is
            // re-issued under a non-Base32hex owner label with a valid
            // signature of the zone's own key
            if let Some(i) = idx {
                if let Some(z) = signer_zone(w, &resp.sets[i]) {
                    let owner = sub(BAD_LABEL, &z.apex);
                    let recs: Vec<Rec> = resp.sets[i]
                        .recs
                        .iter()
                        .map(|r| Record::new(owner.clone(), r.class(), r.ttl(), r.data().clone()))
                        .collect();
                    let sig = sign_set(z.key.as_ref().unwrap(), &recs, w.now - 3600, w.now + day);
                    resp.sets[i].recs = recs;
                    resp.sets[i].sigs = vec![sig];
                }
            }
        }
        "ZeroCounts" => {
            resp.zero_counts = true;
        }
        "ZeroTtl" => {
            for s in resp.sets.iter_mut() {
                for r in s.recs.iter_mut().chain(s.sigs.iter_mut()) {
                    r.set_ttl(Ttl::from_secs(0));
                }
            }
        }
        "Inject" => {
            // an extra, unsigned RRset of the insecure sibling zone in the
            // answer section
            let p = w.zone("plain");
            let n = sub("www", &p.apex);
            resp.sets.push(RRs { role: "inj".into(), sec: 0, recs: p.rrset(&n, Rtype::A), sigs: vec![] });
        }
        "CnameLoop" => { /* handled by the choice of the question */ }
        a if a.starts_with("MisapplyWildcard") => {
            // the genuine wildcard RRset and RRSIG replayed where the wildcard
            // does not apply, with genuine proof records of the zone
            let z = w.zone(w.leaf);
            let (qn, star, rt) = misapply_names(a, &z.apex);
            let recs: Vec<Rec> = z.rrset(&star, rt).into_iter()
                .map(|r| Record::new(qn.clone(), r.class(), r.ttl(), r.data().clone())).collect();
            let sigs: Vec<Rec> = z.sigs(&star, rt).into_iter()
                .map(|s| Record::new(qn.clone(), s.class(), s.ttl(), s.data().clone())).collect();
            let cname = rt == Rtype::CNAME;
            let mut sets = vec![RRs { role: if cname { "cname1" } else { "ans" }.into(), sec: 0, recs, sigs }];
            if cname {
                let www = sub("www", &z.apex);
                sets.push(z.with_sigs("ans", 0, z.rrset(&www, Rtype::A)));
            }
            if a.ends_with("At") {
                if let Some(p) = z.match_proof("nx", &qn) {
                    sets.push(p);
                }
            } else {
                // the genuine proof that the name does not exist (NSEC: the
                // covering record; NSEC3: the record covering the next
                // closer name and the one matching the real closest encloser)
                for p in z.nx_proofs(&qn).1 {
                    Zone::push_unique(&mut sets, p);
                }
            }
            resp.sets = sets;
            resp.rcode = Rcode::NOERROR;
        }
        a if a.starts_with("DenyExisting") => {
            // NODATA / NXDOMAIN for an existing RRset, with the zone's SOA and
            // the genuine NSEC / NSEC3 matching the name
            let z = w.zone(w.leaf);
            let www = sub("www", &z.apex);
            let mut sets = vec![z.soa()];
            if let Some(p) = z.match_proof(&st.role, &www) {
                sets.push(p);
            }
            resp.sets = sets;
            resp.rcode = if a.ends_with("Nx") { Rcode::NXDOMAIN } else { Rcode::NOERROR };
        }
        "SigsFirst" => {
            resp.sigs_first = true;
        }
        "Duplicate" => {
            resp.duplicate = true;
        }
        "OrphanSig" => {
            // the RRset is gone, its RRSIGs stay
            if let Some(i) = idx {
                resp.sets[i].recs.clear();
            }
        }
        "WrongSoa" => {
            // the validly signed SOA of the sibling zone
            if let Some(i) = idx {
                let mut s = w.zone("other").soa();
                s.sec = resp.sets[i].sec;
                resp.sets[i] = s;
            }
        }
        other => panic!("unknown adversary action {}", other),
    }
}

//------------ Mock upstream --------------------------------------------------

pub struct Mock {
    /// the world and its re-salted twin; `sel` says which one answers now
    pub world: (Arc<World>, Arc<World>),
    pub sel: Arc<std::sync::atomic::AtomicUsize>,
    /// set the AD bit in the upstream's answers (a validator must not relay it)
    pub upstream_ad: bool,
    /// the adversary's plan for the current validation run (switchable: one
    /// ValidationContext may validate several answers in a row)
    pub plan: Arc<Mutex<Vec<AdvStep>>>,
    /// serve the user's query (ANS steps) or the validator's own fetches
    pub user: bool,
    pub log: Arc<Mutex<Vec<(String, String)>>>,
    pub budget: usize,
}

impl Clone for Mock {
    fn clone(&self) -> Self {
        Mock {
            world: self.world.clone(),
            sel: self.sel.clone(),
            upstream_ad: self.upstream_ad,
            plan: self.plan.clone(),
            user: self.user,
            log: self.log.clone(),
            budget: self.budget,
        }
    }
}

impl Mock {
    pub fn w(&self) -> &Arc<World> {
        if self.sel.load(std::sync::atomic::Ordering::SeqCst) == 0 { &self.world.0 } else { &self.world.1 }
    }

    pub fn respond(&self, qname: &N, qtype: Rtype) -> Message<Bytes> {
        let mut resp = self.w().answer(qname, qtype);
        let plan = self.plan.lock().unwrap().clone();
        for st in &plan {
            let hit = if self.user {
                st.t == "ANS"
            } else {
                st.t == format!("{}", qtype) && self.w().zone(&st.z).apex == *qname
            };
            if hit {
                apply(&self.w(), &mut resp, st);
            }
        }
        if std::env::var("VERIF_DEBUG").is_ok() {
            eprintln!("--- {} {} rcode={}", qname, qtype, resp.rcode);
            for st in &resp.sets {
                for r in st.recs.iter().chain(st.sigs.iter()) {
                    eprintln!("  [{} {}] {}", st.role, st.sec, r);
                }
            }
        }
        let m = resp.to_message(qname, qtype);
        if self.upstream_ad {
            let mut v = m.as_slice().to_vec();
            v[3] |= 0x20;
            return Message::from_octets(Bytes::from(v)).unwrap();
        }
        m
    }

    fn label(&self, qname: &N) -> String {
        match self.w().zone_by_apex(qname) {
            Some(z) => z.id.to_string(),
            None => "name".to_string(),
        }
    }
}

#[derive(Debug)]
struct Ready(Option<Result<Message<Bytes>, ReqError>>);

impl GetResponse for Ready {
    fn get_response(
        &mut self,
    ) -> Pin<Box<dyn Future<Output = Result<Message<Bytes>, ReqError>> + Send + Sync + '_>> {
        let r = self.0.take().unwrap_or(Err(ReqError::ConnectionClosed));
        Box::pin(async move {
            tokio::task::yield_now().await;
            r
        })
    }
}

impl<Octs: AsRef<[u8]> + Clone + std::fmt::Debug + Send + Sync + 'static>
    SendRequest<RequestMessage<Octs>> for Mock
where
    Octs: domain::dep::octseq::Octets,
{
    fn send_request(&self, req: RequestMessage<Octs>) -> Box<dyn GetResponse + Send + Sync> {
        let m = match req.to_message() {
            Ok(m) => m,
            Err(e) => return Box::new(Ready(Some(Err(e)))),
        };
        let q = m.sole_question().expect("question");
        let qname: N = q.qname().to_name();
        let qtype = q.qtype();
        {
            let mut l = self.log.lock().unwrap();
            l.push((format!("{}", qtype), self.label(&qname)));
            if l.len() > self.budget {
                // loop guard: the validator keeps fetching
                return Box::new(Ready(Some(Err(ReqError::ConnectionClosed))));
            }
        }
        let mut msg = self.respond(&qname, qtype);
        msg.header_mut_id(m.header().id());
        Box::new(Ready(Some(Ok(msg))))
    }
}

trait SetId {
    fn header_mut_id(&mut self, id: u16);
}
impl SetId for Message<Bytes> {
    fn header_mut_id(&mut self, id: u16) {
        let mut v = self.as_slice().to_vec();
        v[0] = (id >> 8) as u8;
        v[1] = id as u8;
        *self = Message::from_octets(Bytes::from(v)).unwrap();
    }
}

//------------ Scenario runner -------------------------------------------------

pub struct Worlds(HashMap<(Shape, Denial), (Arc<World>, Arc<World>)>);

impl Worlds {
    pub fn new() -> Self {
        Worlds(HashMap::new())
    }
    /// the world and its re-salted twin; rebuilt when the (shifted) clock has
    /// moved more than six hours past the build time
    pub fn pair(&mut self, s: Shape, d: Denial) -> (Arc<World>, Arc<World>) {
        let now = Timestamp::now().into_int();
        let stale = self.0.get(&(s, d)).map(|p| now.wrapping_sub(p.0.now) > 6 * 3600).unwrap_or(false);
        if stale {
            self.0.remove(&(s, d));
        }
        self.0
            .entry((s, d))
            .or_insert_with(|| {
                let a = World::build(s, d);
                let b = a.resalted(s, d);
                (Arc::new(a), Arc::new(b))
            })
            .clone()
    }
    pub fn get(&mut self, s: Shape, d: Denial) -> Arc<World> {
        self.pair(s, d).0
    }
}

pub fn question(w: &World, qk: &str, plan: &[AdvStep]) -> (N, Rtype) {
    let leaf = &w.zone(w.leaf).apex;
    if plan.iter().any(|s| s.act == "CnameLoop") {
        return (sub("loop1", leaf), Rtype::A);
    }
    if let Some(s) = plan.iter().find(|s| s.act.starts_with("ReplayAncestor")) {
        return (sub("x", &ancestor_of(&s.act, leaf)), Rtype::A);
    }
    if let Some(s) = plan.iter().find(|s| s.act.starts_with("MisapplyWildcard")) {
        return (misapply_names(&s.act, leaf).0, Rtype::A);
    }
    if plan.iter().any(|s| s.act.starts_with("DenyExisting")) {
        return (sub("www", leaf), Rtype::A);
    }
    match qk {
        "positive" => (sub("www", leaf), Rtype::A),
        "wildcard" => (sub("x.wild", leaf), Rtype::A),
        "nodata" => (sub("www", leaf), Rtype::AAAA),
        "wilddeep" => (sub("a.b.wild", leaf), Rtype::A),
        "wildsub" => (sub("x.i.wild", leaf), Rtype::A),
        "wcname" => (sub("x.wc", leaf), Rtype::A),
        "wcnodata" => (sub("x.wild", leaf), Rtype::AAAA),
        "nxdomain" => (sub("nx", leaf), Rtype::A),
        "nxdeep" => (sub("nx", &w.mid()), Rtype::A),
        "cname1" => (sub("alias", leaf), Rtype::A),
        "cname2" => (sub("alias2", leaf), Rtype::A),
        "ds" => (leaf.clone(), Rtype::DS),
        "dname" => (sub("host.dn", leaf), Rtype::A),
        "dnamex" => (sub("www.dn", &w.zone("plain").apex), Rtype::A),
        _ => panic!("qk {}", qk),
    }
}

/// (name the wildcard is replayed at, the wildcard, its type)
fn misapply_names(act: &str, leaf: &N) -> (N, N, Rtype) {
    let star = sub("*.wild", leaf);
    match act.strip_prefix("MisapplyWildcard").unwrap_or("") {
        "CnameBelow" => (sub("nx.m.wc", leaf), sub("*.wc", leaf), Rtype::CNAME),
        // an existing name (without the type)
        "At" => (sub("m.wild", leaf), star, Rtype::A),
        // below the existing name m.wild (NSEC m.wild -> ...: the closest
        // encloser comes from the covering record's owner)
        "Below" => (sub("nx.m.wild", leaf), star, Rtype::A),
        // below the empty non-terminal e.wild (NSEC *.wild -> x.e.wild: the
        // closest encloser comes from the covering record's next name)
        "BelowEnt" => (sub("nx.e.wild", leaf), star, Rtype::A),
        // two labels below the existing name
        "BelowDeep" => (sub("a.b.m.wild", leaf), star, Rtype::A),
        // where the inner wildcard *.i.wild applies
        "Outer" => (sub("x.i.wild", leaf), star, Rtype::A),
        other => panic!("MisapplyWildcard variant {}", other),
    }
}

/// the delegation point / DNAME owner whose genuine proof record is replayed
fn ancestor_of(act: &str, leaf: &N) -> N {
    if act.ends_with("Dname") {
        sub("dn", leaf)
    } else if act.ends_with("CutIns") {
        sub("ideleg", leaf)
    } else {
        sub("deleg", leaf)
    }
}

/// The trust anchors of a scenario, built through the route `anc` names
/// (Validator.tla: AnchorForms).
pub fn anchors_for(w: &World, anc: &str) -> TrustAnchors {
    match anc {
        "" | "dnskey" => TrustAnchors::from_u8(w.anchor.as_bytes()).expect("anchor"),
        // the root key as DS record (Node::trust_anchor -> has_ds)
        "ds" => TrustAnchors::from_u8(w.anchor_ds.as_bytes()).expect("anchor"),
        "add_u8" => {
            let mut t = TrustAnchors::empty();
            t.add_u8(w.anchor.as_bytes()).expect("anchor");
            t
        }
        "reader" => TrustAnchors::from_reader(std::io::Cursor::new(w.anchor.as_bytes().to_vec()))
            .expect("anchor"),
        // several anchors and several records per anchor: an anchor for a
        // name outside this world, then for the root a DS of a key that
        // signs nothing and the genuine DNSKEY
        "multi" => {
            let mut t = TrustAnchors::from_u8(
                format!("{}{}", w.anchor_unrelated, w.anchor_stale_ds).as_bytes(),
            )
            .expect("anchor");
            t.add_u8(w.anchor.as_bytes()).expect("anchor");
            t
        }
        // root and tld: the longest match wins
        "both" => TrustAnchors::from_u8(format!("{}{}", w.anchor, w.anchor_tld).as_bytes())
            .expect("anchor"),
        "none" => TrustAnchors::empty(),
        // only for the sibling zone: nothing above the names in question
        "elsewhere" => TrustAnchors::from_u8(w.anchor_other.as_bytes()).expect("anchor"),
        other => panic!("anchor form {}", other),
    }
}

/// The validator configuration `cfg` names (Validator.tla: Cfgs); None: the
/// context is made with ValidationContext::new.
pub fn vconfig_for(cfg: &str) -> Option<VConfig> {
    use std::time::Duration;
    let mut c = VConfig::new();
    match cfg {
        "" | "default" => return None,
        "new" => {}
        // every setter with its documented default
        "setdef" => {
            c.set_max_node_cache(100);
            c.set_max_nsec3_cache(100);
            c.set_max_isig_cache(1000);
            c.set_max_usig_cache(1000);
            c.set_max_validity(Duration::from_secs(604800));
            c.set_max_bogus_validity(Duration::from_secs(30));
            c.set_bad_signatures(1);
            c.set_nsec3_iter_insecure(100);
            c.set_nsec3_iter_bogus(500);
            c.set_max_cname_dname(11);
        }
        // smallest caches, shortest validities: must be invisible
        "tiny" => {
            c.set_max_node_cache(1);
            c.set_max_nsec3_cache(1);
            c.set_max_isig_cache(1);
            c.set_max_usig_cache(1);
            c.set_max_validity(Duration::from_secs(60));
            c.set_max_bogus_validity(Duration::from_secs(1));
        }
        "bad2" => c.set_bad_signatures(2),
        "cname1" => c.set_max_cname_dname(1),
        "iterins0" => c.set_nsec3_iter_insecure(0),
        "iterbog0" => c.set_nsec3_iter_bogus(0),
        other => panic!("config {}", other),
    }
    Some(c)
}

pub fn context_for(w: &World, anc: &str, cfg: &str, upstream: Mock) -> ValidationContext<Mock> {
    let ta = anchors_for(w, anc);
    match vconfig_for(cfg) {
        None => ValidationContext::new(ta, upstream),
        Some(c) => ValidationContext::with_config(ta, upstream, c),
    }
}

fn state_str(s: ValidationState) -> &'static str {
    match s {
        ValidationState::Secure => "Secure",
        ValidationState::Insecure => "Insecure",
        ValidationState::Bogus => "Bogus",
        ValidationState::Indeterminate => "Indeterminate",
    }
}

pub struct Outcome {
    /// a rewrite found nothing to act on (see NOOP_REWRITE)
    pub noop: bool,
    pub obs: Value,
    pub fetches: Vec<(String, String)>,
    pub conn: Option<Value>,
}

/// Run one scenario against the real validator.
///
/// `runs` (optional): several validations on ONE ValidationContext, each with
/// its own adversary plan; `qks[i]` (optional): the query kind of run i (else
/// the same question every time); `tps[i]` / `rss[i]`: before run i time
/// passes (10 s on both clocks) / the zones are re-salted.
pub fn run_scenario(worlds: &mut Worlds, input: &Value, with_conn: bool) -> Outcome {
    let shape = parse_shape(input["shape"].as_str().unwrap_or(""));
    let denial = parse_denial(input["denial"].as_str().unwrap_or(""));
    let qk = input["qk"].as_str().unwrap_or("").to_string();
    let plan = parse_adv(&input["adv"]);
    let anc = input["anc"].as_str().unwrap_or("").to_string();
    let cfg = input["cfg"].as_str().unwrap_or("").to_string();
    let pair = worlds.pair(shape, denial);
    let w = pair.0.clone();
    NOOP_REWRITE.store(false, std::sync::atomic::Ordering::SeqCst);
    SCN_NOW.store(Timestamp::now().into_int(), std::sync::atomic::Ordering::SeqCst);
    *SHORT_SIGS.lock().unwrap() = None;
    let (qname, qtype) = question(&w, &qk, &plan);
    let log = Arc::new(Mutex::new(Vec::new()));
    let plans: Vec<Vec<AdvStep>> = match input["runs"].as_array() {
        Some(r) => r.iter().map(parse_adv).collect(),
        None => vec![plan.clone()],
    };
    let flag = |k: &str, i: usize| input[k].as_array().and_then(|a| a.get(i)).and_then(|v| v.as_bool()).unwrap_or(false);
    let cur = Arc::new(Mutex::new(Vec::new()));
    let sel = Arc::new(std::sync::atomic::AtomicUsize::new(0));
    let infra = Mock {
        world: pair.clone(), sel: sel.clone(), upstream_ad: false,
        plan: cur.clone(), user: false, log: log.clone(), budget: 60 * plans.len(),
    };
    let user = Mock {
        world: pair.clone(), sel: sel.clone(), upstream_ad: false,
        plan: cur.clone(), user: true, log: Arc::new(Mutex::new(Vec::new())), budget: 60,
    };
    let rt = tokio::runtime::Builder::new_current_thread().enable_time().build().expect("rt");
    let res = std::panic::catch_unwind(std::panic::AssertUnwindSafe(|| {
        rt.block_on(async {
            let vc = context_for(&w, &anc, &cfg, infra.clone());
            let mut last = json!({"state": "none"});
            for (i, pl) in plans.iter().enumerate() {
                if flag("tps", i) {
                    advance_clock(10);
                }
                if flag("rss", i) {
                    sel.fetch_xor(1, std::sync::atomic::Ordering::SeqCst);
                }
                *cur.lock().unwrap() = pl.clone();
                let (qname, qtype) = match input["qks"].as_array().and_then(|a| a.get(i)).and_then(|v| v.as_str()) {
                    Some(k) => question(&w, k, pl),
                    None => (qname.clone(), qtype),
                };
                let mut msg = user.respond(&qname, qtype);
                let r = tokio::time::timeout(
                    std::time::Duration::from_secs(10),
                    vc.validate_msg::<Bytes, Vec<u8>>(&mut msg),
                )
                .await;
                last = match r {
                    Err(_) => json!({"hang": true}),
                    Ok(Err(e)) => json!({"error": format!("{}", e)}),
                    Ok(Ok((st, _ede))) => json!({"state": state_str(st)}),
                };
                if last.get("state").is_none() {
                    break;
                }
            }
            last
        })
    }));
    let mut obs = match res {
        Ok(v) => v,
        Err(_) => json!({"panic": true}),
    };
    let fetches = log.lock().unwrap().clone();
    if fetches.len() > 60 * plans.len() {
        obs = json!({"hang": true});
    }
    let mut conn = None;
    if with_conn && plans.len() == 1 {
        conn = Some(run_conn(&pair, &plan, &qname, qtype, false, false, true, &anc, &cfg));
    }
    let noop = NOOP_REWRITE.load(std::sync::atomic::Ordering::SeqCst);
    Outcome { noop, obs, fetches, conn }
}

/// The same scenario through net::client::validator::Connection with the
/// request flags CD / AD / DO: what the application sees - SERVFAIL?, the AD
/// bit, and whether DNSSEC records (RRSIG/NSEC/NSEC3) are still present.  The
/// upstream answers with the AD bit set.
pub fn run_conn(
    pair: &(Arc<World>, Arc<World>),
    plan: &[AdvStep],
    qname: &N,
    qtype: Rtype,
    cd: bool,
    ad: bool,
    dnssec_ok: bool,
    anc: &str,
    cfg: &str,
) -> Value {
    use domain::net::client::validator::Connection;
    let w = pair.0.clone();
    let log = Arc::new(Mutex::new(Vec::new()));
    let cur = Arc::new(Mutex::new(plan.to_vec()));
    let sel = Arc::new(std::sync::atomic::AtomicUsize::new(0));
    let infra = Mock { world: pair.clone(), sel: sel.clone(), upstream_ad: true, plan: cur.clone(), user: false, log: log.clone(), budget: 60 };
    let user = Mock { world: pair.clone(), sel: sel.clone(), upstream_ad: true, plan: cur.clone(), user: true, log: log.clone(), budget: 60 };
    let rt = tokio::runtime::Builder::new_current_thread().enable_time().build().expect("rt");
    let res = std::panic::catch_unwind(std::panic::AssertUnwindSafe(|| {
        rt.block_on(async {
            let vc = Arc::new(context_for(&w, anc, cfg, infra.clone()));
            // the two constructors of Connection are routes to the same thing
            let conn: Connection<Mock, Vec<u8>, Mock> = if cd == ad {
                Connection::new(user.clone(), vc)
            } else {
                Connection::with_config(user.clone(), vc, domain::net::client::validator::Config::new())
            };
            let mut mb = MessageBuilder::new_vec();
            mb.header_mut().set_rd(true);
            mb.header_mut().set_cd(cd);
            mb.header_mut().set_ad(ad);
            let mut q = mb.question();
            q.push((qname, qtype)).unwrap();
            let mut req = RequestMessage::new(q.into_message()).expect("req");
            if dnssec_ok {
                req.set_dnssec_ok(true);
            }
            let mut r = SendRequest::send_request(&conn, req);
            match tokio::time::timeout(std::time::Duration::from_secs(10), r.get_response()).await {
                Err(_) => json!({"hang": true}),
                Ok(Err(e)) => json!({"error": format!("{}", e)}),
                Ok(Ok(m)) => {
                    let mut dnssec = false;
                    for sec in [m.answer(), m.authority()] {
                        if let Ok(sec) = sec {
                            for rr in sec.flatten() {
                                if matches!(rr.rtype(), Rtype::RRSIG | Rtype::NSEC | Rtype::NSEC3) && rr.rtype() != qtype {
                                    dnssec = true;
                                }
                            }
                        }
                    }
                    json!({"servfail": m.header().rcode() == Rcode::SERVFAIL,
                           "ad": m.header().ad(), "dnssec": dnssec})
                }
            }
        })
    }));
    res.unwrap_or_else(|_| json!({"panic": true}))
}

/// the 8 request flag combinations
pub fn conn_matrix(pair: &(Arc<World>, Arc<World>), plan: &[AdvStep], qname: &N, qtype: Rtype, anc: &str, cfg: &str) -> Vec<(bool, bool, bool, Value)> {
    let mut v = Vec::new();
    for cd in [false, true] {
        for ad in [false, true] {
            for d in [false, true] {
                v.push((cd, ad, d, run_conn(pair, plan, qname, qtype, cd, ad, d, anc, cfg)));
            }
        }
    }
    v
}

pub fn unused(_: &Label) {}
