//! X01 harness support: the real `KeySet` under a virtual wall clock.
//!
//! Included by `replay_keyset` / `record_keyset` with `#[path]` (it defines
//! the process-wide `clock_gettime` symbol, so it must be linked exactly once
//! per executable and must NOT become part of the library crate).
//!
//! `keyset.rs` reads `SystemTime::now()` (through `UnixTime::now()` and
//! `UnixTime::elapsed()`); there is no time argument.  The executable
//! interposes libc's `clock_gettime`: CLOCK_REALTIME is frozen at a virtual
//! instant that only moves when the harness performs the model's `tick`.
//! One tick is `TICK_S` seconds; a model TTL of n is reported to the key set
//! as n * TICK_S seconds, a model age of n is a timestamp n ticks in the past.
//!
//! Projection (the specification's state): for every key the two key states,
//! the ages of the three timestamps that guards read (saturating at the
//! model's MaxTTL), whether published / withdrawn are set, tag and decoupled;
//! for every roll type its state and ttl; `KeySet::actions` for every type.
//! The projection is taken from the serde serialization (the `available`
//! flag has no getter); arbitrary model states are injected through serde
//! deserialization.

#![allow(dead_code)]

use domain::base::iana::SecurityAlgorithm;
use domain::base::Name;
use domain::dnssec::sign::keys::keyset::{Available, KeySet, RollType, UnixTime};
use serde_json::{json, Map, Value};
use std::panic::{catch_unwind, AssertUnwindSafe};
use std::str::FromStr;
use std::sync::atomic::{AtomicBool, AtomicI64, Ordering};
use std::time::{Duration, SystemTime, UNIX_EPOCH};

//------------ the clock ------------------------------------------------------

static FROZEN: AtomicBool = AtomicBool::new(false);
static REAL_S: AtomicI64 = AtomicI64::new(0);

#[repr(C)]
pub struct Timespec {
    tv_sec: i64,
    tv_nsec: i64,
}

extern "C" {
    fn syscall(num: i64, ...) -> i64;
}

const SYS_CLOCK_GETTIME: i64 = 228; // x86_64
const CLOCK_REALTIME: i32 = 0;

/// Interposed libc symbol: std's `SystemTime::now()` ends up here.
#[no_mangle]
pub unsafe extern "C" fn clock_gettime(clk: i32, ts: *mut Timespec) -> i32 {
    if clk == CLOCK_REALTIME && FROZEN.load(Ordering::SeqCst) {
        (*ts).tv_sec = REAL_S.load(Ordering::SeqCst);
        (*ts).tv_nsec = 0;
        return 0;
    }
    syscall(SYS_CLOCK_GETTIME, clk as i64, ts) as i32
}

pub const TICK_S: u64 = 1000;
const NOW0: i64 = 1_800_000_000;

/// Freeze CLOCK_REALTIME.  Returns false if the interposition does not work
/// (then nothing that depends on time may be judged).
pub fn freeze_clock() -> bool {
    REAL_S.store(NOW0, Ordering::SeqCst);
    FROZEN.store(true, Ordering::SeqCst);
    let a = SystemTime::now();
    std::thread::sleep(Duration::from_millis(2));
    let b = SystemTime::now();
    advance(1);
    let c = SystemTime::now();
    let ok = a == b
        && c.duration_since(b).ok() == Some(Duration::from_secs(TICK_S))
        && Duration::from(UnixTime::now()) == Duration::from_secs(now_s() as u64);
    ok
}

pub fn advance(ticks: u64) {
    REAL_S.fetch_add((ticks * TICK_S) as i64, Ordering::SeqCst);
}

pub fn now_s() -> i64 {
    REAL_S.load(Ordering::SeqCst)
}

fn time_ago(age: u64) -> UnixTime {
    UnixTime::try_from(SystemTime::now() - Duration::from_secs(age * TICK_S)).expect("time")
}

//------------ names ----------------------------------------------------------

pub const ROLL_TYPES: [&str; 6] = [
    "KskRoll",
    "KskDoubleDsRoll",
    "ZskRoll",
    "ZskDoubleSignatureRoll",
    "CskRoll",
    "AlgorithmRoll",
];

pub fn roll_type(s: &str) -> RollType {
    match s {
        "KskRoll" => RollType::KskRoll,
        "KskDoubleDsRoll" => RollType::KskDoubleDsRoll,
        "ZskRoll" => RollType::ZskRoll,
        "ZskDoubleSignatureRoll" => RollType::ZskDoubleSignatureRoll,
        "CskRoll" => RollType::CskRoll,
        _ => RollType::AlgorithmRoll,
    }
}

/// The type of a key follows from its name (as in KeySetNames.tla).
pub fn ktype(k: &str) -> &'static str {
    match k.as_bytes().first() {
        Some(b'k') => "ksk",
        Some(b'z') => "zsk",
        Some(b'c') => "csk",
        _ => "inc",
    }
}

pub fn kalg_num(k: &str) -> u8 {
    if k.ends_with('9') {
        15
    } else {
        13
    }
}

fn kalg(k: &str) -> SecurityAlgorithm {
    if k.ends_with('9') {
        SecurityAlgorithm::ED25519
    } else {
        SecurityAlgorithm::ECDSAP256SHA256
    }
}

pub fn new_keyset() -> KeySet {
    KeySet::new(Name::from_str("example.com").unwrap())
}

//------------ projection -----------------------------------------------------

fn st0() -> Value {
    json!({"avail": false, "old": false, "signer": false, "present": false, "at_parent": false})
}

fn st_of(v: &Value) -> Value {
    json!({"avail": v["available"], "old": v["old"], "signer": v["signer"],
           "present": v["present"], "at_parent": v["at_parent"]})
}

fn age_of(ts: &Value, maxttl: u64) -> Value {
    if ts.is_null() {
        return json!(-1);
    }
    let secs = ts["secs"].as_i64().unwrap_or(0);
    let d = now_s() - secs;
    if d < 0 {
        return json!(0);
    }
    json!(((d as u64) / TICK_S).min(maxttl))
}

/// The specification's view of the key set.
pub fn project(ks: &KeySet, maxttl: u64) -> Value {
    let ser = serde_json::to_value(ks).expect("serialize");
    let mut keys = Map::new();
    if let Some(km) = ser["keys"].as_object() {
        for (name, k) in km {
            let kt = &k["keytype"];
            let (tn, a, b) = if let Some(s) = kt.get("Ksk") {
                ("ksk", st_of(s), st0())
            } else if let Some(s) = kt.get("Zsk") {
                ("zsk", st_of(s), st0())
            } else if let Some(s) = kt.get("Include") {
                ("inc", st_of(s), st0())
            } else {
                ("csk", st_of(&kt["Csk"][0]), st_of(&kt["Csk"][1]))
            };
            let ts = &k["timestamps"];
            let mut o = json!({
                "a": a, "b": b,
                "vis": age_of(&ts["visible"], maxttl),
                "dsv": age_of(&ts["ds_visible"], maxttl),
                "rsv": age_of(&ts["rrsig_visible"], maxttl),
                "pubd": !ts["published"].is_null(),
                "wd": !ts["withdrawn"].is_null(),
                "tag": k["key_tag"],
                "dec": k["decoupled"],
            });
            // the model has no field for these: they must be what the name says
            if tn != ktype(name) || k["algorithm"] != json!(kalg_num(name)) {
                o["unexpected_type_or_algorithm"] = json!([tn, k["algorithm"]]);
            }
            // cross-check the getters against the serialization
            if let Some(real) = ks.keys().get(name) {
                use domain::dnssec::sign::keys::keyset::KeyType;
                let ga = match real.keytype() {
                    KeyType::Ksk(s) | KeyType::Zsk(s) | KeyType::Include(s) | KeyType::Csk(s, _) => {
                        json!([s.old(), s.signer(), s.present(), s.at_parent(), s.stale()])
                    }
                };
                let sa = &o["a"];
                let stale = sa["old"] == json!(true)
                    && sa["signer"] == json!(false)
                    && sa["present"] == json!(false)
                    && sa["at_parent"] == json!(false);
                if ga != json!([sa["old"], sa["signer"], sa["present"], sa["at_parent"], stale])
                    || real.key_tag() as u64 != k["key_tag"].as_u64().unwrap_or(99999)
                    || real.decoupled() != k["decoupled"].as_bool().unwrap_or(false)
                    || real.timestamps().visible().is_some() == ts["visible"].is_null()
                {
                    o["getter_mismatch"] = ga;
                }
            }
            keys.insert(name.clone(), o);
        }
    }
    let mut rolls = Map::new();
    let mut acts = Map::new();
    let rs = &ser["rollstates"];
    for rt in ROLL_TYPES {
        let v = match rs.get(rt) {
            None => json!({"st": "Idle", "ttl": 0}),
            Some(Value::String(s)) => match s.as_str() {
                "Propagation1" => json!({"st": "P1", "ttl": 0}),
                "Propagation2" => json!({"st": "P2", "ttl": 0}),
                "Done" => json!({"st": "Done", "ttl": 0}),
                other => json!({"st": other, "ttl": 0}),
            },
            Some(o) => {
                if let Some(t) = o.get("CacheExpire1") {
                    json!({"st": "CE1", "ttl": t.as_u64().unwrap_or(0) / TICK_S})
                } else if let Some(t) = o.get("CacheExpire2") {
                    json!({"st": "CE2", "ttl": t.as_u64().unwrap_or(0) / TICK_S})
                } else {
                    json!({"st": o.to_string(), "ttl": 0})
                }
            }
        };
        rolls.insert(rt.to_string(), v);
        let a: Vec<Value> = ks
            .actions(roll_type(rt))
            .iter()
            .map(|x| json!(format!("{:?}", x)))
            .collect();
        acts.insert(rt.to_string(), Value::Array(a));
    }
    // rollstates() must agree with the serialization
    if ks.rollstates().len() != rs.as_object().map(|o| o.len()).unwrap_or(0) {
        rolls.insert("rollstates_mismatch".into(), json!(true));
    }
    json!({"keys": Value::Object(keys), "rolls": Value::Object(rolls), "acts": Value::Object(acts)})
}

/// TLC prints an empty function as `[]`; an absent key map is `{}`.
pub fn norm_state(v: &Value) -> Value {
    let mut v = v.clone();
    if v["keys"].is_array() {
        v["keys"] = json!({});
    }
    v
}

//------------ injection ------------------------------------------------------

fn ts_json(age: &Value) -> Value {
    match age.as_i64() {
        Some(a) if a >= 0 => json!({"secs": now_s() - a * TICK_S as i64, "nanos": 0}),
        _ => Value::Null,
    }
}

fn st_ser(s: &Value) -> Value {
    json!({"available": s["avail"], "old": s["old"], "signer": s["signer"],
           "present": s["present"], "at_parent": s["at_parent"]})
}

/// Build a real `KeySet` in the model state `pre` ({keys, rolls}).
pub fn inject(pre: &Value) -> KeySet {
    let mut keys = Map::new();
    if let Some(km) = pre["keys"].as_object() {
        for (name, k) in km {
            let kt = match ktype(name) {
                "ksk" => json!({"Ksk": st_ser(&k["a"])}),
                "zsk" => json!({"Zsk": st_ser(&k["a"])}),
                "inc" => json!({"Include": st_ser(&k["a"])}),
                _ => json!({"Csk": [st_ser(&k["a"]), st_ser(&k["b"])]}),
            };
            let now = json!({"secs": now_s(), "nanos": 0});
            keys.insert(
                name.clone(),
                json!({
                    "privref": null,
                    "decoupled": k["dec"],
                    "keytype": kt,
                    "algorithm": kalg_num(name),
                    "key_tag": k["tag"],
                    "timestamps": {
                        "creation": now,
                        "published": if k["pubd"] == json!(true) { now.clone() } else { Value::Null },
                        "visible": ts_json(&k["vis"]),
                        "ds_visible": ts_json(&k["dsv"]),
                        "rrsig_visible": ts_json(&k["rsv"]),
                        "withdrawn": if k["wd"] == json!(true) { now.clone() } else { Value::Null },
                    }
                }),
            );
        }
    }
    let mut rs = Map::new();
    if let Some(rm) = pre["rolls"].as_object() {
        for (rt, r) in rm {
            let ttl = r["ttl"].as_u64().unwrap_or(0) * TICK_S;
            let v = match r["st"].as_str().unwrap_or("Idle") {
                "Idle" => continue,
                "P1" => json!("Propagation1"),
                "CE1" => json!({"CacheExpire1": ttl}),
                "P2" => json!("Propagation2"),
                "CE2" => json!({"CacheExpire2": ttl}),
                _ => json!("Done"),
            };
            rs.insert(rt.clone(), v);
        }
    }
    let doc = json!({"name": "example.com", "keys": Value::Object(keys), "rollstates": Value::Object(rs)});
    serde_json::from_value(doc).expect("deserialize injected key set")
}

//------------ the public calls -----------------------------------------------

fn strs(v: &Value) -> Vec<String> {
    v.as_array()
        .map(|a| a.iter().map(|x| x.as_str().unwrap_or("").to_string()).collect())
        .unwrap_or_default()
}

fn err_name<E: std::fmt::Debug>(e: &E) -> String {
    let s = format!("{:?}", e);
    s.split('(').next().unwrap_or("").to_string()
}

fn unit(r: Result<(), domain::dnssec::sign::keys::keyset::Error>) -> (String, Vec<String>) {
    match r {
        Ok(()) => ("ok".into(), vec![]),
        Err(e) => (err_name(&e), vec![]),
    }
}

fn acts(
    r: Result<Vec<domain::dnssec::sign::keys::keyset::Action>, domain::dnssec::sign::keys::keyset::Error>,
) -> (String, Vec<String>) {
    match r {
        Ok(a) => ("ok".into(), a.iter().map(|x| format!("{:?}", x)).collect()),
        Err(e) => (err_name(&e), vec![]),
    }
}

/// Perform one model operation on the real key set.  Returns (res, returned
/// action list); a panic is the result "panic".
pub fn apply(ks: &mut KeySet, op: &Value) -> (String, Vec<String>) {
    let name = op["op"].as_str().unwrap_or("");
    if name == "tick" {
        advance(1);
        return ("ok".into(), vec![]);
    }
    let r = catch_unwind(AssertUnwindSafe(|| {
        let k = op["k"].as_str().unwrap_or("");
        let v = op["v"].as_bool().unwrap_or(false);
        let rt = roll_type(op["rt"].as_str().unwrap_or(""));
        let ttl = (op["ttl"].as_u64().unwrap_or(0) * TICK_S) as u32;
        match name {
            "add" => {
                let tag = op["tag"].as_u64().unwrap_or(0) as u16;
                let avail = op["avail"].as_bool().unwrap_or(true);
                let av = || if avail { Available::Available } else { Available::NotAvailable };
                unit(match ktype(k) {
                    "ksk" => ks.add_key_ksk(k.into(), None, kalg(k), tag, UnixTime::now(), av()),
                    "zsk" => ks.add_key_zsk(k.into(), None, kalg(k), tag, UnixTime::now(), av()),
                    "csk" => ks.add_key_csk(k.into(), None, kalg(k), tag, UnixTime::now(), av()),
                    _ => ks.add_public_key(k.into(), kalg(k), tag, UnixTime::now(), avail),
                })
            }
            "set_present" => unit(ks.set_present(k, v)),
            "set_signer" => unit(ks.set_signer(k, v)),
            "set_at_parent" => unit(ks.set_at_parent(k, v)),
            "set_stale" => unit(ks.set_stale(k)),
            "set_decoupled" => unit(ks.set_decoupled(k, v)),
            "set_visible" => unit(ks.set_visible(k, time_ago(op["age"].as_u64().unwrap_or(0)))),
            "set_ds_visible" => unit(ks.set_ds_visible(k, time_ago(op["age"].as_u64().unwrap_or(0)))),
            "set_rrsig_visible" => {
                unit(ks.set_rrsig_visible(k, time_ago(op["age"].as_u64().unwrap_or(0))))
            }
            "delete_key" => unit(ks.delete_key(k)),
            "start_roll" => {
                let old = strs(&op["old"]);
                let new = strs(&op["new"]);
                let o: Vec<&str> = old.iter().map(|s| s.as_str()).collect();
                let n: Vec<&str> = new.iter().map(|s| s.as_str()).collect();
                acts(ks.start_roll(rt, &o, &n))
            }
            "propagation1_complete" => acts(ks.propagation1_complete(rt, ttl)),
            "cache_expired1" => acts(ks.cache_expired1(rt)),
            "propagation2_complete" => acts(ks.propagation2_complete(rt, ttl)),
            "cache_expired2" => acts(ks.cache_expired2(rt)),
            "roll_done" => acts(ks.roll_done(rt)),
            other => (format!("unknown-op:{}", other), vec![]),
        }
    }));
    match r {
        Ok(x) => x,
        Err(_) => ("panic".into(), vec![]),
    }
}

/// The observation after a call, in the shape of the specification's outcome.
pub fn observation(ks: &KeySet, res: &str, ret: &[String], maxttl: u64) -> Value {
    json!({"res": res, "ret": ret, "post": project(ks, maxttl)})
}

/// Does the observation equal the alternative (res "err" = any error)?
/// A refused call carries `"post": "pre"`: the state must be the pre-state.
pub fn matches(obs: &Value, alt: &Value, pre_proj: &Value) -> bool {
    let ar = alt["res"].as_str().unwrap_or("");
    let or = obs["res"].as_str().unwrap_or("");
    let res_ok = if ar == "err" { or != "ok" && or != "panic" } else { ar == or };
    let post_ok = if alt["post"] == json!("pre") {
        &obs["post"] == pre_proj
    } else {
        obs["post"] == norm_state(&alt["post"])
    };
    res_ok && obs["ret"] == alt["ret"] && post_ok
}
