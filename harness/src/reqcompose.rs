//! X15: binding of spec/ReqCompose.tla to domain::net::client::request
//! (RequestMessage, RequestMessageMulti).  Shared by replay_reqcompose
//! (S->I) and record_reqcompose (I->S).
//!
//! Abstract values (JSON): header {id,qr,op,aa,tc,rd,ra,z,ad,cd,rc}; name =
//! list of labels (lists of octets); question [name,type,class]; record
//! {o,t,c,ttl:[hi,lo],rd:[octets, uncompressed]} (+ bad in sources); source
//! {h,q,an,ns,ar,comp,cut}.

use bytes::BytesMut;
use domain::base::iana::{Class, Opcode, OptionCode, Rcode};
use domain::base::message_builder::{
    MessageBuilder, StaticCompressor, StreamTarget, TreeCompressor,
};
use domain::base::name::{Name, ParsedName, ToName};
use domain::base::opt::UnknownOptData;
use domain::base::rdata::ComposeRecordData;
use domain::base::wire::Composer;
use domain::base::{Header, Message, Question, Record, Rtype, Ttl, UnknownRecordData};
use domain::net::client::request::{
    ComposeRequest, ComposeRequestMulti, RequestMessage, RequestMessageMulti,
};
use domain::rdata::{AllRecordData, Soa};
use octseq::builder::{OctetsBuilder, ShortBuf, Truncate};
use serde_json::{json, Value};

// ------------------------------------------------------------ small helpers

fn u(v: &Value) -> u64 {
    v.as_u64().unwrap_or(0)
}
fn bytes_of(v: &Value) -> Vec<u8> {
    v.as_array()
        .map(|a| a.iter().map(|x| x.as_u64().unwrap_or(0) as u8).collect())
        .unwrap_or_default()
}
fn jbytes(b: &[u8]) -> Value {
    Value::Array(b.iter().map(|x| json!(*x)).collect())
}

/// wire form of a name given as a list of labels
pub fn name_wire(v: &Value) -> Vec<u8> {
    let mut w = vec![];
    if let Some(a) = v.as_array() {
        for l in a {
            let l = bytes_of(l);
            w.push(l.len() as u8);
            w.extend_from_slice(&l);
        }
    }
    w.push(0);
    w
}
pub fn name_of(v: &Value) -> Name<Vec<u8>> {
    Name::from_octets(name_wire(v)).expect("valid name")
}
fn labels_of(n: &impl ToName) -> Value {
    let mut out = vec![];
    for l in n.iter_labels() {
        if !l.is_root() {
            out.push(jbytes(l.as_slice()));
        }
    }
    Value::Array(out)
}

pub fn header_json(h: &Header) -> Value {
    json!({"id": h.id(), "qr": h.qr() as u8, "op": h.opcode().to_int(), "aa": h.aa() as u8,
           "tc": h.tc() as u8, "rd": h.rd() as u8, "ra": h.ra() as u8, "z": h.z() as u8,
           "ad": h.ad() as u8, "cd": h.cd() as u8, "rc": h.rcode().to_int()})
}
pub fn header_set(h: &mut Header, f: &str, v: u64) {
    match f {
        "id" => h.set_id(v as u16),
        "qr" => h.set_qr(v == 1),
        "op" => h.set_opcode(Opcode::from_int(v as u8)),
        "aa" => h.set_aa(v == 1),
        "tc" => h.set_tc(v == 1),
        "rd" => h.set_rd(v == 1),
        "ra" => h.set_ra(v == 1),
        "z" => h.set_z(v == 1),
        "ad" => h.set_ad(v == 1),
        "cd" => h.set_cd(v == 1),
        "rc" => h.set_rcode(Rcode::masked_from_int(v as u8)),
        _ => panic!("unknown header field"),
    }
}
pub const HFIELDS: [&str; 11] = ["id", "qr", "op", "aa", "tc", "rd", "ra", "z", "ad", "cd", "rc"];

// ------------------------------------------------------- building a source

/// names and the rest of an SOA rdata given in uncompressed wire form
fn soa_of(rd: &[u8]) -> Soa<Name<Vec<u8>>> {
    fn take_name(rd: &[u8], pos: &mut usize) -> Name<Vec<u8>> {
        let start = *pos;
        while rd[*pos] != 0 {
            *pos += 1 + rd[*pos] as usize;
        }
        *pos += 1;
        Name::from_octets(rd[start..*pos].to_vec()).expect("name in soa")
    }
    let mut pos = 0;
    let m = take_name(rd, &mut pos);
    let r = take_name(rd, &mut pos);
    let w = |i: usize| u32::from_be_bytes([rd[pos + i], rd[pos + i + 1], rd[pos + i + 2], rd[pos + i + 3]]);
    Soa::new(
        m,
        r,
        w(0).into(),
        Ttl::from_secs(w(4)),
        Ttl::from_secs(w(8)),
        Ttl::from_secs(w(12)),
        Ttl::from_secs(w(16)),
    )
}

fn ttl_of(v: &Value) -> Ttl {
    Ttl::from_secs(((u(&v[0]) as u32) << 16) | u(&v[1]) as u32)
}

fn fill<T: Composer>(target: T, src: &Value) -> T {
    let mut mb = MessageBuilder::from_target(target).ok().expect("target");
    for f in HFIELDS {
        header_set(mb.header_mut(), f, u(&src["h"][f]));
    }
    let mut qb = mb.question();
    for q in src["q"].as_array().unwrap() {
        qb.push(Question::new(
            name_of(&q[0]),
            Rtype::from_int(u(&q[1]) as u16),
            Class::from_int(u(&q[2]) as u16),
        ))
        .expect("push question");
    }
    macro_rules! recs {
        ($b:expr, $sec:expr) => {
            for r in src[$sec].as_array().unwrap() {
                let owner = name_of(&r["o"]);
                let class = Class::from_int(u(&r["c"]) as u16);
                let ttl = ttl_of(&r["ttl"]);
                let rd = bytes_of(&r["rd"]);
                if r["bad"] != r["rd"] {
                    // typed rdata: a compressing target compresses the names in it
                    $b.push(Record::new(owner, class, ttl, soa_of(&rd))).expect("push");
                } else {
                    let data =
                        UnknownRecordData::from_octets(Rtype::from_int(u(&r["t"]) as u16), rd)
                            .expect("rdata");
                    $b.push(Record::new(owner, class, ttl, data)).expect("push");
                }
            }
        };
    }
    let mut ab = qb.answer();
    recs!(ab, "an");
    let mut nb = ab.authority();
    recs!(nb, "ns");
    let mut xb = nb.additional();
    recs!(xb, "ar");
    xb.finish()
}

pub fn build_source(src: &Value) -> Vec<u8> {
    let mut v = if u(&src["comp"]) == 1 {
        fill(StaticCompressor::new(Vec::new()), src).into_target()
    } else {
        fill(Vec::new(), src)
    };
    if u(&src["cut"]) == 1 {
        let ar = u16::from_be_bytes([v[10], v[11]]).wrapping_add(1);
        v[10..12].copy_from_slice(&ar.to_be_bytes());
    }
    v
}

// --------------------------------------------------------------- projection

/// The abstract message of an octet string: header, counts, questions,
/// records with uncompressed rdata (`[-1]` where the rdata cannot be read).
/// "bad" if the sections cannot be walked.
pub fn project(octets: &[u8]) -> Value {
    fn inner(octets: &[u8]) -> Option<Value> {
        let msg = Message::from_slice(octets).ok()?;
        let c = msg.header_counts();
        let mut qs = vec![];
        let qsec = msg.question();
        let mut qsec2 = qsec;
        for q in &mut qsec2 {
            let q = q.ok()?;
            qs.push(json!([labels_of(q.qname()), q.qtype().to_int(), q.qclass().to_int()]));
        }
        let mut secs: Vec<Value> = vec![];
        let mut sec = qsec2.answer().ok()?;
        loop {
            let mut rs = vec![];
            for rr in &mut sec {
                let rr = rr.ok()?;
                let ttl = rr.ttl().as_secs();
                let rd = match rr.to_record::<AllRecordData<_, ParsedName<_>>>() {
                    Ok(Some(rec)) => {
                        let mut v = Vec::new();
                        match rec.data().compose_rdata(&mut v) {
                            Ok(()) => jbytes(&v),
                            Err(_) => json!([-1]),
                        }
                    }
                    _ => json!([-1]),
                };
                rs.push(json!({"o": labels_of(&rr.owner()), "t": rr.rtype().to_int(),
                               "c": rr.class().to_int(), "ttl": [ttl >> 16, ttl & 0xffff], "rd": rd}));
            }
            secs.push(Value::Array(rs));
            match sec.next_section().ok()? {
                Some(n) => sec = n,
                None => break,
            }
        }
        if secs.len() != 3 {
            return None;
        }
        let ar = secs.pop().unwrap();
        let ns = secs.pop().unwrap();
        let an = secs.pop().unwrap();
        Some(json!({"h": header_json(&msg.header()),
                    "cnt": [c.qdcount(), c.ancount(), c.nscount(), c.arcount()],
                    "q": qs, "an": an, "ns": ns, "ar": ar}))
    }
    inner(octets).unwrap_or(json!("bad"))
}

// -------------------------------------------------- a target with a capacity

#[derive(Clone, Debug, Default)]
pub struct LimitedVec {
    pub v: Vec<u8>,
    pub limit: usize,
}
impl OctetsBuilder for LimitedVec {
    type AppendError = ShortBuf;
    fn append_slice(&mut self, slice: &[u8]) -> Result<(), ShortBuf> {
        if self.v.len() + slice.len() > self.limit {
            return Err(ShortBuf);
        }
        self.v.extend_from_slice(slice);
        Ok(())
    }
}
impl Truncate for LimitedVec {
    fn truncate(&mut self, len: usize) {
        self.v.truncate(len)
    }
}
impl AsRef<[u8]> for LimitedVec {
    fn as_ref(&self) -> &[u8] {
        &self.v
    }
}
impl AsMut<[u8]> for LimitedVec {
    fn as_mut(&mut self) -> &mut [u8] {
        &mut self.v
    }
}
impl Composer for LimitedVec {}

// ------------------------------------------------------------ the request

#[derive(Clone, Debug)]
pub enum Req {
    Single(RequestMessage<Vec<u8>>),
    Multi(RequestMessageMulti<Vec<u8>>),
}

macro_rules! both {
    ($self:expr, $r:ident => $e:expr) => {
        match $self {
            Req::Single($r) => $e,
            Req::Multi($r) => $e,
        }
    };
}

impl Req {
    pub fn new(kind: &str, octets: Vec<u8>) -> Option<Req> {
        let msg = Message::from_octets(octets).ok()?;
        if kind == "single" {
            RequestMessage::new(msg).ok().map(Req::Single)
        } else {
            RequestMessageMulti::new(msg).ok().map(Req::Multi)
        }
    }

    /// one setter call of the specification; the result is always "ok"
    pub fn apply(&mut self, op: &Value) {
        match op["k"].as_str().unwrap_or("") {
            "hset" => {
                let f = op["f"].as_str().unwrap();
                let v = u(&op["v"]);
                both!(self, r => header_set(r.header_mut(), f, v))
            }
            "udp" => {
                let v = u(&op["v"]) as u16;
                both!(self, r => r.set_udp_payload_size(v))
            }
            "do" => {
                let v = u(&op["v"]) == 1;
                both!(self, r => r.set_dnssec_ok(v))
            }
            "addopt" => {
                let o = UnknownOptData::new(
                    OptionCode::from_int(u(&op["code"]) as u16),
                    bytes_of(&op["data"]),
                )
                .expect("option");
                both!(self, r => r.add_opt(&o).expect("add_opt"))
            }
            _ => panic!("unknown op"),
        }
    }

    fn to_message(&self) -> Option<Vec<u8>> {
        both!(self, r => r.to_message().ok().map(|m| m.into_octets()))
    }
    fn to_vec(&self) -> Option<Option<Vec<u8>>> {
        match self {
            Req::Single(r) => Some(r.to_vec().ok()),
            Req::Multi(_) => None,
        }
    }
    fn append<T: Composer>(&self, t: T) -> Option<T> {
        both!(self, r => r.append_message(t).ok().map(|b| b.finish()))
    }
    /// the way the stream transport calls it: a borrowed target, the
    /// returned builder dropped
    fn append_ref<T: Composer>(&self, t: &mut T) -> bool {
        both!(self, r => r.append_message(t).is_ok())
    }
    fn header(&self) -> Header {
        both!(self, r => *r.header())
    }
    fn dnssec_ok(&self) -> bool {
        both!(self, r => r.dnssec_ok())
    }
    fn is_answer(&self, octets: &[u8]) -> bool {
        let m = Message::from_slice(octets).expect("response of 12 octets");
        both!(self, r => r.is_answer(m))
    }
}

/// every compose route once: (name, compressing, octets or None)
fn routes(req: &Req) -> Vec<(&'static str, bool, Option<Vec<u8>>)> {
    let mut out = vec![];
    out.push(("to_message", true, req.to_message()));
    if let Some(v) = req.to_vec() {
        out.push(("to_vec", true, v));
    }
    out.push(("static", true, req.append(StaticCompressor::new(Vec::new())).map(|t| t.into_target())));
    out.push(("tree", true, req.append(TreeCompressor::new(Vec::new())).map(|t| t.into_target())));
    out.push(("vec", false, req.append(Vec::new())));
    out.push(("bytes", false, req.append(BytesMut::new()).map(|b| b.to_vec())));
    out.push(("stream", false, req.append(StreamTarget::new_vec()).map(|t| t.as_dgram_slice().to_vec())));
    let mut st = StreamTarget::new_vec();
    let ok = req.append_ref(&mut st);
    out.push(("stream_ref", false, if ok {
        let s = st.as_stream_slice();
        // the length prefix covers the message
        if s.len() >= 2 && u16::from_be_bytes([s[0], s[1]]) as usize == s.len() - 2 {
            Some(s[2..].to_vec())
        } else {
            Some(vec![0xff])
        }
    } else { None }));
    out
}

fn group(rs: &[(&'static str, bool, Option<Vec<u8>>)], compressing: bool, notes: &mut Vec<String>) -> Value {
    let mine: Vec<_> = rs.iter().filter(|r| r.1 == compressing).collect();
    let first = &mine[0];
    let p0 = first.2.as_ref().map(|o| project(o));
    for r in &mine[1..] {
        let p = r.2.as_ref().map(|o| project(o));
        if p != p0 {
            notes.push(format!("route {} differs from {}", r.0, first.0));
        }
    }
    match p0 {
        None => json!([]),
        Some(m) => json!([m]),
    }
}

/// Everything the executor reads after a call (the specification's Proj):
/// the message of the compressing and of the plain routes, the getters,
/// is_answer on the response family.  Route disagreement, a second compose
/// with other octets, a changed request and limited targets that do not
/// behave are reported under "notes" (absent when there are none).
pub fn observe(req: &Req, src_id: u16, questions: &Value) -> Value {
    let before = format!("{:?}", req);
    let r1 = routes(req);
    let r2 = routes(req);
    let mut notes = vec![];
    for (a, b) in r1.iter().zip(r2.iter()) {
        if a.2 != b.2 {
            notes.push(format!("route {} is not idempotent", a.0));
        }
    }
    // same compressor, same octets
    let oct = |n: &str| r1.iter().find(|r| r.0 == n).map(|r| r.2.clone());
    if let Some(v) = oct("to_vec") {
        if v != oct("to_message").unwrap() {
            notes.push("to_vec octets differ from to_message".into());
        }
    }
    if oct("static") != oct("to_message") {
        notes.push("append(StaticCompressor) octets differ from to_message".into());
    }
    for n in ["bytes", "stream", "stream_ref"] {
        if oct(n) != oct("vec") {
            notes.push(format!("append({}) octets differ from append(Vec)", n));
        }
    }
    // limited targets: fail iff the octets do not fit, else the same octets
    match oct("vec").unwrap() {
        Some(full) => {
            let n = full.len();
            let mut limits = vec![0, 11, 12, 13, n / 2, n.saturating_sub(12), n.saturating_sub(1), n, n + 1];
            limits.extend((12..n).step_by(7));
            for l in limits {
                let got = req.append(LimitedVec { v: vec![], limit: l }).map(|t| t.v);
                let want = if l >= n { Some(full.clone()) } else { None };
                if got != want {
                    notes.push(format!("capacity {} of {}: {}", l, n, if got.is_some() { "composed" } else { "failed" }));
                }
            }
        }
        None => {
            if req.append(LimitedVec { v: vec![], limit: 4096 }).is_some() {
                notes.push("limited target composed what Vec did not".into());
            }
        }
    }
    let comp = group(&r1, true, &mut notes);
    let plain = group(&r1, false, &mut notes);
    let after = format!("{:?}", req);
    if before != after {
        notes.push("composing changed the request".into());
    }
    let h = req.header();
    let ans: Vec<Value> = responses(h.id(), src_id, questions)
        .iter()
        .map(|o| json!(req.is_answer(o) as u8))
        .collect();
    let mut out = json!({"comp": comp, "plain": plain, "h": header_json(&h),
                         "do": req.dnssec_ok() as u8, "ans": ans});
    if !notes.is_empty() {
        notes.truncate(4);
        out["notes"] = json!(notes);
    }
    out
}

// ------------------------------------------------ the response family (P4)

fn resp(id: u16, qr: bool, rcode: u8, qd: u16, cnt: [u16; 3], items: &[Value], err: bool) -> Vec<u8> {
    let mut v = vec![];
    v.extend_from_slice(&id.to_be_bytes());
    v.push(if qr { 0x80 } else { 0 });
    v.push(rcode & 15);
    v.extend_from_slice(&qd.to_be_bytes());
    for c in cnt {
        v.extend_from_slice(&c.to_be_bytes());
    }
    for q in items {
        v.extend_from_slice(&name_wire(&q[0]));
        v.extend_from_slice(&(u(&q[1]) as u16).to_be_bytes());
        v.extend_from_slice(&(u(&q[2]) as u16).to_be_bytes());
    }
    if err {
        // the beginning of a label that is not there
        v.push(0x3f);
    }
    v
}

/// ReqCompose.tla's Responses(st), in the same order
pub fn responses(id: u16, src_id: u16, questions: &Value) -> Vec<Vec<u8>> {
    let q: Vec<Value> = questions.as_array().cloned().unwrap_or_default();
    let n = q.len() as u16;
    let up: Vec<Value> = q
        .iter()
        .map(|x| {
            let labels: Vec<Value> = x[0]
                .as_array()
                .unwrap()
                .iter()
                .map(|l| jbytes(&bytes_of(l).iter().map(|b| if (97..=122).contains(b) { b - 32 } else { *b }).collect::<Vec<u8>>()))
                .collect();
            json!([labels, x[1], x[2]])
        })
        .collect();
    let mut retype = q.clone();
    if !retype.is_empty() {
        retype[0] = json!([q[0][0], (u(&q[0][1]) + 1), q[0][2]]);
    }
    let fewer: Vec<Value> = if q.is_empty() { vec![] } else { q[..q.len() - 1].to_vec() };
    let z = [0u16, 0, 0];
    vec![
        resp(id, true, 0, n, z, &q, false),
        resp(id, false, 0, n, z, &q, false),
        resp(id.wrapping_add(1), true, 0, n, z, &q, false),
        resp(src_id, true, 0, n, z, &q, false),
        resp(id, true, 0, n, [1, 0, 0], &up, false),
        resp(id, true, 2, 0, z, &[], false),
        resp(id, true, 2, 0, [0, 0, 1], &[], false),
        resp(id, true, 0, 0, z, &[], false),
        resp(id, true, 0, n, z, &retype, false),
        resp(id, true, 0, n + 1, z, &q, true),
        resp(id, true, 3, n + 1, z, &q, true),
        resp(id, true, 0, fewer.len() as u16, z, &fewer, false),
    ]
}
