//! C16 support code shared by replay_server / record_server: a controllable
//! mock byte stream (read side fed by the harness, write side gated by
//! "credits"), a mock listener for `StreamServer`, a mock datagram socket for
//! `DgramServer`, a scripted `Service` whose completion order is controlled by
//! the harness, and decoders for what the servers wrote.
//!
//! Included with `#[path = "../server.rs"] mod server;` by the two binaries.
#![allow(dead_code)]

use std::collections::{HashMap, VecDeque};
use std::future::{ready, Future, Ready};
use std::io;
use std::net::SocketAddr;
use std::pin::Pin;
use std::sync::atomic::{AtomicU64, Ordering};
use std::sync::{Arc, Mutex};
use std::task::{Context, Poll, Waker};

use domain::base::iana::{Class, Rcode};
use domain::base::message_builder::AdditionalBuilder;
use domain::base::name::Name;
use domain::base::record::Ttl;
use domain::base::{Message, MessageBuilder, Rtype, StreamTarget};
use domain::net::server::message::{Request, TransportSpecificContext};
use domain::net::server::middleware::cookies::CookiesMiddlewareSvc;
use domain::net::server::middleware::edns::EdnsMiddlewareSvc;
use domain::net::server::middleware::mandatory::MandatoryMiddlewareSvc;
use domain::net::server::service::{
    CallResult, Service, ServiceError, ServiceFeedback, ServiceResult,
};
use domain::net::server::sock::{AsyncAccept, AsyncDgramSock};
use domain::net::server::util::mk_builder_for_target;
use domain::base::rdata::UnknownRecordData;
use domain::rdata::A;
use serde_json::{json, Value};
use tokio::io::{AsyncRead, AsyncWrite, ReadBuf};

//------------ panic accounting ----------------------------------------------

pub static PANICS: AtomicU64 = AtomicU64::new(0);

/// Count every panic anywhere in the process (tokio catches panics of
/// spawned tasks, so this is the only way to see them) and stay quiet.
pub fn count_panics() {
    std::panic::set_hook(Box::new(|_| {
        PANICS.fetch_add(1, Ordering::SeqCst);
    }));
}

pub fn panics() -> u64 {
    PANICS.load(Ordering::SeqCst)
}

//------------ MockIo --------------------------------------------------------

#[derive(Default)]
pub struct IoState {
    rbuf: VecDeque<u8>,
    aborted: bool,
    rwaker: Option<Waker>,
    /// number of whole `poll_write` calls that may still complete; `None` =
    /// unlimited (a peer that always reads)
    credit: Option<usize>,
    wwaker: Option<Waker>,
    pub written: Vec<u8>,
    pub shutdown: bool,
    /// the server dropped its end without ever running a connection on it
    /// (failed setup, refused at the connection limit) or after closing
    pub dropped: bool,
    /// largest number of octets one `poll_write` accepts (0 = everything):
    /// a transport with a small send buffer
    chunk: usize,
    /// framing of what has been accepted so far, so that a credit is
    /// charged once per frame however many partial writes it takes
    whdr: Vec<u8>,
    wleft: usize,
}

/// The server's end of a mock connection.
pub struct MockIo(Arc<Mutex<IoState>>);

/// The harness's handle on the same connection.
#[derive(Clone)]
pub struct IoHandle(Arc<Mutex<IoState>>);

pub fn mock_io(credit: Option<usize>) -> (MockIo, IoHandle) {
    mock_io_chunked(credit, 0)
}

pub fn mock_io_chunked(credit: Option<usize>, chunk: usize) -> (MockIo, IoHandle) {
    let st = Arc::new(Mutex::new(IoState {
        credit,
        chunk,
        ..Default::default()
    }));
    (MockIo(st.clone()), IoHandle(st))
}

impl IoHandle {
    pub fn push(&self, bytes: &[u8]) {
        let mut s = self.0.lock().unwrap();
        s.rbuf.extend(bytes.iter().copied());
        if let Some(w) = s.rwaker.take() {
            w.wake();
        }
    }
    /// The peer goes away: reads see end-of-stream, writes fail.
    pub fn abort(&self) {
        let mut s = self.0.lock().unwrap();
        s.aborted = true;
        if let Some(w) = s.rwaker.take() {
            w.wake();
        }
        if let Some(w) = s.wwaker.take() {
            w.wake();
        }
    }
    pub fn add_credit(&self, n: usize) {
        let mut s = self.0.lock().unwrap();
        if let Some(c) = s.credit.as_mut() {
            *c += n;
        }
        if let Some(w) = s.wwaker.take() {
            w.wake();
        }
    }
    pub fn written(&self) -> Vec<u8> {
        self.0.lock().unwrap().written.clone()
    }
    pub fn is_shutdown(&self) -> bool {
        self.0.lock().unwrap().shutdown
    }
    /// what the peer sees as "the server closed the connection"
    pub fn is_closed(&self) -> bool {
        let s = self.0.lock().unwrap();
        s.shutdown || s.dropped
    }
}

impl Drop for MockIo {
    fn drop(&mut self) {
        self.0.lock().unwrap().dropped = true;
    }
}

impl AsyncRead for MockIo {
    fn poll_read(
        self: Pin<&mut Self>,
        cx: &mut Context<'_>,
        buf: &mut ReadBuf<'_>,
    ) -> Poll<io::Result<()>> {
        let mut s = self.0.lock().unwrap();
        if !s.rbuf.is_empty() {
            let n = buf.remaining().min(s.rbuf.len());
            let chunk: Vec<u8> = s.rbuf.drain(..n).collect();
            buf.put_slice(&chunk);
            return Poll::Ready(Ok(()));
        }
        if s.aborted {
            // zero bytes = end of stream
            return Poll::Ready(Ok(()));
        }
        s.rwaker = Some(cx.waker().clone());
        Poll::Pending
    }
}

impl AsyncWrite for MockIo {
    fn poll_write(
        self: Pin<&mut Self>,
        cx: &mut Context<'_>,
        buf: &[u8],
    ) -> Poll<io::Result<usize>> {
        let mut s = self.0.lock().unwrap();
        if s.aborted {
            return Poll::Ready(Err(io::ErrorKind::BrokenPipe.into()));
        }
        if buf.is_empty() {
            return Poll::Ready(Ok(0));
        }
        // a credit is needed to begin a frame, not to continue one
        if s.whdr.is_empty() && s.wleft == 0 {
            match s.credit {
                None => {}
                Some(0) => {
                    s.wwaker = Some(cx.waker().clone());
                    return Poll::Pending;
                }
                Some(ref mut c) => *c -= 1,
            }
        }
        let n = if s.chunk == 0 { buf.len() } else { buf.len().min(s.chunk) };
        for &b in &buf[..n] {
            if s.wleft > 0 {
                s.wleft -= 1;
            } else {
                s.whdr.push(b);
                if s.whdr.len() == 2 {
                    s.wleft = u16::from_be_bytes([s.whdr[0], s.whdr[1]]) as usize;
                    s.whdr.clear();
                }
            }
        }
        s.written.extend_from_slice(&buf[..n]);
        Poll::Ready(Ok(n))
    }
    fn poll_flush(self: Pin<&mut Self>, _: &mut Context<'_>) -> Poll<io::Result<()>> {
        Poll::Ready(Ok(()))
    }
    fn poll_shutdown(self: Pin<&mut Self>, _: &mut Context<'_>) -> Poll<io::Result<()>> {
        self.0.lock().unwrap().shutdown = true;
        Poll::Ready(Ok(()))
    }
}

//------------ MockListener --------------------------------------------------

#[derive(Default)]
pub struct ListenState {
    pending: VecDeque<(Option<MockIo>, SocketAddr, bool)>,
    waker: Option<Waker>,
}

#[derive(Clone, Default)]
pub struct MockListener(Arc<Mutex<ListenState>>);

impl MockListener {
    pub fn connect(&self, io: MockIo, addr: SocketAddr) {
        self.connect_with(io, addr, true)
    }
    /// `setup_ok = false`: the connection is accepted but its setup future
    /// (think TLS handshake) fails
    pub fn connect_with(&self, io: MockIo, addr: SocketAddr, setup_ok: bool) {
        let mut s = self.0.lock().unwrap();
        s.pending.push_back((Some(io), addr, setup_ok));
        if let Some(w) = s.waker.take() {
            w.wake();
        }
    }
}

impl MockListener {
    /// The next `poll_accept` fails (ECONNABORTED / EMFILE ...); the listener
    /// itself stays healthy.
    pub fn accept_error(&self) {
        let mut s = self.0.lock().unwrap();
        s.pending.push_back((None, "0.0.0.0:0".parse().unwrap(), false));
        if let Some(w) = s.waker.take() {
            w.wake();
        }
    }
}

impl AsyncAccept for MockListener {
    type Error = io::Error;
    type StreamType = MockIo;
    type Future = Ready<Result<MockIo, io::Error>>;

    fn poll_accept(
        &self,
        cx: &mut Context<'_>,
    ) -> Poll<io::Result<(Self::Future, SocketAddr)>> {
        let mut s = self.0.lock().unwrap();
        match s.pending.pop_front() {
            Some((None, _, _)) => Poll::Ready(Err(io::Error::new(
                io::ErrorKind::ConnectionAborted,
                "mock accept error",
            ))),
            Some((Some(io), addr, true)) => Poll::Ready(Ok((ready(Ok(io)), addr))),
            Some((Some(io), addr, false)) => {
                drop(io);
                Poll::Ready(Ok((
                    ready(Err(io::Error::new(io::ErrorKind::InvalidData, "handshake failed"))),
                    addr,
                )))
            }
            None => {
                s.waker = Some(cx.waker().clone());
                Poll::Pending
            }
        }
    }
}

//------------ MockDgram -----------------------------------------------------

#[derive(Default)]
pub struct DgramState {
    inq: VecDeque<(Vec<u8>, SocketAddr)>,
    rwaker: Option<Waker>,
    pub sent: Vec<(Vec<u8>, SocketAddr)>,
    /// pending false-positive readiness events (readable, then WouldBlock)
    spurious: usize,
    /// number of following sends that fail with a transient error
    send_fail: usize,
}

#[derive(Clone, Default)]
pub struct MockDgram(pub Arc<Mutex<DgramState>>);

impl MockDgram {
    pub fn deliver(&self, data: &[u8], from: SocketAddr) {
        let mut s = self.0.lock().unwrap();
        s.inq.push_back((data.to_vec(), from));
        if let Some(w) = s.rwaker.take() {
            w.wake();
        }
    }
    /// The socket reports readable although nothing can be received.
    pub fn spurious_readable(&self) {
        let mut s = self.0.lock().unwrap();
        s.spurious += 1;
        if let Some(w) = s.rwaker.take() {
            w.wake();
        }
    }
    /// The next send fails (ENOBUFS, EPERM from a firewall ...).
    pub fn fail_next_send(&self) {
        self.0.lock().unwrap().send_fail += 1;
    }
    pub fn sent(&self) -> Vec<(Vec<u8>, SocketAddr)> {
        self.0.lock().unwrap().sent.clone()
    }
}

struct Readable(Arc<Mutex<DgramState>>);
impl Future for Readable {
    type Output = io::Result<()>;
    fn poll(self: Pin<&mut Self>, cx: &mut Context<'_>) -> Poll<Self::Output> {
        let mut s = self.0.lock().unwrap();
        if s.inq.is_empty() && s.spurious == 0 {
            s.rwaker = Some(cx.waker().clone());
            Poll::Pending
        } else {
            Poll::Ready(Ok(()))
        }
    }
}

impl AsyncDgramSock for MockDgram {
    fn poll_send_to(
        &self,
        _cx: &mut Context<'_>,
        data: &[u8],
        dest: &SocketAddr,
    ) -> Poll<io::Result<usize>> {
        let mut s = self.0.lock().unwrap();
        if s.send_fail > 0 {
            s.send_fail -= 1;
            return Poll::Ready(Err(io::Error::new(io::ErrorKind::Other, "mock send error")));
        }
        s.sent.push((data.to_vec(), *dest));
        Poll::Ready(Ok(data.len()))
    }
    fn readable(&self) -> Pin<Box<dyn Future<Output = io::Result<()>> + '_ + Send>> {
        Box::pin(Readable(self.0.clone()))
    }
    fn try_recv_buf_from(&self, buf: &mut ReadBuf<'_>) -> io::Result<(usize, SocketAddr)> {
        let mut s = self.0.lock().unwrap();
        if s.spurious > 0 {
            s.spurious -= 1;
            return Err(io::ErrorKind::WouldBlock.into());
        }
        match s.inq.pop_front() {
            None => Err(io::ErrorKind::WouldBlock.into()),
            Some((d, a)) => {
                // like the OS: a datagram longer than the buffer is cut
                let n = d.len().min(buf.remaining());
                buf.put_slice(&d[..n]);
                Ok((n, a))
            }
        }
    }
}

//------------ scripted service ----------------------------------------------

#[derive(Clone, Debug)]
pub enum Item {
    /// a response of `len` octets in total of which `optlen` are an OPT
    /// record (0 = none); `len == 0` means "smallest answer with marker k"
    Resp {
        len: usize,
        optlen: usize,
        fb: Option<ServiceFeedback>,
    },
    Fail,
    /// a stream item without a response, only feedback
    Feedback(ServiceFeedback),
}

#[derive(Default)]
pub struct Script {
    pub items: VecDeque<Item>,
    pub permits: usize,
    pub yielded: u8,
    waker: Option<Waker>,
}

#[derive(Default)]
pub struct SvcState {
    pub scripts: HashMap<u16, Script>,
    /// (id, reserved bytes seen by the service, udp hint seen by the service)
    pub arrived: Vec<(u16, u16, Option<u16>)>,
    /// requests without script are echoed (one minimal answer)
    pub echo: bool,
}

#[derive(Clone, Default)]
pub struct ScriptSvc(pub Arc<Mutex<SvcState>>);

impl ScriptSvc {
    pub fn echo() -> Self {
        let s = ScriptSvc::default();
        s.0.lock().unwrap().echo = true;
        s
    }
    pub fn script(&self, id: u16, items: Vec<Item>, permits: usize) {
        self.0.lock().unwrap().scripts.insert(
            id,
            Script {
                items: items.into(),
                permits,
                ..Default::default()
            },
        );
    }
    pub fn release(&self, id: u16) {
        let mut s = self.0.lock().unwrap();
        if let Some(sc) = s.scripts.get_mut(&id) {
            sc.permits += 1;
            if let Some(w) = sc.waker.take() {
                w.wake();
            }
        }
    }
}

pub struct ScriptStream {
    svc: ScriptSvc,
    id: u16,
    msg: Arc<Message<Vec<u8>>>,
    echoed: bool,
}

/// Build an answer of exactly `len` octets (when feasible) for `msg`:
/// header + question + A record 10.0.0.k + filler record + OPT(optlen).
/// The header ID is deliberately *not* the request's: stamping it is the
/// mandatory middleware's job.
pub fn build_answer(
    msg: &Message<Vec<u8>>,
    k: u8,
    len: usize,
    optlen: usize,
    wrong_id: bool,
) -> Result<AdditionalBuilder<StreamTarget<Vec<u8>>>, ServiceError> {
    let builder = mk_builder_for_target::<Vec<u8>>();
    let mut ans = builder.start_answer(msg, Rcode::NOERROR)?;
    if wrong_id {
        ans.header_mut().set_id(0xdead);
    }
    let qlen = msg.as_slice().len().min(
        // question section length = first-answer offset - 12; recompute from
        // the builder instead: what start_answer copied
        usize::MAX,
    );
    let _ = qlen;
    let base = ans.as_slice().len(); // 12 + question
    ans.push((Name::root_ref(), Class::IN, Ttl::from_secs(0), A::from_octets(10, 0, 0, k)))?;
    let have = base + 15 + optlen;
    if len > have {
        let mut fill = len - have;
        // filler records: 11 octets of overhead each, at most 60000 of data
        while fill > 0 {
            if fill < 11 {
                // cannot hit the size exactly; the case generator avoids this
                break;
            }
            let n = (fill - 11).min(60000);
            let data = vec![0xAAu8; n];
            let rd = UnknownRecordData::from_octets(Rtype::from_int(65280), data)
                .map_err(|_| ServiceError::InternalError)?;
            ans.push((Name::root_ref(), Class::IN, Ttl::from_secs(0), rd))?;
            fill -= 11 + n;
        }
    }
    let mut add = ans.additional();
    if optlen >= 11 {
        let pad = optlen - 11;
        add.opt(|o| {
            if pad >= 4 {
                o.padding((pad - 4) as u16)?;
            }
            Ok(())
        })?;
    }
    Ok(add)
}

impl futures_util::stream::Stream for ScriptStream {
    type Item = ServiceResult<Vec<u8>>;
    fn poll_next(mut self: Pin<&mut Self>, cx: &mut Context<'_>) -> Poll<Option<Self::Item>> {
        let svc = self.svc.clone();
        let mut s = svc.0.lock().unwrap();
        let echo = s.echo;
        let id = self.id;
        match s.scripts.get_mut(&id) {
            None => {
                if echo && !self.echoed {
                    drop(s);
                    self.echoed = true;
                    let r = build_answer(&self.msg, 1, 0, 0, true).map(CallResult::new);
                    return Poll::Ready(Some(r));
                }
                Poll::Ready(None)
            }
            Some(sc) => {
                if sc.items.is_empty() {
                    return Poll::Ready(None);
                }
                if sc.permits == 0 {
                    sc.waker = Some(cx.waker().clone());
                    return Poll::Pending;
                }
                sc.permits -= 1;
                let item = sc.items.pop_front().unwrap();
                match item {
                    Item::Fail => Poll::Ready(Some(Err(ServiceError::InternalError))),
                    Item::Feedback(fb) => Poll::Ready(Some(Ok(CallResult::feedback_only(fb)))),
                    Item::Resp { len, optlen, fb } => {
                        sc.yielded += 1;
                        let k = sc.yielded;
                        drop(s);
                        let r = build_answer(&self.msg, k, len, optlen, true).map(|b| {
                            let cr = CallResult::new(b);
                            match fb {
                                Some(f) => cr.with_feedback(f),
                                None => cr,
                            }
                        });
                        Poll::Ready(Some(r))
                    }
                }
            }
        }
    }
}

impl Service<Vec<u8>, ()> for ScriptSvc {
    type Target = Vec<u8>;
    type Stream = ScriptStream;
    type Future = Ready<ScriptStream>;
    fn call(&self, request: Request<Vec<u8>, ()>) -> Self::Future {
        let id = request.message().header().id();
        let hint = match request.transport_ctx() {
            TransportSpecificContext::Udp(c) => c.max_response_size_hint(),
            TransportSpecificContext::NonUdp(_) => None,
        };
        self.0
            .lock()
            .unwrap()
            .arrived
            .push((id, request.num_reserved_bytes(), hint));
        ready(ScriptStream {
            svc: self.clone(),
            id,
            msg: request.message().clone(),
            echoed: false,
        })
    }
}

pub type Stack = MandatoryMiddlewareSvc<
    Vec<u8>,
    EdnsMiddlewareSvc<Vec<u8>, CookiesMiddlewareSvc<Vec<u8>, ScriptSvc, ()>, ()>,
    (),
>;

/// The stack the property names: Mandatory(Edns(Cookies(svc))).
pub fn stack(svc: ScriptSvc) -> Stack {
    MandatoryMiddlewareSvc::new(EdnsMiddlewareSvc::new(CookiesMiddlewareSvc::new(
        svc, [7u8; 16],
    )))
}

//------------ request construction ------------------------------------------

/// A query with the given id whose question section is `qlen` octets long
/// (qlen >= 5: root name + type + class; names are built from labels of
/// 'a's), optional OPT with the given UDP payload size.
pub fn mk_query(id: u16, qlen: usize, edns: Option<u16>, qr: bool) -> Vec<u8> {
    mk_query_opts(id, qlen, edns, qr, "none")
}

/// `ropts`: which EDNS options the request's OPT record carries (only with
/// `edns`): none | keepalive | padding | cookie | nsid | unknown | several
pub fn mk_query_opts(id: u16, qlen: usize, edns: Option<u16>, qr: bool, ropts: &str) -> Vec<u8> {
    use domain::base::iana::OptionCode;
    use domain::base::opt::cookie::ClientCookie;
    use domain::base::opt::{Cookie, UnknownOptData};
    let mut name = Vec::new();
    let mut left = qlen.saturating_sub(5); // octets of labels (each 1 + n)
    while left > 0 {
        let n = if left >= 64 { 63 } else { left - 1 };
        if n == 0 {
            // a single octet cannot be a label; the generator avoids this
            break;
        }
        name.push(n as u8);
        name.extend(std::iter::repeat(b'a').take(n));
        left -= 1 + n;
    }
    name.push(0);
    let name: Name<Vec<u8>> = Name::from_octets(name).expect("valid name");
    let mut b = MessageBuilder::new_vec();
    b.header_mut().set_id(id);
    b.header_mut().set_rd(true);
    b.header_mut().set_qr(qr);
    let mut q = b.question();
    q.push((&name, Rtype::A)).unwrap();
    let mut a = q.additional();
    if let Some(sz) = edns {
        a.opt(|o| {
            o.set_udp_payload_size(sz);
            let several = ropts == "several";
            if ropts == "keepalive" || several {
                o.tcp_keepalive(None)?;
            }
            if ropts == "padding" || several {
                o.padding(37)?;
            }
            if ropts == "cookie" || several {
                o.cookie(Cookie::new(ClientCookie::from_octets([1, 2, 3, 4, 5, 6, 7, 8]), None))?;
            }
            if ropts == "nsid" || several {
                o.push(&UnknownOptData::new(OptionCode::NSID, Vec::<u8>::new()).unwrap())?;
            }
            if ropts == "unknown" || several {
                o.push(&UnknownOptData::new(OptionCode::from_int(65001), vec![9u8; 5]).unwrap())?;
            }
            Ok(())
        })
        .unwrap();
    }
    a.finish()
}

pub fn frame(body: &[u8]) -> Vec<u8> {
    let mut v = (body.len() as u16).to_be_bytes().to_vec();
    v.extend_from_slice(body);
    v
}

//------------ decoding what the server wrote --------------------------------

/// Full structural re-parse: every section iterates without error and the
/// counts in the header are the numbers of records found.
pub fn describe(bytes: &[u8]) -> Value {
    let msg = match Message::from_octets(bytes) {
        Ok(m) => m,
        Err(_) => return json!({"parses": false}),
    };
    let h = msg.header();
    let c = msg.header_counts();
    let mut ok = true;
    let mut qn = 0u16;
    let mut qbytes: Vec<u8> = vec![];
    for q in msg.question() {
        match q {
            Ok(q) => {
                qn += 1;
                use domain::base::name::ToName;
                qbytes.extend_from_slice(q.qname().to_name::<Vec<u8>>().as_slice());
                qbytes.extend_from_slice(&q.qtype().to_int().to_be_bytes());
                qbytes.extend_from_slice(&q.qclass().to_int().to_be_bytes());
            }
            Err(_) => ok = false,
        }
    }
    let mut counts = [0u16; 3];
    let mut k = 0u8;
    let mut optn = 0;
    if ok {
        match msg.answer() {
            Err(_) => ok = false,
            Ok(mut sec) => {
                for i in 0..3 {
                    for rr in &mut sec {
                        match rr {
                            Ok(rr) => {
                                counts[i] += 1;
                                if rr.rtype() == Rtype::A {
                                    if let Ok(Some(a)) = rr.to_record::<A>() {
                                        k = a.data().addr().octets()[3];
                                    }
                                }
                                if rr.rtype() == Rtype::OPT {
                                    optn += 1;
                                }
                            }
                            Err(_) => ok = false,
                        }
                    }
                    if i < 2 {
                        match sec.next_section() {
                            Ok(Some(s)) => sec = s,
                            _ => {
                                ok = false;
                                break;
                            }
                        }
                    }
                }
            }
        }
    }
    ok = ok
        && qn == c.qdcount()
        && counts[0] == c.ancount()
        && counts[1] == c.nscount()
        && counts[2] == c.arcount();
    json!({
        "parses": ok,
        "id": h.id(),
        "qr": h.qr(),
        "tc": h.tc(),
        "rd": h.rd(),
        "rcode": h.rcode().to_int(),
        "an": counts[0],
        "ns": counts[1],
        "ar": counts[2],
        "opt": optn,
        "k": k,
        "q": qbytes,
        "len": bytes.len(),
    })
}

/// Split a byte stream into length-prefixed frames; the second value is
/// the number of octets left over (an incomplete frame).
pub fn deframe(bytes: &[u8]) -> (Vec<Vec<u8>>, usize) {
    let mut out = vec![];
    let mut i = 0;
    while bytes.len() - i >= 2 {
        let n = u16::from_be_bytes([bytes[i], bytes[i + 1]]) as usize;
        if bytes.len() - i - 2 < n {
            break;
        }
        out.push(bytes[i + 2..i + 2 + n].to_vec());
        i += 2 + n;
    }
    (out, bytes.len() - i)
}

/// Let every other task run until nothing more happens.  The main task
/// never blocks, so the paused clock never auto-advances.
pub async fn settle() {
    for _ in 0..60 {
        tokio::task::yield_now().await;
    }
}
