//! C16 support code shared by replay_server / record_server: a controllable
//! mock byte stream (read side fed by the harness, write side gated by
//! "credits"), a mock listener for `StreamServer`, a mock datagram socket for
//! `DgramServer`, a scripted `Service` whose completion order is controlled by
//! the harness, and decoders for what the servers wrote.
//!
//! Included with `#[path = "../server.rs"] mod server;` by the two binaries.
#![allow(dead_code)]

use std::collections::{HashMap, VecDeque};
use std::future::{ready, Future, Ready};
use std::io;
use std::net::SocketAddr;
use std::pin::Pin;
use std::sync::atomic::{AtomicU64, Ordering};
use std::sync::{Arc, Mutex};
use std::task::{Context, Poll, Waker};

use bytes::BytesMut;
use domain::base::iana::{Class, Rcode};
use domain::base::message_builder::AdditionalBuilder;
use domain::base::wire::Composer;
use octseq::builder::ShortBuf;
use std::marker::PhantomData;
use std::net::IpAddr;
use domain::base::name::Name;
use domain::base::record::Ttl;
use domain::base::{Message, MessageBuilder, Rtype, StreamTarget};
use domain::net::server::message::{Request, TransportSpecificContext};
use domain::net::server::middleware::cookies::CookiesMiddlewareSvc;
use domain::net::server::middleware::edns::EdnsMiddlewareSvc;
use domain::net::server::middleware::mandatory::MandatoryMiddlewareSvc;
use domain::net::server::service::{
    CallResult, Service, ServiceError, ServiceFeedback, ServiceResult,
};
use domain::net::server::sock::{AsyncAccept, AsyncDgramSock};
use domain::net::server::util::mk_builder_for_target;
use domain::base::rdata::UnknownRecordData;
use domain::rdata::A;
use serde_json::{json, Value};
use tokio::io::{AsyncRead, AsyncWrite, ReadBuf};

//------------ panic accounting ----------------------------------------------

pub static PANICS: AtomicU64 = AtomicU64::new(0);

/// Count every panic anywhere in the process (tokio catches panics of
/// spawned tasks, so this is the only way to see them) and stay quiet.
pub fn count_panics() {
    std::panic::set_hook(Box::new(|_| {
        PANICS.fetch_add(1, Ordering::SeqCst);
    }));
}

pub fn panics() -> u64 {
    PANICS.load(Ordering::SeqCst)
}

//------------ MockIo --------------------------------------------------------

#[derive(Default)]
pub struct IoState {
    rbuf: VecDeque<u8>,
    aborted: bool,
    rwaker: Option<Waker>,
    /// number of whole `poll_write` calls that may still complete; `None` =
    /// unlimited (a peer that always reads)
    credit: Option<usize>,
    wwaker: Option<Waker>,
    pub written: Vec<u8>,
    pub shutdown: bool,
    /// the server dropped its end without ever running a connection on it
    /// (failed setup, refused at the connection limit) or after closing
    pub dropped: bool,
    /// largest number of octets one `poll_write` accepts (0 = everything):
    /// a transport with a small send buffer
    chunk: usize,
    /// framing of what has been accepted so far, so that a credit is
    /// charged once per frame however many partial writes it takes
    whdr: Vec<u8>,
    wleft: usize,
}

/// The server's end of a mock connection.
pub struct MockIo(Arc<Mutex<IoState>>);

/// The harness's handle on the same connection.
#[derive(Clone)]
pub struct IoHandle(Arc<Mutex<IoState>>);

pub fn mock_io(credit: Option<usize>) -> (MockIo, IoHandle) {
    mock_io_chunked(credit, 0)
}

pub fn mock_io_chunked(credit: Option<usize>, chunk: usize) -> (MockIo, IoHandle) {
    let st = Arc::new(Mutex::new(IoState {
        credit,
        chunk,
        ..Default::default()
    }));
    (MockIo(st.clone()), IoHandle(st))
}

impl IoHandle {
    pub fn push(&self, bytes: &[u8]) {
        let mut s = self.0.lock().unwrap();
        s.rbuf.extend(bytes.iter().copied());
        if let Some(w) = s.rwaker.take() {
            w.wake();
        }
    }
    /// The peer goes away: reads see end-of-stream, writes fail.
    pub fn abort(&self) {
        let mut s = self.0.lock().unwrap();
        s.aborted = true;
        if let Some(w) = s.rwaker.take() {
            w.wake();
        }
        if let Some(w) = s.wwaker.take() {
            w.wake();
        }
    }
    pub fn add_credit(&self, n: usize) {
        let mut s = self.0.lock().unwrap();
        if let Some(c) = s.credit.as_mut() {
            *c += n;
        }
        if let Some(w) = s.wwaker.take() {
            w.wake();
        }
    }
    pub fn written(&self) -> Vec<u8> {
        self.0.lock().unwrap().written.clone()
    }
    pub fn is_shutdown(&self) -> bool {
        self.0.lock().unwrap().shutdown
    }
    /// what the peer sees as "the server closed the connection"
    pub fn is_closed(&self) -> bool {
        let s = self.0.lock().unwrap();
        s.shutdown || s.dropped
    }
}

impl Drop for MockIo {
    fn drop(&mut self) {
        self.0.lock().unwrap().dropped = true;
    }
}

impl AsyncRead for MockIo {
    fn poll_read(
        self: Pin<&mut Self>,
        cx: &mut Context<'_>,
        buf: &mut ReadBuf<'_>,
    ) -> Poll<io::Result<()>> {
        let mut s = self.0.lock().unwrap();
        if !s.rbuf.is_empty() {
            let n = buf.remaining().min(s.rbuf.len());
            let chunk: Vec<u8> = s.rbuf.drain(..n).collect();
            buf.put_slice(&chunk);
            return Poll::Ready(Ok(()));
        }
        if s.aborted {
            // zero bytes = end of stream
            return Poll::Ready(Ok(()));
        }
        s.rwaker = Some(cx.waker().clone());
        Poll::Pending
    }
}

impl AsyncWrite for MockIo {
    fn poll_write(
        self: Pin<&mut Self>,
        cx: &mut Context<'_>,
        buf: &[u8],
    ) -> Poll<io::Result<usize>> {
        let mut s = self.0.lock().unwrap();
        if s.aborted {
            return Poll::Ready(Err(io::ErrorKind::BrokenPipe.into()));
        }
        if buf.is_empty() {
            return Poll::Ready(Ok(0));
        }
        // a credit is needed to begin a frame, not to continue one
        if s.whdr.is_empty() && s.wleft == 0 {
            match s.credit {
                None => {}
                Some(0) => {
                    s.wwaker = Some(cx.waker().clone());
                    return Poll::Pending;
                }
                Some(ref mut c) => *c -= 1,
            }
        }
        let n = if s.chunk == 0 { buf.len() } else { buf.len().min(s.chunk) };
        for &b in &buf[..n] {
            if s.wleft > 0 {
                s.wleft -= 1;
            } else {
                s.whdr.push(b);
                if s.whdr.len() == 2 {
                    s.wleft = u16::from_be_bytes([s.whdr[0], s.whdr[1]]) as usize;
                    s.whdr.clear();
                }
            }
        }
        s.written.extend_from_slice(&buf[..n]);
        Poll::Ready(Ok(n))
    }
    fn poll_flush(self: Pin<&mut Self>, _: &mut Context<'_>) -> Poll<io::Result<()>> {
        Poll::Ready(Ok(()))
    }
    fn poll_shutdown(self: Pin<&mut Self>, _: &mut Context<'_>) -> Poll<io::Result<()>> {
        self.0.lock().unwrap().shutdown = true;
        Poll::Ready(Ok(()))
    }
}

//------------ MockListener --------------------------------------------------

#[derive(Default)]
pub struct ListenState {
    pending: VecDeque<(Option<MockIo>, SocketAddr, bool)>,
    waker: Option<Waker>,
}

#[derive(Clone, Default)]
pub struct MockListener(Arc<Mutex<ListenState>>);

impl MockListener {
    pub fn connect(&self, io: MockIo, addr: SocketAddr) {
        self.connect_with(io, addr, true)
    }
    /// `setup_ok = false`: the connection is accepted but its setup future
    /// (think TLS handshake) fails
    pub fn connect_with(&self, io: MockIo, addr: SocketAddr, setup_ok: bool) {
        let mut s = self.0.lock().unwrap();
        s.pending.push_back((Some(io), addr, setup_ok));
        if let Some(w) = s.waker.take() {
            w.wake();
        }
    }
}

impl MockListener {
    /// The next `poll_accept` fails (ECONNABORTED / EMFILE ...); the listener
    /// itself stays healthy.
    pub fn accept_error(&self) {
        let mut s = self.0.lock().unwrap();
        s.pending.push_back((None, "0.0.0.0:0".parse().unwrap(), false));
        if let Some(w) = s.waker.take() {
            w.wake();
        }
    }
}

impl AsyncAccept for MockListener {
    type Error = io::Error;
    type StreamType = MockIo;
    type Future = Ready<Result<MockIo, io::Error>>;

    fn poll_accept(
        &self,
        cx: &mut Context<'_>,
    ) -> Poll<io::Result<(Self::Future, SocketAddr)>> {
        let mut s = self.0.lock().unwrap();
        match s.pending.pop_front() {
            Some((None, _, _)) => Poll::Ready(Err(io::Error::new(
                io::ErrorKind::ConnectionAborted,
                "mock accept error",
            ))),
            Some((Some(io), addr, true)) => Poll::Ready(Ok((ready(Ok(io)), addr))),
            Some((Some(io), addr, false)) => {
                drop(io);
                Poll::Ready(Ok((
                    ready(Err(io::Error::new(io::ErrorKind::InvalidData, "handshake failed"))),
                    addr,
                )))
            }
            None => {
                s.waker = Some(cx.waker().clone());
                Poll::Pending
            }
        }
    }
}

//------------ MockDgram -----------------------------------------------------

#[derive(Default)]
pub struct DgramState {
    inq: VecDeque<(Vec<u8>, SocketAddr)>,
    rwaker: Option<Waker>,
    pub sent: Vec<(Vec<u8>, SocketAddr)>,
    /// pending false-positive readiness events (readable, then WouldBlock)
    spurious: usize,
    /// number of following sends that fail with a transient error
    send_fail: usize,
}

#[derive(Clone, Default)]
pub struct MockDgram(pub Arc<Mutex<DgramState>>);

impl MockDgram {
    pub fn deliver(&self, data: &[u8], from: SocketAddr) {
        let mut s = self.0.lock().unwrap();
        s.inq.push_back((data.to_vec(), from));
        if let Some(w) = s.rwaker.take() {
            w.wake();
        }
    }
    /// The socket reports readable although nothing can be received.
    pub fn spurious_readable(&self) {
        let mut s = self.0.lock().unwrap();
        s.spurious += 1;
        if let Some(w) = s.rwaker.take() {
            w.wake();
        }
    }
    /// The next send fails (ENOBUFS, EPERM from a firewall ...).
    pub fn fail_next_send(&self) {
        self.0.lock().unwrap().send_fail += 1;
    }
    pub fn sent(&self) -> Vec<(Vec<u8>, SocketAddr)> {
        self.0.lock().unwrap().sent.clone()
    }
}

struct Readable(Arc<Mutex<DgramState>>);
impl Future for Readable {
    type Output = io::Result<()>;
    fn poll(self: Pin<&mut Self>, cx: &mut Context<'_>) -> Poll<Self::Output> {
        let mut s = self.0.lock().unwrap();
        if s.inq.is_empty() && s.spurious == 0 {
            s.rwaker = Some(cx.waker().clone());
            Poll::Pending
        } else {
            Poll::Ready(Ok(()))
        }
    }
}

impl AsyncDgramSock for MockDgram {
    fn poll_send_to(
        &self,
        _cx: &mut Context<'_>,
        data: &[u8],
        dest: &SocketAddr,
    ) -> Poll<io::Result<usize>> {
        let mut s = self.0.lock().unwrap();
        if s.send_fail > 0 {
            s.send_fail -= 1;
            return Poll::Ready(Err(io::Error::new(io::ErrorKind::Other, "mock send error")));
        }
        s.sent.push((data.to_vec(), *dest));
        Poll::Ready(Ok(data.len()))
    }
    fn readable(&self) -> Pin<Box<dyn Future<Output = io::Result<()>> + '_ + Send>> {
        Box::pin(Readable(self.0.clone()))
    }
    fn try_recv_buf_from(&self, buf: &mut ReadBuf<'_>) -> io::Result<(usize, SocketAddr)> {
        let mut s = self.0.lock().unwrap();
        if s.spurious > 0 {
            s.spurious -= 1;
            return Err(io::ErrorKind::WouldBlock.into());
        }
        match s.inq.pop_front() {
            None => Err(io::ErrorKind::WouldBlock.into()),
            Some((d, a)) => {
                // like the OS: a datagram longer than the buffer is cut
                let n = d.len().min(buf.remaining());
                buf.put_slice(&d[..n]);
                Ok((n, a))
            }
        }
    }
}

//------------ scripted service ----------------------------------------------

/// How the scripted service assembles one answer (Server.tla part 1c): the
/// abstract response (total length, OPT length, layout of the additional
/// section) and the *route* by which the builder is made and the *recipe*,
/// i.e. what the last builder operations are (a response whose final
/// operation removed octets must leave the stack as well-framed as one that
/// was only appended to).
#[derive(Clone, Debug, Default)]
pub struct AnsSpec {
    pub len: usize,
    pub optlen: usize,
    /// plain | rewind | filllimit | fill64k | optfail
    pub recipe: String,
    /// mk | new | from | newtgt
    pub route: String,
    /// none | before | after | both: non-OPT additional records around the OPT
    pub alay: String,
}

#[derive(Clone, Debug)]
pub enum Item {
    /// like `Resp`, with recipe / route / layout
    RespX {
        spec: AnsSpec,
        fb: Option<ServiceFeedback>,
    },
    /// Err(ServiceError) of the given kind: formerr | notimp | refused
    FailWith(&'static str),
    /// a response of `len` octets in total of which `optlen` are an OPT
    /// record (0 = none); `len == 0` means "smallest answer with marker k"
    Resp {
        len: usize,
        optlen: usize,
        fb: Option<ServiceFeedback>,
    },
    Fail,
    /// a stream item without a response, only feedback
    Feedback(ServiceFeedback),
}

#[derive(Default)]
pub struct Script {
    pub items: VecDeque<Item>,
    pub permits: usize,
    pub yielded: u8,
    waker: Option<Waker>,
}

#[derive(Default)]
pub struct SvcState {
    pub scripts: HashMap<u16, Script>,
    /// (id, reserved bytes seen by the service, udp hint seen by the service)
    pub arrived: Vec<(u16, u16, Option<u16>)>,
    /// requests without script are echoed (one minimal answer)
    pub echo: bool,
    /// echo mode: how the answer is assembled depends on the request id
    /// (OPT attached or not, recipe), so that every way a response can leave
    /// the stack occurs under hostile input as well
    pub echo_varied: bool,
    /// per arrived request: did `RequestMessage::try_from(request)` (what a
    /// forwarding service does first) succeed
    pub fwd: Vec<bool>,
    /// per arrived request: TransportSpecificContext::is_non_udp()
    pub non_udp: Vec<bool>,
}

/// The scripted service; `T` is the octets type its responses are built on.
pub struct ScriptSvc<T = Vec<u8>>(pub Arc<Mutex<SvcState>>, PhantomData<fn() -> T>);

impl<T> Clone for ScriptSvc<T> {
    fn clone(&self) -> Self {
        ScriptSvc(self.0.clone(), PhantomData)
    }
}

impl<T> Default for ScriptSvc<T> {
    fn default() -> Self {
        ScriptSvc(Default::default(), PhantomData)
    }
}

impl<T> ScriptSvc<T> {
    pub fn echo() -> Self {
        let s = ScriptSvc::default();
        s.0.lock().unwrap().echo = true;
        s
    }
    pub fn echo_varied() -> Self {
        let s = Self::echo();
        s.0.lock().unwrap().echo_varied = true;
        s
    }
    pub fn script(&self, id: u16, items: Vec<Item>, permits: usize) {
        self.0.lock().unwrap().scripts.insert(
            id,
            Script {
                items: items.into(),
                permits,
                ..Default::default()
            },
        );
    }
    pub fn release(&self, id: u16) {
        let mut s = self.0.lock().unwrap();
        if let Some(sc) = s.scripts.get_mut(&id) {
            sc.permits += 1;
            if let Some(w) = sc.waker.take() {
                w.wake();
            }
        }
    }
}

pub struct ScriptStream<T = Vec<u8>> {
    svc: ScriptSvc<T>,
    id: u16,
    msg: Arc<Message<Vec<u8>>>,
    echoed: bool,
}

/// The octets types responses are built on and the public ways to make a
/// stream-target message builder over them.
pub trait MkTgt: Composer + Default + Send + Sync + 'static {
    fn builder(route: &str) -> MessageBuilder<StreamTarget<Self>>;
}

impl MkTgt for Vec<u8> {
    fn builder(route: &str) -> MessageBuilder<StreamTarget<Self>> {
        match route {
            "new" => MessageBuilder::new_stream_vec(),
            "from" => MessageBuilder::from_target(StreamTarget::new(Vec::new()).unwrap()).unwrap(),
            "newtgt" => MessageBuilder::from_target(StreamTarget::new_vec()).unwrap(),
            _ => mk_builder_for_target::<Vec<u8>>(),
        }
    }
}

impl MkTgt for BytesMut {
    fn builder(route: &str) -> MessageBuilder<StreamTarget<Self>> {
        match route {
            "new" => MessageBuilder::new_stream_bytes(),
            "from" => {
                MessageBuilder::from_target(StreamTarget::new(BytesMut::new()).unwrap()).unwrap()
            }
            "newtgt" => MessageBuilder::from_target(StreamTarget::new_bytes()).unwrap(),
            _ => mk_builder_for_target::<BytesMut>(),
        }
    }
}

/// Build an answer of exactly `len` octets (when feasible) for `msg`:
/// header + question + A record 10.0.0.k + filler record + OPT(optlen).
/// The header ID is deliberately *not* the request's: stamping it is the
/// mandatory middleware's job.
pub fn build_answer(
    msg: &Message<Vec<u8>>,
    k: u8,
    len: usize,
    optlen: usize,
    wrong_id: bool,
) -> Result<AdditionalBuilder<StreamTarget<Vec<u8>>>, ServiceError> {
    let spec = AnsSpec { len, optlen, ..Default::default() };
    build_answer_x::<Vec<u8>>(msg, k, &spec, wrong_id)
}

fn a_rec(a: u8, b: u8, c: u8, d: u8) -> (Name<&'static [u8]>, Class, Ttl, A) {
    (Name::root_ref(), Class::IN, Ttl::from_secs(0), A::from_octets(a, b, c, d))
}

/// The same for every octets type, builder route, additional-section layout
/// and recipe.  Whatever the recipe, the message that results is the one
/// `len` / `optlen` / `alay` describe; the recipes differ in the builder
/// operations that come last:
///  * plain:     only appends
///  * rewind:    an authority record is pushed and the section rewound
///  * filllimit: a push limit just above the message, then a record that
///               does not fit (the push is rolled back: LimitExceeded)
///  * fill64k:   a record that would take the message beyond 65535 octets
///               (the stream target refuses, the push is rolled back)
///  * optfail:   a second OPT whose closure fails (cut off again)
pub fn build_answer_x<T: MkTgt>(
    msg: &Message<Vec<u8>>,
    k: u8,
    spec: &AnsSpec,
    wrong_id: bool,
) -> Result<AdditionalBuilder<StreamTarget<T>>, ServiceError> {
    let builder = T::builder(&spec.route);
    let mut ans = builder.start_answer(msg, Rcode::NOERROR)?;
    if wrong_id {
        ans.header_mut().set_id(0xdead);
    }
    let base = ans.as_slice().len(); // 12 + question
    ans.push(a_rec(10, 0, 0, k))?;
    let nadd = match spec.alay.as_str() {
        "before" | "after" => 1,
        "both" => 2,
        _ => 0,
    };
    let have = base + 15 + spec.optlen + 15 * nadd;
    if spec.len > have {
        let mut fill = spec.len - have;
        // filler records: 11 octets of overhead each, at most 60000 of data
        while fill > 0 {
            if fill < 11 {
                // cannot hit the size exactly; the case generator avoids this
                break;
            }
            let n = (fill - 11).min(60000);
            let data = vec![0xAAu8; n];
            let rd = UnknownRecordData::from_octets(Rtype::from_int(65280), data)
                .map_err(|_| ServiceError::InternalError)?;
            ans.push((Name::root_ref(), Class::IN, Ttl::from_secs(0), rd))?;
            fill -= 11 + n;
        }
    }
    let mut auth = ans.authority();
    if spec.recipe == "rewind" {
        auth.push(a_rec(10, 9, 9, 9))?;
        auth.rewind();
    }
    let mut add = auth.additional();
    if matches!(spec.alay.as_str(), "before" | "both") {
        add.push(a_rec(10, 1, 1, 1))?;
    }
    if spec.optlen >= 11 {
        let pad = spec.optlen - 11;
        add.opt(|o| {
            if pad >= 4 {
                o.padding((pad - 4) as u16)?;
            }
            Ok(())
        })?;
    }
    if matches!(spec.alay.as_str(), "after" | "both") {
        add.push(a_rec(10, 2, 2, 2))?;
    }
    match spec.recipe.as_str() {
        "filllimit" => {
            let l = add.as_slice().len();
            add.set_push_limit(l + 50);
            let rd = UnknownRecordData::from_octets(Rtype::from_int(65280), vec![0xBBu8; 100])
                .map_err(|_| ServiceError::InternalError)?;
            if add.push((Name::root_ref(), Class::IN, Ttl::from_secs(0), rd)).is_ok() {
                return Err(ServiceError::InternalError);
            }
        }
        "fill64k" => {
            let rd = UnknownRecordData::from_octets(Rtype::from_int(65280), vec![0xCCu8; 65535])
                .map_err(|_| ServiceError::InternalError)?;
            if add.push((Name::root_ref(), Class::IN, Ttl::from_secs(0), rd)).is_ok() {
                return Err(ServiceError::InternalError);
            }
        }
        "optfail" => {
            let r = add.opt(|o| {
                o.padding(10)?;
                Err(ShortBuf)
            });
            if r.is_ok() {
                return Err(ServiceError::InternalError);
            }
        }
        _ => {}
    }
    Ok(add)
}

/// echo mode with variety: what the answer looks like follows from the id
pub fn varied_spec(id: u16) -> AnsSpec {
    AnsSpec {
        len: 0,
        optlen: if id & 1 == 1 { 11 } else { 0 },
        recipe: ["plain", "filllimit", "optfail", "rewind", "fill64k", "plain", "plain", "plain"]
            [((id >> 1) & 7) as usize]
            .into(),
        route: ["mk", "new", "from", "newtgt"][((id >> 4) & 3) as usize].into(),
        alay: ["none", "before", "after", "both"][((id >> 6) & 3) as usize].into(),
    }
}

impl<T: MkTgt> futures_util::stream::Stream for ScriptStream<T> {
    type Item = ServiceResult<T>;
    fn poll_next(mut self: Pin<&mut Self>, cx: &mut Context<'_>) -> Poll<Option<Self::Item>> {
        let svc = self.svc.clone();
        let mut s = svc.0.lock().unwrap();
        let echo = s.echo;
        let id = self.id;
        match s.scripts.get_mut(&id) {
            None => {
                if echo && !self.echoed {
                    let spec = if s.echo_varied { varied_spec(id) } else { AnsSpec::default() };
                    drop(s);
                    self.echoed = true;
                    let r = build_answer_x::<T>(&self.msg, 1, &spec, true).map(CallResult::new);
                    return Poll::Ready(Some(r));
                }
                Poll::Ready(None)
            }
            Some(sc) => {
                if sc.items.is_empty() {
                    return Poll::Ready(None);
                }
                if sc.permits == 0 {
                    sc.waker = Some(cx.waker().clone());
                    return Poll::Pending;
                }
                sc.permits -= 1;
                let item = sc.items.pop_front().unwrap();
                match item {
                    Item::Fail => Poll::Ready(Some(Err(ServiceError::InternalError))),
                    Item::FailWith(kind) => Poll::Ready(Some(Err(match kind {
                        "formerr" => ServiceError::FormatError,
                        "notimp" => ServiceError::NotImplemented,
                        "refused" => ServiceError::Refused,
                        _ => ServiceError::InternalError,
                    }))),
                    Item::RespX { spec, fb } => {
                        sc.yielded += 1;
                        let k = sc.yielded;
                        drop(s);
                        let r = build_answer_x::<T>(&self.msg, k, &spec, true).map(|b| {
                            let cr = CallResult::new(b);
                            match fb {
                                Some(f) => cr.with_feedback(f),
                                None => cr,
                            }
                        });
                        Poll::Ready(Some(r))
                    }
                    Item::Feedback(fb) => Poll::Ready(Some(Ok(CallResult::feedback_only(fb)))),
                    Item::Resp { len, optlen, fb } => {
                        sc.yielded += 1;
                        let k = sc.yielded;
                        drop(s);
                        let spec = AnsSpec { len, optlen, ..Default::default() };
                        let r = build_answer_x::<T>(&self.msg, k, &spec, true).map(|b| {
                            let cr = CallResult::new(b);
                            match fb {
                                Some(f) => cr.with_feedback(f),
                                None => cr,
                            }
                        });
                        Poll::Ready(Some(r))
                    }
                }
            }
        }
    }

    /// exact: what a well-behaved service stream announces
    fn size_hint(&self) -> (usize, Option<usize>) {
        let s = self.svc.0.lock().unwrap();
        let n = match s.scripts.get(&self.id) {
            Some(sc) => sc.items.len(),
            None => usize::from(s.echo && !self.echoed),
        };
        (n, Some(n))
    }
}

/// What every service of the harness does with an arriving request: note
/// what the middleware told it (reserved octets, size hint, transport) and
/// convert the request into a client request the way a forwarding service
/// would (`TryFrom<Request> for RequestMessage`).
pub fn note_arrival(state: &Mutex<SvcState>, request: &Request<Vec<u8>, ()>) {
    let id = request.message().header().id();
    let hint = match request.transport_ctx() {
        TransportSpecificContext::Udp(c) => c.max_response_size_hint(),
        TransportSpecificContext::NonUdp(_) => None,
    };
    let fwd = domain::net::client::request::RequestMessage::<Vec<u8>>::try_from(request.clone());
    let mut s = state.lock().unwrap();
    s.arrived.push((id, request.num_reserved_bytes(), hint));
    s.fwd.push(fwd.is_ok());
    s.non_udp.push(request.transport_ctx().is_non_udp());
}

impl<T: MkTgt> Service<Vec<u8>, ()> for ScriptSvc<T> {
    type Target = T;
    type Stream = ScriptStream<T>;
    type Future = Ready<ScriptStream<T>>;
    fn call(&self, request: Request<Vec<u8>, ()>) -> Self::Future {
        let id = request.message().header().id();
        note_arrival(&self.0, &request);
        ready(ScriptStream {
            svc: self.clone(),
            id,
            msg: request.message().clone(),
            echoed: false,
        })
    }
}

pub type StackOver<S> = MandatoryMiddlewareSvc<
    Vec<u8>,
    EdnsMiddlewareSvc<Vec<u8>, CookiesMiddlewareSvc<Vec<u8>, S, ()>, ()>,
    (),
>;
pub type Stack<T = Vec<u8>> = StackOver<ScriptSvc<T>>;

pub const SECRET: [u8; 16] = [7u8; 16];

/// The stack the property names: Mandatory(Edns(Cookies(svc))).
pub fn stack<T: MkTgt>(svc: ScriptSvc<T>) -> Stack<T> {
    MandatoryMiddlewareSvc::new(EdnsMiddlewareSvc::new(CookiesMiddlewareSvc::new(svc, SECRET)))
}

/// How the stack is put together (every public constructor / switch of the
/// three middleware services).
#[derive(Clone, Debug)]
pub struct StackCfg {
    /// MandatoryMiddlewareSvc::new (strict) or ::relaxed
    pub strict: bool,
    /// EdnsMiddlewareSvc::enable
    pub edns_on: bool,
    /// CookiesMiddlewareSvc::enable
    pub ck_on: bool,
    /// CookiesMiddlewareSvc::with_denied_ips
    pub denied: Vec<IpAddr>,
    /// CookiesMiddlewareSvc::with_random_secret instead of ::new(SECRET)
    pub random_secret: bool,
    /// call enable(true) explicitly (same as not calling it)
    pub explicit_on: bool,
}

impl Default for StackCfg {
    fn default() -> Self {
        StackCfg {
            strict: true,
            edns_on: true,
            ck_on: true,
            denied: vec![],
            random_secret: false,
            explicit_on: false,
        }
    }
}

impl StackCfg {
    pub fn from_json(v: &Value, client: IpAddr) -> Self {
        let d = StackCfg::default();
        StackCfg {
            strict: v["strict"].as_bool().unwrap_or(d.strict),
            edns_on: v["edns_on"].as_bool().unwrap_or(d.edns_on),
            ck_on: v["ck_on"].as_bool().unwrap_or(d.ck_on),
            denied: if v["denied"].as_bool().unwrap_or(false) { vec![client] } else { vec![] },
            random_secret: v["secret"].as_str() == Some("random"),
            explicit_on: v["explicit_on"].as_bool().unwrap_or(false),
        }
    }
}

pub fn stack_over<S>(svc: S, c: &StackCfg) -> StackOver<S>
where
    S: Service<Vec<u8>, ()>,
    S::Future: Unpin,
{
    let mut ck = if c.random_secret {
        CookiesMiddlewareSvc::with_random_secret(svc)
    } else {
        CookiesMiddlewareSvc::new(svc, SECRET)
    };
    if !c.denied.is_empty() {
        ck = ck.with_denied_ips(c.denied.clone());
    }
    if !c.ck_on || c.explicit_on {
        ck = ck.enable(c.ck_on);
    }
    let mut ed = EdnsMiddlewareSvc::new(ck);
    if !c.edns_on || c.explicit_on {
        ed = ed.enable(c.edns_on);
    }
    if c.strict {
        MandatoryMiddlewareSvc::new(ed)
    } else {
        MandatoryMiddlewareSvc::relaxed(ed)
    }
}

/// A service made with `util::service_fn` (one answer per request, no
/// control over completion): the same answers as the scripted service.
pub type FnMeta = (AnsSpec, Arc<Mutex<SvcState>>);
pub fn fn_handler(req: Request<Vec<u8>, ()>, meta: FnMeta) -> ServiceResult<Vec<u8>> {
    note_arrival(&meta.1, &req);
    build_answer_x::<Vec<u8>>(req.message(), 1, &meta.0, true).map(CallResult::new)
}

//------------ request construction ------------------------------------------

/// A query with the given id whose question section is `qlen` octets long
/// (qlen >= 5: root name + type + class; names are built from labels of
/// 'a's), optional OPT with the given UDP payload size.
pub fn mk_query(id: u16, qlen: usize, edns: Option<u16>, qr: bool) -> Vec<u8> {
    mk_query_opts(id, qlen, edns, qr, "none")
}

/// `ropts`: which EDNS options the request's OPT record carries (only with
/// `edns`): none | keepalive | padding | cookie | nsid | unknown | several
pub fn mk_query_opts(id: u16, qlen: usize, edns: Option<u16>, qr: bool, ropts: &str) -> Vec<u8> {
    use domain::base::iana::OptionCode;
    use domain::base::opt::cookie::ClientCookie;
    use domain::base::opt::{Cookie, UnknownOptData};
    let mut name = Vec::new();
    let mut left = qlen.saturating_sub(5); // octets of labels (each 1 + n)
    while left > 0 {
        let n = if left >= 64 { 63 } else { left - 1 };
        if n == 0 {
            // a single octet cannot be a label; the generator avoids this
            break;
        }
        name.push(n as u8);
        name.extend(std::iter::repeat(b'a').take(n));
        left -= 1 + n;
    }
    name.push(0);
    let name: Name<Vec<u8>> = Name::from_octets(name).expect("valid name");
    let mut b = MessageBuilder::new_vec();
    b.header_mut().set_id(id);
    b.header_mut().set_rd(true);
    b.header_mut().set_qr(qr);
    let mut q = b.question();
    q.push((&name, Rtype::A)).unwrap();
    let mut a = q.additional();
    if let Some(sz) = edns {
        a.opt(|o| {
            o.set_udp_payload_size(sz);
            let several = ropts == "several";
            if ropts == "keepalive" || several {
                o.tcp_keepalive(None)?;
            }
            if ropts == "padding" || several {
                o.padding(37)?;
            }
            if ropts == "cookie" || several {
                o.cookie(Cookie::new(ClientCookie::from_octets([1, 2, 3, 4, 5, 6, 7, 8]), None))?;
            }
            if ropts == "nsid" || several {
                o.push(&UnknownOptData::new(OptionCode::NSID, Vec::<u8>::new()).unwrap())?;
            }
            if ropts == "unknown" || several {
                o.push(&UnknownOptData::new(OptionCode::from_int(65001), vec![9u8; 5]).unwrap())?;
            }
            Ok(())
        })
        .unwrap();
    }
    a.finish()
}

/// A request assembled octet by octet, so that every hostile shape can be
/// said: number of questions, opcode, number of OPT records, EDNS version,
/// raw options.
#[derive(Clone, Debug)]
pub struct RawReq {
    pub id: u16,
    pub qlen: usize,
    pub qd: u16,
    pub opcode: u8,
    pub qr: bool,
    /// OPT records: (udp size, version, options as (code, data))
    pub opts: Vec<(u16, u8, Vec<(u16, Vec<u8>)>)>,
}

pub fn qname_of_len(qlen: usize) -> Vec<u8> {
    let mut name = Vec::new();
    let mut left = qlen.saturating_sub(5);
    while left > 0 {
        let n = if left >= 64 { 63 } else { left - 1 };
        if n == 0 {
            break;
        }
        name.push(n as u8);
        name.extend(std::iter::repeat(b'a').take(n));
        left -= 1 + n;
    }
    name.push(0);
    name
}

pub fn mk_query_raw(r: &RawReq) -> Vec<u8> {
    let mut b = Vec::new();
    b.extend_from_slice(&r.id.to_be_bytes());
    b.push((if r.qr { 0x80 } else { 0 }) | ((r.opcode & 15) << 3) | 1); // RD
    b.push(0);
    b.extend_from_slice(&r.qd.to_be_bytes());
    b.extend_from_slice(&[0, 0, 0, 0]);
    b.extend_from_slice(&(r.opts.len() as u16).to_be_bytes());
    let name = qname_of_len(r.qlen);
    for i in 0..r.qd {
        b.extend_from_slice(&name);
        // A, then AAAA ... for further questions
        b.extend_from_slice(&[0, if i == 0 { 1 } else { 28 }, 0, 1]);
    }
    for (size, version, options) in &r.opts {
        b.push(0);
        b.extend_from_slice(&41u16.to_be_bytes());
        b.extend_from_slice(&size.to_be_bytes());
        b.extend_from_slice(&[0, *version, 0, 0]);
        let rdlen: usize = options.iter().map(|o| 4 + o.1.len()).sum();
        b.extend_from_slice(&(rdlen as u16).to_be_bytes());
        for (code, data) in options {
            b.extend_from_slice(&code.to_be_bytes());
            b.extend_from_slice(&(data.len() as u16).to_be_bytes());
            b.extend_from_slice(data);
        }
    }
    b
}

pub const CLIENT_COOKIE: [u8; 8] = [1, 2, 3, 4, 5, 6, 7, 8];

/// The data of a COOKIE option as the case describes it:
/// {"form": none | client | len (with "n") | std | nonstd,
///  "hash": "ok" | "bad", "d": [hi, lo]}  -- `d` is the distance of the
/// timestamp from the server's clock in 2 x 16-bit limbs (Server.tla).
pub fn cookie_data(ck: &Value, ip: IpAddr, secret: &[u8; 16]) -> Option<Vec<u8>> {
    use domain::base::opt::cookie::{ClientCookie, ServerCookie, StandardServerCookie};
    use domain::base::Serial;
    match ck["form"].as_str().unwrap_or("none") {
        "none" => None,
        "client" => Some(CLIENT_COOKIE.to_vec()),
        "len" => {
            let n = ck["n"].as_u64().unwrap_or(0) as usize;
            Some((0..n).map(|i| (i as u8).wrapping_mul(7).wrapping_add(1)).collect())
        }
        "nonstd" => {
            let mut v = CLIENT_COOKIE.to_vec();
            v.extend_from_slice(&[0x42; 24]);
            Some(v)
        }
        _ => {
            let hi = ck["d"][0].as_u64().unwrap_or(0) as u32;
            let lo = ck["d"][1].as_u64().unwrap_or(0) as u32;
            let ts = Serial::now().into_int().wrapping_add((hi << 16) | lo);
            let sc = if ck["hash"].as_str() == Some("ok") {
                StandardServerCookie::calculate(
                    ClientCookie::from_octets(CLIENT_COOKIE),
                    Serial::from(ts),
                    ip,
                    secret,
                )
            } else {
                StandardServerCookie::new(1, [0; 3], Serial::from(ts), [0x55; 8])
            };
            let mut v = CLIENT_COOKIE.to_vec();
            v.extend_from_slice(ServerCookie::from(sc).as_ref());
            Some(v)
        }
    }
}

/// The COOKIE option data of a response, if it has one.
pub fn response_cookie(bytes: &[u8]) -> Option<Vec<u8>> {
    use domain::base::opt::Cookie;
    let msg = Message::from_octets(bytes).ok()?;
    let opt = msg.opt()?;
    let ck = opt.opt().iter::<Cookie>().next()?.ok()?;
    let mut v = ck.client().into_octets().to_vec();
    if let Some(s) = ck.server() {
        v.extend_from_slice(s.as_ref());
    }
    Some(v)
}

/// The request a service kind of Server.tla (`Script`) stands for: most
/// kinds are ordinary queries (`default_edns`); some say what the request
/// looks like -- no OPT record (so that whatever the service attached is
/// stripped again and nothing is appended afterwards), or a COOKIE option
/// with a hostile server cookie.
pub fn request_for(svc: &str, id: u16, qlen: usize, default_edns: Option<u16>, ip: IpAddr) -> Vec<u8> {
    let ck = match svc {
        "strip" | "strip2" | "fill" | "fill64" => return mk_query(id, qlen, None, false),
        // 2^31 + 7200 s ahead of the clock: numerically later, "expired" in
        // serial-number arithmetic
        "ckfar" => json!({"form": "std", "hash": "ok", "d": [32768, 7200]}),
        // two hours old
        "ckexp" => json!({"form": "std", "hash": "ok", "d": [65535, 58336]}),
        // 12 octets: more than a client cookie, less than the shortest pair
        "cklen" => json!({"form": "len", "n": 12}),
        _ => return mk_query(id, qlen, default_edns, false),
    };
    let data = cookie_data(&ck, ip, &SECRET).unwrap_or_default();
    mk_query_raw(&RawReq {
        id,
        qlen,
        qd: 1,
        opcode: 0,
        qr: false,
        opts: vec![(default_edns.unwrap_or(1232), 0, vec![(10, data)])],
    })
}

pub fn frame(body: &[u8]) -> Vec<u8> {
    let mut v = (body.len() as u16).to_be_bytes().to_vec();
    v.extend_from_slice(body);
    v
}

//------------ decoding what the server wrote --------------------------------

/// Full structural re-parse: every section iterates without error and the
/// counts in the header are the numbers of records found.
pub fn describe(bytes: &[u8]) -> Value {
    let msg = match Message::from_octets(bytes) {
        Ok(m) => m,
        Err(_) => return json!({"parses": false}),
    };
    let h = msg.header();
    let c = msg.header_counts();
    let mut ok = true;
    let mut qn = 0u16;
    let mut qbytes: Vec<u8> = vec![];
    for q in msg.question() {
        match q {
            Ok(q) => {
                qn += 1;
                use domain::base::name::ToName;
                qbytes.extend_from_slice(q.qname().to_name::<Vec<u8>>().as_slice());
                qbytes.extend_from_slice(&q.qtype().to_int().to_be_bytes());
                qbytes.extend_from_slice(&q.qclass().to_int().to_be_bytes());
            }
            Err(_) => ok = false,
        }
    }
    let mut counts = [0u16; 3];
    let mut k = 0u8;
    let mut optn = 0;
    if ok {
        match msg.answer() {
            Err(_) => ok = false,
            Ok(mut sec) => {
                for i in 0..3 {
                    for rr in &mut sec {
                        match rr {
                            Ok(rr) => {
                                counts[i] += 1;
                                if rr.rtype() == Rtype::A {
                                    if let Ok(Some(a)) = rr.to_record::<A>() {
                                        k = a.data().addr().octets()[3];
                                    }
                                }
                                if rr.rtype() == Rtype::OPT {
                                    optn += 1;
                                }
                            }
                            Err(_) => ok = false,
                        }
                    }
                    if i < 2 {
                        match sec.next_section() {
                            Ok(Some(s)) => sec = s,
                            _ => {
                                ok = false;
                                break;
                            }
                        }
                    }
                }
            }
        }
    }
    ok = ok
        && qn == c.qdcount()
        && counts[0] == c.ancount()
        && counts[1] == c.nscount()
        && counts[2] == c.arcount();
    let (xrcode, ck, nopt_ck) = match msg.opt() {
        Some(o) => {
            let n = o.opt().iter::<domain::base::opt::Cookie>().count();
            (o.rcode(h).to_int(), n > 0, n)
        }
        None => (h.rcode().to_int() as u16, false, 0),
    };
    json!({
        "xrcode": xrcode,
        "ck": ck,
        "nck": nopt_ck,
        "opcode": h.opcode().to_int(),
        "parses": ok,
        "id": h.id(),
        "qr": h.qr(),
        "tc": h.tc(),
        "rd": h.rd(),
        "rcode": h.rcode().to_int(),
        "an": counts[0],
        "ns": counts[1],
        "ar": counts[2],
        "opt": optn,
        "k": k,
        "q": qbytes,
        "len": bytes.len(),
    })
}

/// Split a byte stream into length-prefixed frames; the second value is
/// the number of octets left over (an incomplete frame).
pub fn deframe(bytes: &[u8]) -> (Vec<Vec<u8>>, usize) {
    let mut out = vec![];
    let mut i = 0;
    while bytes.len() - i >= 2 {
        let n = u16::from_be_bytes([bytes[i], bytes[i + 1]]) as usize;
        if bytes.len() - i - 2 < n {
            break;
        }
        out.push(bytes[i + 2..i + 2 + n].to_vec());
        i += 2 + n;
    }
    (out, bytes.len() - i)
}

/// Let every other task run until nothing more happens.  The main task
/// never blocks, so the paused clock never auto-advances.
pub async fn settle() {
    for _ in 0..60 {
        tokio::task::yield_now().await;
    }
}
